(* C03: every id occurs once.  The registry invariant `ids_inv` (an id carried by an object is registered
   for that object in document.ids; an object carries an id once) is preserved by every operation of the
   renderer's registry interface (Api.v) except the creation of a node with a preset id; hence the ids of
   the rendered document are pairwise distinct for every forest without such nodes (Sphinx equation labels,
   the refuted witness). *)
From Coq Require Import List NArith Bool Lia.
From MV Require Import Base.PyStr.
From MV Require Import Base.Res.
From MV Require Import Doc.Str.
From MV Require Import Doc.Tok.
From MV Require Import Doc.Node.
From MV Require Import Doc.Registry.
From MV Require Import Doc.Prog.
From MV Require Import Gen.Render.
From MV Require Import Doc.Render.
From MV Require Import Doc.OpsProofs.
From MV Require Import Doc.DecoProofs.
From MV Require Import Doc.Api.
Import ListNotations.
Open Scope N_scope.

(* node["ids"] of the object o *)
Definition rec_ids (f : fstate) (o : N) : list str :=
  match nassoc o (objs f) with Some r => nr_ids r | None => [] end.

Definition ids_inv (f : fstate) : Prop :=
  (forall o i, In i (rec_ids f o) -> assoc i (ids f) = Some o) /\
  (forall o, NoDup (rec_ids f o)).

(* the operation touches neither document.ids nor any node's ids *)
Definition same_ids (f f' : fstate) : Prop := ids f' = ids f /\ forall o, rec_ids f' o = rec_ids f o.

Lemma same_ids_refl f : same_ids f f.
Proof. split; auto. Qed.

Lemma same_ids_trans f f1 f2 : same_ids f f1 -> same_ids f1 f2 -> same_ids f f2.
Proof. intros [A1 A2] [B1 B2]. split; [congruence|]. intro o. rewrite B2. apply A2. Qed.

Lemma same_ids_inv f f' : same_ids f f' -> ids_inv f -> ids_inv f'.
Proof.
  intros [E1 E2] [H1 H2]. split.
  - intros o i Hi. rewrite E2 in Hi. rewrite E1. auto.
  - intro o. rewrite E2. auto.
Qed.

Lemma nassoc_nset_same {V} o (r : V) l : nassoc o (nset o r l) = Some r.
Proof.
  induction l as [|[k v] l IH]; simpl.
  - rewrite N.eqb_refl. reflexivity.
  - destruct (o =? k) eqn:E; simpl; [rewrite N.eqb_refl; reflexivity | rewrite E; exact IH].
Qed.

Lemma nassoc_nset_other {V} o o' (r : V) l : o' <> o -> nassoc o' (nset o r l) = nassoc o' l.
Proof.
  intro H. induction l as [|[k v] l IH]; simpl.
  - destruct (o' =? o) eqn:E; [apply N.eqb_eq in E; contradiction | reflexivity].
  - destruct (o =? k) eqn:E; simpl.
    + apply N.eqb_eq in E. subst k. destruct (o' =? o) eqn:E2; [apply N.eqb_eq in E2; contradiction | reflexivity].
    + destruct (o' =? k); [reflexivity | exact IH].
Qed.

(* put_rec with a record that keeps the object's ids *)
Lemma put_rec_same o r f u f' :
  put_rec o r f = Good (u, f') -> nr_ids r = rec_ids f o -> same_ids f f'.
Proof.
  unfold put_rec. intro H. inversion H; subst. intro E. split; [reflexivity|].
  intro o'. unfold rec_ids. cbn [objs set_objs].
  destruct (N.eq_dec o' o) as [->|Hn].
  - rewrite nassoc_nset_same. exact E.
  - rewrite nassoc_nset_other by exact Hn. reflexivity.
Qed.

Lemma get_rec_ids o tg f : nr_ids (get_rec o tg f) = rec_ids f o.
Proof. unfold get_rec, rec_ids. destruct (nassoc o (objs f)); reflexivity. Qed.

Definition pres {A} (op : fop A) : Prop := forall f a f', ids_inv f -> op f = Good (a, f') -> ids_inv f'.
Definition keeps {A} (op : fop A) : Prop := forall f a f', op f = Good (a, f') -> same_ids f f'.

Lemma keeps_pres {A} (op : fop A) : keeps op -> pres op.
Proof. intros H f a f' Hi E. eapply same_ids_inv; eauto. Qed.

Lemma pres_fret {A} (a : A) : pres (fret a).
Proof. intros f x f' Hi H. inversion H; subst. exact Hi. Qed.

Lemma pres_ffail {A} e : pres (@ffail A e).
Proof. intros f x f' Hi H. discriminate. Qed.

Lemma pres_bind {A B} (m : fop A) (k : A -> fop B) : pres m -> (forall a, pres (k a)) -> pres (fbind m k).
Proof.
  intros Hm Hk f b f' Hi H. unfold fbind in H. destruct (m f) as [[a f1]|e] eqn:E; [|discriminate].
  eapply Hk; [|exact H]. eapply Hm; eauto.
Qed.

Lemma keeps_fret {A} (a : A) : keeps (fret a).
Proof. intros f x f' H. inversion H; subst. apply same_ids_refl. Qed.

Lemma keeps_bind {A B} (m : fop A) (k : A -> fop B) : keeps m -> (forall a, keeps (k a)) -> keeps (fbind m k).
Proof.
  intros Hm Hk f b f' H. unfold fbind in H. destruct (m f) as [[a f1]|e] eqn:E; [|discriminate].
  eapply same_ids_trans; [eapply Hm; eauto | eapply Hk; eauto].
Qed.

(* a pure update of a component other than ids / objs *)
Lemma keeps_upd {A} (a : fstate -> A) (g : fstate -> fstate) :
  (forall f, ids (g f) = ids f /\ objs (g f) = objs f) -> keeps (fun f => Good (a f, g f)).
Proof.
  intros Hg f x f' H. inversion H; subst. destruct (Hg f) as [E1 E2]. split; [exact E1|].
  intro o. unfold rec_ids. rewrite E2. reflexivity.
Qed.

Lemma keeps_alloc : keeps alloc.
Proof. intros f x f' H. unfold alloc in H. inversion H; subst. split; reflexivity. Qed.

Lemma keeps_log_warning tag : keeps (log_warning tag).
Proof. intros f x f' H. unfold log_warning in H. inversion H; subst. split; reflexivity. Qed.

Lemma keeps_log_warnings ws : keeps (log_warnings ws).
Proof.
  induction ws as [|w r IH]; cbn [log_warnings]; [apply keeps_fret|].
  apply keeps_bind; [apply keeps_log_warning | intros _; exact IH].
Qed.

Lemma keeps_mk_sysmsg lv tag : keeps (mk_sysmsg lv tag).
Proof. unfold mk_sysmsg. apply keeps_bind; [apply keeps_alloc | intro; apply keeps_fret]. Qed.

Lemma keeps_create_warning tag : keeps (create_warning tag).
Proof. unfold create_warning. apply keeps_bind; [apply keeps_log_warning | intro; apply keeps_mk_sysmsg]. Qed.

Lemma keeps_add_name o tg nm : keeps (add_name o tg nm).
Proof. intros f x f' H. unfold add_name in H. eapply put_rec_same; [exact H|]. cbn [nr_ids]. apply get_rec_ids. Qed.

Lemma keeps_set_names o tg l : keeps (set_names o tg l).
Proof. intros f x f' H. unfold set_names in H. eapply put_rec_same; [exact H|]. cbn [nr_ids]. apply get_rec_ids. Qed.

Lemma keeps_get_names o tg : keeps (get_names o tg).
Proof. intros f x f' H. unfold get_names in H. inversion H; subst. apply same_ids_refl. Qed.

Lemma keeps_set_refuri o tg u : keeps (set_refuri o tg u).
Proof. intros f x f' H. unfold set_refuri in H. eapply put_rec_same; [exact H|]. cbn [nr_ids]. apply get_rec_ids. Qed.

Lemma keeps_dupname o nm : keeps (dupname o nm).
Proof.
  intros f x f' H. unfold dupname in H. destruct (nassoc o (objs f)) as [r|] eqn:E; [|discriminate].
  destruct (mem_str nm (nr_names r)); [|discriminate].
  eapply put_rec_same; [exact H|]. cbn [nr_ids]. unfold rec_ids. rewrite E. reflexivity.
Qed.

Lemma keeps_lookup_obj i : keeps (lookup_obj i).
Proof. intros f x f' H. unfold lookup_obj in H. destruct (assoc i (ids f)); inversion H; subst. apply same_ids_refl. Qed.

Lemma keeps_rec_of o : keeps (rec_of o).
Proof. intros f x f' H. unfold rec_of in H. destruct (nassoc o (objs f)); inversion H; subst. apply same_ids_refl. Qed.

Ltac keeps_go :=
  repeat first
    [ apply keeps_fret
    | apply keeps_alloc | apply keeps_log_warning | apply keeps_mk_sysmsg | apply keeps_create_warning
    | apply keeps_add_name | apply keeps_set_names | apply keeps_get_names | apply keeps_set_refuri
    | apply keeps_dupname | apply keeps_lookup_obj | apply keeps_rec_of
    | (apply keeps_upd; intro; split; reflexivity)
    | (apply keeps_bind; [|intro])
    | match goal with
      | |- keeps (if ?c then _ else _) => destruct c
      | |- keeps (match ?x with _ => _ end) => destruct x
      | |- keeps (let '(_, _) := ?x in _) => destruct x
      end ].

Section Reg.
  Variable make_id : str -> str.
  Variable aip : str.

  Lemma keeps_set_duplicate_name_id o i name explicit : keeps (set_duplicate_name_id o i name explicit).
  Proof.
    intros f x f' H. unfold set_duplicate_name_id in H.
    destruct (assoc name (nameids f)) as [old_id|]; [|discriminate].
    destruct (assoc name (nametypes f)) as [old_explicit|]; [|discriminate].
    match type of H with ?m ?f0 = _ =>
      assert (K : keeps m); [|eapply same_ids_trans; [|eapply K; exact H]] end.
    - keeps_go.
    - split; reflexivity.
  Qed.

  Lemma keeps_set_name_id_map o i names explicit : forall msgs, keeps (set_name_id_map o i names explicit msgs).
  Proof.
    induction names as [|name r IH]; intro msgs; cbn [set_name_id_map]; [apply keeps_fret|].
    intros f x f' H. destruct (has_key name (nameids f)).
    - revert H. generalize f x f'. change (keeps (ms <-- set_duplicate_name_id o i name explicit ;;
                                                   set_name_id_map o i r explicit (msgs ++ ms))).
      apply keeps_bind; [apply keeps_set_duplicate_name_id | intro; apply IH].
    - eapply same_ids_trans; [|eapply IH; exact H]. split; reflexivity.
  Qed.

  (* register_ids on an object whose ids are all registered for it changes nothing *)
  Lemma register_ids_registered o l : forall msgs f x f',
    (forall i, In i l -> assoc i (ids f) = Some o) ->
    register_ids o l msgs f = Good (x, f') -> f' = f.
  Proof.
    induction l as [|i r IH]; intros msgs f x f' Hl H; cbn [register_ids] in H.
    - inversion H; subst. reflexivity.
    - rewrite (Hl i (or_introl eq_refl)) in H. rewrite N.eqb_refl in H.
      eapply IH; [|exact H]. intros j Hj. apply Hl. right. exact Hj.
  Qed.

  Lemma counter_loop_fresh fuel : forall prefix c f i c',
    counter_loop fuel prefix c f = Good (i, c') -> has_key i (ids f) = false.
  Proof.
    induction fuel as [|fuel IH]; intros prefix c f i c' H; simpl in H; [discriminate|].
    destruct (has_key (prefix ++ show (c + 1)%N) (ids f)) eqn:E.
    - eapply IH; eauto.
    - inversion H; subst. exact E.
  Qed.

  Lemma name_loop_fresh names : forall base i0 f broke base' i,
    name_loop make_id names base i0 f = (broke, base', i) -> broke = true -> has_key i (ids f) = false.
  Proof.
    induction names as [|n names IH]; intros base i0 f broke base' i H Hb; simpl in H.
    - inversion H; subst. discriminate.
    - destruct (negb (is_empty (make_id n)) && negb (has_key (make_id n) (ids f))) eqn:E.
      + inversion H; subst. apply andb_true_iff in E. destruct E as [_ E]. apply negb_true_iff in E. exact E.
      + eapply IH; eauto.
  Qed.

  Lemma has_key_assoc {V} k (l : list (str * V)) : has_key k l = false -> assoc k l = None.
  Proof. unfold has_key. destruct (assoc k l); [discriminate|reflexivity]. Qed.

  (* the registration of a fresh id for an object that has none *)
  Lemma fin_inv o i f f1 r1 :
    ids_inv f -> same_ids f f1 -> rec_ids f o = [] -> has_key i (ids f) = false ->
    nr_ids r1 = rec_ids f1 o ->
    ids_inv (set_ids (set_objs f1 (nset o (mkNrec (nr_tag r1) (nr_names r1) (nr_dupnames r1) (nr_ids r1 ++ [i])
                                                  (nr_refuri r1)) (objs f1)))
                     (aset i o (ids f1))).
  Proof.
    intros [H1 H2] [E1 E2] Hn Hf Hr. rewrite Hr, E2, Hn. cbn [app].
    assert (Hnone : assoc i (ids f) = None) by (apply has_key_assoc; exact Hf).
    split.
    - intros o' j Hj. unfold rec_ids in Hj. cbn [objs set_ids set_objs ids] in *.
      destruct (N.eq_dec o' o) as [->|Hne].
      + rewrite nassoc_nset_same in Hj. cbn [nr_ids] in Hj. destruct Hj as [->|[]]. apply assoc_aset_same.
      + rewrite nassoc_nset_other in Hj by exact Hne.
        assert (Hj' : In j (rec_ids f o')) by (rewrite <- E2; exact Hj).
        pose proof (H1 o' j Hj') as Hreg.
        rewrite assoc_aset_other; [rewrite E1; exact Hreg|].
        intro X. subst j. rewrite Hnone in Hreg. discriminate.
    - intro o'. unfold rec_ids. cbn [objs set_ids set_objs].
      destruct (N.eq_dec o' o) as [->|Hne].
      + rewrite nassoc_nset_same. cbn [nr_ids]. constructor; [intros []|constructor].
      + rewrite nassoc_nset_other by exact Hne. specialize (H2 o'). rewrite <- E2 in H2. exact H2.
  Qed.

  Lemma pres_set_id o tg : pres (set_id make_id aip o tg).
  Proof.
    intros f [i msgs] f' Hi H. unfold set_id in H.
    pose proof (get_rec_ids o tg f) as Er.
    destruct (nr_ids (get_rec o tg f)) as [|i0 l0] eqn:En.
    - destruct (name_loop make_id (nr_names (get_rec o tg f)) [] [] f) as [[broke base] i1] eqn:Enl.
      destruct broke.
      + inversion H; subst.
        assert (X := fin_inv o i f f (get_rec o tg f) Hi (same_ids_refl f) (eq_sym Er)
                       (name_loop_fresh _ _ _ _ _ _ _ Enl eq_refl) (get_rec_ids o tg f)).
        rewrite En in X. exact X.
      + destruct (counter_loop _ _ _ _) as [[i2 c']|e] eqn:Ec; [|discriminate].
        inversion H; subst.
        match goal with |- ids_inv (set_ids (set_objs ?f1 _) _) =>
          assert (X := fin_inv o i f f1 (get_rec o tg f1) Hi (conj eq_refl (fun _ => eq_refl)) (eq_sym Er)
                         (counter_loop_fresh _ _ _ _ _ _ Ec) (get_rec_ids o tg f1)) end.
        exact X.
    - destruct (register_ids o (i0 :: l0) [] f) as [[ms f1]|e] eqn:Eg; [|discriminate].
      inversion H; subst.
      assert (f' = f); [|subst; exact Hi].
      eapply register_ids_registered; [|exact Eg].
      intros j Hj. destruct Hi as [H1 _]. apply H1. rewrite <- Er. exact Hj.
  Qed.

  Lemma pres_note_target o tg explicit : pres (note_target make_id aip o tg explicit).
  Proof.
    unfold note_target. apply pres_bind; [apply pres_set_id|]. intros [i m1].
    apply pres_bind; [apply keeps_pres; intros f x f' H; inversion H; subst; apply same_ids_refl|].
    intro r. apply pres_bind; [apply keeps_pres; apply keeps_set_name_id_map|]. intro. apply pres_fret.
  Qed.

  Lemma pres_set_id_nomsg o tg : pres (set_id_nomsg make_id aip o tg).
  Proof. unfold set_id_nomsg. apply pres_bind; [apply pres_set_id | intro; apply pres_fret]. Qed.

  Lemma pres_note_footnote o tg : pres (note_footnote make_id aip o tg).
  Proof.
    unfold note_footnote. apply pres_bind; [apply pres_set_id_nomsg|]. intro.
    apply keeps_pres. apply keeps_upd. intro; split; reflexivity.
  Qed.
  Lemma pres_note_autofootnote o tg : pres (note_autofootnote make_id aip o tg).
  Proof.
    unfold note_autofootnote. apply pres_bind; [apply pres_set_id_nomsg|]. intro.
    apply keeps_pres. apply keeps_upd. intro; split; reflexivity.
  Qed.
  Lemma pres_note_autofootnote_ref o tg : pres (note_autofootnote_ref make_id aip o tg).
  Proof.
    unfold note_autofootnote_ref. apply pres_bind; [apply pres_set_id_nomsg|]. intro.
    apply keeps_pres. apply keeps_upd. intro; split; reflexivity.
  Qed.
  Lemma pres_note_footnote_ref o tg nm : pres (note_footnote_ref make_id aip o tg nm).
  Proof.
    unfold note_footnote_ref. apply pres_bind; [apply pres_set_id_nomsg|]. intro.
    apply keeps_pres. apply keeps_upd. intro; split; reflexivity.
  Qed.
End Reg.

Section ApiPres.
  Variable B : backend.
  Variable C : cfg.
  Variable OR : oracles.

  Lemma pres_note_target' o tg e : pres (note_target' C OR o tg e).
  Proof. unfold note_target'. apply pres_note_target. Qed.

  Lemma pres_copy_loop o tg keys al conv l : forall a msgs, pres (copy_loop C OR o tg keys al conv l a msgs).
  Proof.
    induction l as [|[k0 v] r IH]; intros a msgs; cbn [copy_loop]; [apply pres_fret|].
    destruct (negb (mem_str _ keys)); [apply IH|].
    destruct (str_eqb _ a_class); [apply IH|].
    destruct (str_eqb _ a_id).
    - apply pres_bind; [apply keeps_pres; apply keeps_add_name|]. intro.
      apply pres_bind; [apply pres_note_target'|]. intro. apply IH.
    - destruct (mem_str _ conv); [apply pres_ffail | apply IH].
  Qed.

  Lemma pres_heading_target o tg title : pres (heading_target C OR o tg title).
  Proof.
    unfold heading_target. destruct (astext_clean title); [|apply pres_ffail].
    apply pres_bind; [apply keeps_pres; apply keeps_get_names|]. intro.
    apply pres_bind; [apply keeps_pres; apply keeps_set_names|]. intro.
    apply pres_bind; [apply pres_note_target'|]. intro.
    apply pres_bind; [apply keeps_pres; apply keeps_get_names|]. intro.
    apply pres_bind; [apply keeps_pres; apply keeps_set_names|]. intro. apply pres_fret.
  Qed.

  (* every operation of the interface, the preset-id constructor excluded, preserves the invariant *)
  Theorem api_pres : forall A (op : fop A), api C OR false A op -> pres op.
  Proof.
    intros A op H. destruct H.
    - apply keeps_pres, keeps_alloc.
    - apply keeps_pres, keeps_create_warning.
    - apply keeps_pres, keeps_log_warning.
    - apply keeps_pres, keeps_log_warnings.
    - unfold copy_attributes. apply pres_copy_loop.
    - apply pres_note_target'.
    - apply pres_heading_target.
    - apply keeps_pres, keeps_add_name.
    - apply keeps_pres, keeps_set_refuri.
    - apply pres_note_footnote.
    - apply pres_note_autofootnote.
    - apply pres_note_footnote_ref.
    - apply pres_note_autofootnote_ref.
    - apply pres_set_id_nomsg.
    - apply keeps_pres. intros f x f' E. unfold is_footnote_defined in E. inversion E; subst. apply same_ids_refl.
    - apply keeps_pres. unfold next_uuid. apply keeps_upd. intro; split; reflexivity.
    - apply keeps_pres. intros f x f' E. unfold relabel_all in E.
      destruct (relabel_list ns (nxt f)) as [ns' c]. inversion E; subst. split; reflexivity.
    - discriminate.
  Qed.

  Lemma ids_inv_init : ids_inv f_init.
  Proof. split; intros; [contradiction | constructor]. Qed.

  Theorem render_ids_inv ts s :
    forallb (preset_free B) ts = true -> render_state B C OR ts = Good s -> ids_inv (fs s).
  Proof.
    intros Hp H. apply (render_state_inv B C OR false ids_inv) with (ts := ts); auto.
    - intros A op Ha f a f' Hi E. eapply api_pres; eauto.
    - apply ids_inv_init.
  Qed.
End ApiPres.

(* ---- from the registry invariant to the ids of the rendered document ---- *)
Fixpoint all_ids (n : node) : list str :=
  match n with
  | Text _ _ => []
  | Elem _ _ a cs => (match assoc a_ids a with Some l => l | None => [] end) ++ flat_map all_ids cs
  end.

Fixpoint nodup_strs (l : list str) : bool :=
  match l with
  | [] => true
  | x :: r => negb (mem_str x r) && nodup_strs r
  end.

Definition ids_unique (doc : node) : bool := nodup_strs (all_ids doc).

Lemma nodup_strs_NoDup l : NoDup l -> nodup_strs l = true.
Proof.
  induction 1 as [|x l Hx _ IH]; [reflexivity|]. cbn [nodup_strs]. rewrite IH, andb_true_r.
  apply negb_true_iff. destruct (mem_str x l) eqn:E; [|reflexivity]. apply mem_str_In in E. contradiction.
Qed.

Lemma deco_ids objs o a :
  (match assoc a_ids (deco_attrs objs o a) with Some l => l | None => [] end)
  = match nassoc o objs with Some r => nr_ids r | None => [] end.
Proof.
  unfold deco_attrs. destruct (nassoc o objs) as [r|]; [|rewrite assoc_ids_strip_reg; reflexivity].
  rewrite assoc_app, assoc_ids_strip_reg.
  destruct (nr_names r); destruct (nr_dupnames r); destruct (nr_ids r); reflexivity.
Qed.

(* ids of the decorated tree: the ids of the objects of its elements, in document order *)
Fixpoint elem_oids (n : node) : list N :=
  match n with
  | Text _ _ => []
  | Elem o _ _ cs => o :: flat_map elem_oids cs
  end.

Lemma all_ids_decorate f n : all_ids (decorate (objs f) n) = flat_map (rec_ids f) (elem_oids n).
Proof.
  induction n as [o s|o tg a cs IH] using node_ind'; [reflexivity|].
  cbn [decorate all_ids elem_oids flat_map]. rewrite deco_ids. unfold rec_ids at 1. f_equal.
  induction IH as [|c cs Hc _ IHc]; [reflexivity|].
  cbn [map flat_map]. rewrite flat_map_app, Hc, IHc. reflexivity.
Qed.

Lemma elem_oids_sub n : forall o, In o (elem_oids n) -> In o (oids n).
Proof.
  induction n as [o s|o tg a cs IH] using node_ind'; intros x Hx; [contradiction|].
  cbn [elem_oids oids] in *. destruct Hx as [->|Hx]; [left; reflexivity|right].
  apply in_flat_map in Hx. destruct Hx as [c [Hc Hx]]. apply in_flat_map. exists c. split; auto.
  rewrite Forall_forall in IH. auto.
Qed.

Lemma NoDup_app_split {A} (a b : list A) :
  NoDup (a ++ b) -> NoDup a /\ NoDup b /\ (forall x, In x a -> In x b -> False).
Proof.
  induction a as [|x a IH]; cbn [app]; intro H.
  - split; [constructor|]. split; [exact H|]. intros x [].
  - inversion H as [|? ? Hn Hr]; subst. destruct (IH Hr) as [Ha [Hb Hd]]. split.
    + constructor; auto. intro X. apply Hn. apply in_or_app. left. exact X.
    + split; [exact Hb|]. intros y [->|Hy] Hyb; [apply Hn; apply in_or_app; right; exact Hyb | eapply Hd; eauto].
Qed.

Lemma elem_oids_NoDup n : NoDup (oids n) -> NoDup (elem_oids n).
Proof.
  induction n as [o s|o tg a cs IH] using node_ind'; intro H; [constructor|].
  cbn [elem_oids oids] in *. inversion H as [|? ? Hn Hr]; subst.
  assert (K : NoDup (flat_map elem_oids cs)).
  { clear Hn H. revert Hr. induction IH as [|c cs Hc _ IHc]; intro Hr; [constructor|]. cbn [flat_map] in *.
    destruct (NoDup_app_split _ _ Hr) as [H1 [H2 Hd]]. apply NoDup_app_intro; auto.
    intros x X1 X2. apply (Hd x); [apply elem_oids_sub; exact X1|].
    apply in_flat_map in X2. destruct X2 as [c' [Hc' X2]]. apply in_flat_map. exists c'. split; auto.
    apply elem_oids_sub. exact X2. }
  constructor; [|exact K].
  intro X. apply Hn. apply in_flat_map in X. destruct X as [c [Hc X]]. apply in_flat_map. exists c. split; auto.
  apply elem_oids_sub. exact X.
Qed.

Lemma NoDup_flat_map_inj {A B} (g : A -> list B) l :
  NoDup l -> (forall x, NoDup (g x)) -> (forall x y b, In b (g x) -> In b (g y) -> x = y) ->
  NoDup (flat_map g l).
Proof.
  intros Hl Hg Hi. induction Hl as [|x l Hx _ IH]; cbn [flat_map]; [constructor|].
  apply NoDup_app_intro; auto.
  intros b H1 H2. apply in_flat_map in H2. destruct H2 as [y [Hy H2]].
  assert (x = y) by (eapply Hi; eauto). subst y. contradiction.
Qed.

(* the ids of a rendered document are pairwise distinct when its objects are (single occurrence) and the
   registry invariant holds *)
Theorem ids_unique_of_inv f t : NoDup (oids t) -> ids_inv f -> ids_unique (decorate (objs f) t) = true.
Proof.
  intros Hn [H1 H2]. unfold ids_unique. apply nodup_strs_NoDup. rewrite all_ids_decorate.
  apply NoDup_flat_map_inj.
  - apply elem_oids_NoDup. exact Hn.
  - exact H2.
  - intros x y b Hx Hy. apply H1 in Hx. apply H1 in Hy. congruence.
Qed.
