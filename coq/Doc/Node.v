(* docutils doctree with identity labels: every node carries the allocation number of the
   Python object, so that "occurs once" is NoDup (oids tree). *)
From Coq Require Import List NArith Bool.
From MV Require Import Base.PyStr.
From MV Require Import Doc.Str.
Import ListNotations.
Open Scope list_scope.
Open Scope N_scope.

Definition nattrs := list (str * list str).

Inductive node : Type :=
| Text (oid : N) (s : str)
| Elem (oid : N) (tag : str) (a : nattrs) (cs : list node).

Definition oid_of (n : node) : N := match n with Text o _ => o | Elem o _ _ _ => o end.
Definition k_text_tag : str := Eval vm_compute in lit "#text".
Definition tag_of (n : node) : str := match n with Text _ _ => k_text_tag | Elem _ t _ _ => t end.
Definition kids_of (n : node) : list node := match n with Text _ _ => [] | Elem _ _ _ cs => cs end.
Definition attrs_of (n : node) : nattrs := match n with Text _ _ => [] | Elem _ _ a _ => a end.

Definition add_children (n : node) (ms : list node) : node :=
  match n with
  | Text _ _ => n
  | Elem o t a cs => Elem o t a (cs ++ ms)
  end.

Section node_induction.
  Variable P : node -> Prop.
  Hypothesis HT : forall o s, P (Text o s).
  Hypothesis HE : forall o t a cs, Forall P cs -> P (Elem o t a cs).
  Fixpoint node_ind' (n : node) : P n :=
    match n with
    | Text o s => HT o s
    | Elem o t a cs =>
        HE o t a cs
          ((fix go (l : list node) : Forall P l :=
              match l with
              | [] => Forall_nil P
              | x :: r => Forall_cons x (node_ind' x) (go r)
              end) cs)
    end.
End node_induction.

(* all allocation numbers reachable from a node, in document order *)
Fixpoint oids (n : node) : list N :=
  match n with
  | Text o _ => [o]
  | Elem o _ _ cs => o :: flat_map oids cs
  end.

(* Node.astext() *)
Fixpoint astext (n : node) : str :=
  match n with
  | Text _ s => s
  | Elem _ _ _ cs => flat_map astext cs
  end.

(* ---- paths: child indices from the root ---- *)
Definition path := list nat.

Fixpoint upd_nth {A : Type} (i : nat) (f : A -> A) (l : list A) : list A :=
  match l, i with
  | [], _ => []
  | x :: r, O => f x :: r
  | x :: r, S i' => x :: upd_nth i' f r
  end.

(* node.append / extend on the element at path p (no-op when p does not lead to an element) *)
Fixpoint app_at (p : path) (ns : list node) (t : node) {struct p} : node :=
  match p, t with
  | [], Elem o tg a cs => Elem o tg a (cs ++ ns)
  | i :: p', Elem o tg a cs => Elem o tg a (upd_nth i (app_at p' ns) cs)
  | _, Text _ _ => t
  end.

Fixpoint get_at (p : path) (t : node) {struct p} : option node :=
  match p with
  | [] => Some t
  | i :: p' => match nth_error (kids_of t) i with
               | Some c => get_at p' c
               | None => None
               end
  end.

(* p leads to an element *)
Definition valid (p : path) (t : node) : bool :=
  match get_at p t with Some (Elem _ _ _ _) => true | _ => false end.

Definition nchildren (p : path) (t : node) : nat :=
  match get_at p t with Some n => length (kids_of n) | None => O end.

Definition tag_at (p : path) (t : node) : str :=
  match get_at p t with Some n => tag_of n | None => [] end.
