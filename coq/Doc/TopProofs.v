(* The top level of rendering under the Python semantics: the current node is the document or
   the section opened last, on the rightmost spine of the tree; appending there (and opening a
   section at an ancestor on the spine) extends every observation of the tree at its end. *)
From Coq Require Import List NArith Bool Lia Arith Permutation.
From MV Require Import Base.PyStr.
From MV Require Import Base.Res.
From MV Require Import Doc.Str.
From MV Require Import Doc.Tok.
From MV Require Import Doc.Node.
From MV Require Import Doc.Registry.
From MV Require Import Doc.Prog.
From MV Require Import Doc.Refine.
From MV Require Import Gen.Render.
From MV Require Import Doc.Render.
From MV Require Import Doc.RenderProofs.
From MV Require Import Doc.Skel.
From MV Require Import Doc.WF.
From MV Require Import Doc.OpsProofs.
From MV Require Import Doc.Post.
From MV Require Import Doc.PostProofs.
Import ListNotations.
Open Scope N_scope.

(* p is the rightmost path of t and every node on it (end point included) is the document or a section *)
Fixpoint rightmost (p : path) (t : node) {struct p} : Prop :=
  match t with
  | Text _ _ => False
  | Elem _ tg _ cs =>
      is_section_tag tg = true /\
      match p with
      | [] => True
      | i :: p' => exists front c, cs = front ++ [c] /\ i = length front /\ rightmost p' c
      end
  end.

Lemma upd_nth_last {A} (f : A -> A) front c : upd_nth (length front) f (front ++ [c]) = front ++ [f c].
Proof. induction front; simpl; auto. f_equal. auto. Qed.

Lemma rightmost_valid p : forall t, rightmost p t -> valid p t = true.
Proof.
  induction p as [|i p IH]; intros [o s|o tg a cs] H; simpl in H; try contradiction.
  - reflexivity.
  - destruct H as [_ [front [c [-> [-> Hr]]]]]. unfold valid. simpl.
    rewrite nth_error_app2 by lia. rewrite Nat.sub_diag. simpl. apply IH in Hr. exact Hr.
Qed.

Lemma rightmost_tag p : forall t, rightmost p t -> is_section_tag (tag_at p t) = true.
Proof.
  induction p as [|i p IH]; intros [o s|o tg a cs] H; simpl in H; try contradiction.
  - destruct H as [H _]. exact H.
  - destruct H as [_ [front [c [-> [-> Hr]]]]]. unfold tag_at. simpl.
    rewrite nth_error_app2 by lia. rewrite Nat.sub_diag. simpl. apply IH in Hr. exact Hr.
Qed.

(* appending at p keeps p rightmost *)
Lemma rightmost_app_at p : forall t ns, rightmost p t -> rightmost p (app_at p ns t).
Proof.
  induction p as [|i p IH]; intros [o s|o tg a cs] ns H; simpl in H; try contradiction; simpl.
  - destruct H as [H _]. auto.
  - destruct H as [Hs [front [c [-> [-> Hr]]]]]. split; auto.
    exists front, (app_at p ns c). rewrite upd_nth_last. auto.
Qed.

(* a prefix of a rightmost path is rightmost *)
Lemma rightmost_prefix p q : forall t, rightmost (p ++ q) t -> rightmost p t.
Proof.
  induction p as [|i p IH]; intros [o s|o tg a cs] H; simpl in H.
  - destruct q; simpl in H; contradiction.
  - destruct q; simpl in H; destruct H as [H _]; simpl; auto.
  - contradiction.
  - destruct H as [Hs [front [c [-> [-> Hr]]]]]. simpl. split; auto. exists front, c. auto.
Qed.

(* the path of a section appended at the rightmost path p *)
Lemma rightmost_new_section p : forall t o a cs,
  rightmost p t ->
  rightmost (p ++ [nchildren p t]) (app_at p [Elem o n_section a cs] t).
Proof.
  induction p as [|i p IH]; intros [o' s|o' tg a' cs'] o a cs H; simpl in H; try contradiction.
  - destruct H as [H _]. unfold nchildren. simpl. split; auto.
    exists cs', (Elem o n_section a cs). simpl. repeat (split; auto).
  - destruct H as [Hs [front [c [-> [-> Hr]]]]].
    assert (E : nchildren (length front :: p) (Elem o' tg a' (front ++ [c])) = nchildren p c).
    { unfold nchildren. simpl. rewrite nth_error_app2 by lia. rewrite Nat.sub_diag. reflexivity. }
    rewrite E. simpl. split; auto. rewrite upd_nth_last.
    exists front, (app_at p [Elem o n_section a cs] c). repeat (split; auto).
Qed.

(* ---- observations of the tree after appending at a rightmost path ---- *)
Lemma oids_app_at p : forall t ns, rightmost p t -> oids (app_at p ns t) = oids t ++ oids_l ns.
Proof.
  induction p as [|i p IH]; intros [o s|o tg a cs] ns H; simpl in H; try contradiction; simpl.
  - unfold oids_l. rewrite flat_map_app. reflexivity.
  - destruct H as [_ [front [c [-> [-> Hr]]]]]. rewrite upd_nth_last.
    rewrite !flat_map_app. simpl. rewrite !app_nil_r. rewrite (IH c ns Hr).
    rewrite <- !app_assoc. reflexivity.
Qed.

Section Obs.
  Variable D : str -> str.

  Lemma nkind_section_tag tg : is_section_tag tg = true -> nkind_of tg = NTransparent.
  Proof.
    unfold is_section_tag. intro H. apply orb_true_iff in H. destruct H as [H|H]; apply str_eqb_eq in H; subst; reflexivity.
  Qed.

  Lemma skel_app_at p : forall t ns, rightmost p t -> skel_node D (app_at p ns t) = skel_node D t ++ skel_nodes D ns.
  Proof.
    induction p as [|i p IH]; intros [o s|o tg a cs] ns H; simpl in H; try contradiction; cbn [app_at skel_node].
    - destruct H as [H _]. rewrite (nkind_section_tag tg H). unfold skel_nodes. apply flat_map_app.
    - destruct H as [Hs [front [c [-> [-> Hr]]]]]. rewrite (nkind_section_tag tg Hs). rewrite upd_nth_last.
      rewrite !flat_map_app. cbn [flat_map]. rewrite !app_nil_r. rewrite (IH c ns Hr).
      rewrite <- !app_assoc. reflexivity.
  Qed.

  Lemma section_tag_not_sysmsg tg : is_section_tag tg = true -> str_eqb tg k_system_message = false.
  Proof.
    unfold is_section_tag. intro H. apply orb_true_iff in H. destruct H as [H|H]; apply str_eqb_eq in H; subst; reflexivity.
  Qed.

  Lemma dropped_app_at p : forall t ns, rightmost p t ->
    has_dropped (app_at p ns t) = has_dropped t || existsb has_dropped ns.
  Proof.
    induction p as [|i p IH]; intros [o s|o tg a cs] ns H; simpl in H; try contradiction; cbn [app_at has_dropped].
    - destruct H as [H _]. rewrite (section_tag_not_sysmsg tg H). cbn [andb orb]. apply existsb_app.
    - destruct H as [Hs [front [c [-> [-> Hr]]]]]. rewrite (section_tag_not_sysmsg tg Hs). cbn [andb orb].
      rewrite upd_nth_last. rewrite !existsb_app. cbn [existsb]. rewrite (IH c ns Hr), !orb_false_r.
      rewrite orb_assoc. reflexivity.
  Qed.
End Obs.

Lemma section_tag_plain tg : is_section_tag tg = true ->
  str_eqb tg n_transition = false /\ str_eqb tg n_tgroup = false.
Proof.
  unfold is_section_tag. intro H. apply orb_true_iff in H.
  destruct H as [H|H]; apply str_eqb_eq in H; subst; split; reflexivity.
Qed.

Lemma rows_app_at p : forall t ns, rightmost p t -> rows_ok (app_at p ns t) = rows_ok t && forallb rows_ok ns.
Proof.
  induction p as [|i p IH]; intros [o s|o tg a cs] ns H; simpl in H; try contradiction; cbn [app_at rows_ok].
  - destruct H as [H _]. destruct (section_tag_plain tg H) as [_ Hg]. rewrite Hg. cbn [andb]. apply forallb_app.
  - destruct H as [Hs [front [c [-> [-> Hr]]]]]. destruct (section_tag_plain tg Hs) as [_ Hg]. rewrite Hg. cbn [andb].
    rewrite upd_nth_last. rewrite !forallb_app. cbn [forallb]. rewrite (IH c ns Hr), !andb_true_r.
    rewrite andb_assoc. reflexivity.
Qed.

Lemma transitions_app_at p : forall t ns pt, rightmost p t ->
  transitions_ok pt (app_at p ns t) = transitions_ok pt t && forallb (transitions_ok (tag_at p t)) ns.
Proof.
  induction p as [|i p IH]; intros [o s|o tg a cs] ns pt H; simpl in H; try contradiction; cbn [app_at transitions_ok].
  - destruct H as [H _]. destruct (section_tag_plain tg H) as [Ht _]. rewrite Ht. cbn [andb]. apply forallb_app.
  - destruct H as [Hs [front [c [-> [-> Hr]]]]]. destruct (section_tag_plain tg Hs) as [Ht _]. rewrite Ht. cbn [andb].
    rewrite upd_nth_last. rewrite !forallb_app. cbn [forallb]. rewrite (IH c ns tg Hr), !andb_true_r.
    assert (E : tag_at (length front :: p) (Elem o tg a (front ++ [c])) = tag_at p c).
    { unfold tag_at. simpl. rewrite nth_error_app2 by lia. rewrite Nat.sub_diag. reflexivity. }
    rewrite E, andb_assoc. reflexivity.
Qed.

(* sections: placement is compositional; "starts with a title" is kept when the node appended to already
   has children or is not a section *)
Fixpoint sec_place (ptag : str) (n : node) : bool :=
  match n with
  | Text _ _ => true
  | Elem _ tg _ cs => (if str_eqb tg n_section then is_section_tag ptag else true) && forallb (sec_place tg) cs
  end.

Fixpoint sec_title (n : node) : bool :=
  match n with
  | Text _ _ => true
  | Elem _ tg _ cs =>
      (if str_eqb tg n_section then match cs with c :: _ => str_eqb (tag_of c) n_title | [] => false end else true)
      && forallb sec_title cs
  end.

Lemma sections_ok_split pt n : sections_ok pt n = sec_place pt n && sec_title n.
Proof.
  revert pt. induction n as [o s|o tg a cs IH] using node_ind'; intro pt; cbn [sections_ok sec_place sec_title]; auto.
  assert (E : forallb (sections_ok tg) cs = forallb (sec_place tg) cs && forallb sec_title cs).
  { clear -IH. induction IH as [|c cs Hc _ IHc]; cbn [forallb]; auto. rewrite Hc, IHc.
    destruct (sec_place tg c), (sec_title c), (forallb (sec_place tg) cs), (forallb sec_title cs); reflexivity. }
  rewrite E. destruct (str_eqb tg n_section); cbn [andb].
  - destruct (is_section_tag pt), (match cs with c :: _ => str_eqb (tag_of c) n_title | [] => false end),
      (forallb (sec_place tg) cs), (forallb sec_title cs); reflexivity.
  - reflexivity.
Qed.

Lemma sec_place_app_at p : forall t ns pt, rightmost p t ->
  sec_place pt (app_at p ns t) = sec_place pt t && forallb (sec_place (tag_at p t)) ns.
Proof.
  induction p as [|i p IH]; intros [o s|o tg a cs] ns pt H; simpl in H; try contradiction; cbn [app_at sec_place].
  - rewrite forallb_app, andb_assoc. reflexivity.
  - destruct H as [Hs [front [c [-> [-> Hr]]]]].
    rewrite upd_nth_last. rewrite !forallb_app. cbn [forallb]. rewrite (IH c ns tg Hr), !andb_true_r.
    assert (E : tag_at (length front :: p) (Elem o tg a (front ++ [c])) = tag_at p c).
    { unfold tag_at. simpl. rewrite nth_error_app2 by lia. rewrite Nat.sub_diag. reflexivity. }
    rewrite E, !andb_assoc. reflexivity.
Qed.

(* every section on the path already has a child *)
Fixpoint nonempty_path (p : path) (t : node) {struct p} : Prop :=
  match t with
  | Text _ _ => False
  | Elem _ tg _ cs =>
      (str_eqb tg n_section = true -> cs <> []) /\
      match p with
      | [] => True
      | i :: p' => match nth_error cs i with Some c => nonempty_path p' c | None => False end
      end
  end.

Lemma sec_title_app_at p : forall t ns, rightmost p t -> nonempty_path p t ->
  sec_title (app_at p ns t) = sec_title t && forallb sec_title ns.
Proof.
  induction p as [|i p IH]; intros [o s|o tg a cs] ns H Hn; simpl in H, Hn; try contradiction; cbn [app_at sec_title].
  - destruct Hn as [Hn _]. rewrite forallb_app, andb_assoc. f_equal. f_equal.
    destruct (str_eqb tg n_section); auto. destruct cs; [exfalso; apply Hn; auto|reflexivity].
  - destruct H as [Hs [front [c [-> [-> Hr]]]]]. destruct Hn as [Hne Hn].
    rewrite nth_error_app2 in Hn by lia. rewrite Nat.sub_diag in Hn. simpl in Hn.
    rewrite upd_nth_last. rewrite !forallb_app. cbn [forallb]. rewrite (IH c ns Hr Hn), !andb_true_r.
    rewrite !andb_assoc. f_equal. f_equal. f_equal.
    destruct (str_eqb tg n_section); auto. destruct front; [cbn [app]; rewrite tag_of_app_at; reflexivity | reflexivity].
Qed.

(* ---- the section level map ---- *)
Definition is_prefix (q p : path) : Prop := exists r, p = q ++ r.

Lemma is_prefix_refl p : is_prefix p p.
Proof. exists []. rewrite app_nil_r. reflexivity. Qed.

Lemma is_prefix_app q p r : is_prefix q p -> is_prefix q (p ++ r).
Proof. intros [x ->]. exists (x ++ r). rewrite app_assoc. reflexivity. Qed.

Lemma is_prefix_trans a b c : is_prefix a b -> is_prefix b c -> is_prefix a c.
Proof. intros [x ->] [y ->]. exists (x ++ y). rewrite app_assoc. reflexivity. Qed.

Record lvl_ok (lv : list (N * path)) (c : path) : Prop := mkLvlOk {
  lo_keys : NoDup (map fst lv);
  lo_pref : forall l q, In (l, q) lv -> is_prefix q c;
  lo_chain : forall l1 q1 l2 q2, In (l1, q1) lv -> In (l2, q2) lv -> l1 <= l2 -> is_prefix q1 q2
}.

(* the entry found is in the map, below the level, and maximal among those below *)
Lemma parent_level_max {V} (lv : list (N * V)) level : forall best r,
  parent_level lv level best = Some r ->
  (forall b, best = Some b -> fst b < level) ->
  fst r < level /\ (In r lv \/ best = Some r) /\
  (forall l v, In (l, v) lv -> l < level -> l <= fst r) /\ (forall b, best = Some b -> fst b <= fst r).
Proof.
  induction lv as [|[x v] lv IH]; intros best r H Hb; simpl in H.
  - subst best. split; [apply Hb; reflexivity|]. split; auto. split; [intros ? ? []|]. intros b E. inversion E; subst. lia.
  - destruct (x <? level) eqn:E.
    + apply N.ltb_lt in E.
      set (best' := match best with
                    | Some (b, _) => if b <? x then Some (x, v) else best
                    | None => Some (x, v)
                    end) in *.
      assert (Hb' : forall b, best' = Some b -> fst b < level).
      { intros b Eb. unfold best' in Eb. destruct best as [[b0 v0]|].
        - destruct (b0 <? x); inversion Eb; subst; simpl; auto. apply (Hb (b0, v0)). reflexivity.
        - inversion Eb; subst. exact E. }
      destruct (IH best' r H Hb') as [R1 [R2 [R3 R4]]]. split; auto. split; [|split].
      * destruct R2 as [R2|R2]; [left; right; exact R2|].
        unfold best' in R2. destruct best as [[b0 v0]|].
        -- destruct (b0 <? x); [inversion R2; subst; left; left; reflexivity | right; exact R2].
        -- inversion R2; subst. left. left. reflexivity.
      * intros l v' [Hin|Hin] Hl.
        -- inversion Hin; subst. unfold best' in R4. destruct best as [[b0 v0]|].
           ++ destruct (b0 <? l) eqn:Eb.
              ** specialize (R4 (l, v') eq_refl). exact R4.
              ** specialize (R4 (b0, v0) eq_refl). simpl in R4. apply N.ltb_ge in Eb. lia.
           ++ specialize (R4 (l, v') eq_refl). exact R4.
        -- apply (R3 l v'); auto.
      * intros b Eb. subst best. unfold best' in R4. destruct b as [b0 v0].
        destruct (b0 <? x) eqn:Ex.
        -- specialize (R4 (x, v) eq_refl). simpl in *. apply N.ltb_lt in Ex. lia.
        -- apply (R4 (b0, v0)). reflexivity.
    + apply N.ltb_ge in E. destruct (IH best r H Hb) as [R1 [R2 [R3 R4]]]. split; auto. split; [|split]; auto.
      * destruct R2; auto. left. right. auto.
      * intros l v' [Hin|Hin] Hl; [inversion Hin; subst; lia|]. apply (R3 l v'); auto.
Qed.

Lemma in_map_fst {V} (l : N) (q : V) lv : In (l, q) lv -> In l (map fst lv).
Proof. intro H. apply (in_map fst) in H. exact H. Qed.

Lemma lvl_set_in {V} k (v : V) lv : NoDup (map fst lv) -> forall l q,
  In (l, q) (lvl_set k v lv) -> (l, q) = (k, v) \/ (In (l, q) lv /\ l <> k).
Proof.
  induction lv as [|[k' v'] lv IH]; intros Hnd l q H; simpl in H.
  - destruct H as [H|[]]. left. auto.
  - simpl in Hnd. inversion Hnd as [|? ? Hnin Hnd']; subst.
    destruct (k =? k') eqn:E.
    + apply N.eqb_eq in E. subst k'. destruct H as [H|H]; [left; auto|].
      right. split; [right; exact H|]. intro X. subst l. apply Hnin. eapply in_map_fst; eauto.
    + apply N.eqb_neq in E. destruct H as [H|H].
      * inversion H; subst. right. split; [left; reflexivity|]. auto.
      * apply IH in H; auto. destruct H as [H|[H Hn]]; auto. right. split; auto. right. exact H.
Qed.

Lemma lvl_set_keys {V} k (v : V) lv : forall x, In x (map fst (lvl_set k v lv)) -> x = k \/ In x (map fst lv).
Proof.
  induction lv as [|[k' v'] lv IH]; intros x H; simpl in H.
  - destruct H as [H|[]]; auto.
  - destruct (k =? k') eqn:E; simpl in H.
    + apply N.eqb_eq in E. subst. destruct H as [H|H]; auto. right. right. exact H.
    + destruct H as [H|H]; [right; left; exact H|]. apply IH in H. destruct H; auto. right. right. exact H.
Qed.

Lemma lvl_set_nodup {V} k (v : V) lv : NoDup (map fst lv) -> NoDup (map fst (lvl_set k v lv)).
Proof.
  induction lv as [|[k' v'] lv IH]; intro H; simpl.
  - constructor; [intros []|constructor].
  - simpl in H. inversion H as [|? ? Hnin Hnd]; subst. destruct (k =? k') eqn:E; simpl.
    + apply N.eqb_eq in E. subst. constructor; auto.
    + apply N.eqb_neq in E. constructor; [|apply IH; exact Hnd].
      intro X. apply lvl_set_keys in X. destruct X as [X|X]; [congruence|contradiction].
Qed.

Lemma nodup_filter_fst {V} (g : N * V -> bool) lv : NoDup (map fst lv) -> NoDup (map fst (filter g lv)).
Proof.
  induction lv as [|x lv IH]; intro H; simpl; auto. simpl in H. inversion H as [|? ? Hnin Hnd]; subst.
  destruct (g x); simpl; auto. constructor; auto. intro X. apply Hnin.
  apply in_map_iff in X. destruct X as [y [E Hy]]. apply filter_In in Hy. destruct Hy as [Hy _].
  apply in_map_iff. exists y. auto.
Qed.

Lemma lvl_ok_open lv c level pl pp i :
  lvl_ok lv c -> parent_level lv level None = Some (pl, pp) ->
  is_prefix pp c /\ lvl_ok (filter (fun x => fst x <=? level) (lvl_set level (pp ++ [i]) lv)) (pp ++ [i]).
Proof.
  intros [K P Ch] Hp.
  destruct (parent_level_max lv level None (pl, pp) Hp ltac:(discriminate)) as [R1 [R2 [R3 _]]].
  destruct R2 as [R2|R2]; [|discriminate]. simpl in R1.
  split; [eapply P; eauto|].
  assert (Hold : forall l q, In (l, q) lv -> l <= level -> l <> level -> is_prefix q pp).
  { intros l q Hin Hle Hne. apply (Ch l q pl pp Hin R2). apply (R3 l q Hin). lia. }
  constructor.
  - apply nodup_filter_fst. apply lvl_set_nodup. exact K.
  - intros l q Hin. apply filter_In in Hin. destruct Hin as [Hin Hle]. simpl in Hle. apply N.leb_le in Hle.
    apply lvl_set_in in Hin; auto. destruct Hin as [Hin|[Hin Hne]].
    + inversion Hin; subst. apply is_prefix_refl.
    + apply is_prefix_app. eapply Hold; eauto.
  - intros l1 q1 l2 q2 H1 H2 Hle.
    apply filter_In in H1. destruct H1 as [H1 Hl1]. simpl in Hl1. apply N.leb_le in Hl1.
    apply filter_In in H2. destruct H2 as [H2 Hl2]. simpl in Hl2. apply N.leb_le in Hl2.
    apply lvl_set_in in H1; auto. apply lvl_set_in in H2; auto.
    destruct H1 as [H1|[H1 N1]]; destruct H2 as [H2|[H2 N2]].
    + inversion H1; inversion H2; subst. apply is_prefix_refl.
    + inversion H1; subst. exfalso. lia.
    + inversion H2; subst. apply is_prefix_app. eapply Hold; eauto.
    + eapply Ch; eauto.
Qed.

(* ---- nodes without sections / transitions are harmless wherever they are put ---- *)
Lemma no_section_place n : forall pt, has_tag n_section n = false -> sec_place pt n = true /\ sec_title n = true.
Proof.
  induction n as [o s|o tg a cs IH] using node_ind'; intros pt H; cbn [has_tag sec_place sec_title] in *; auto.
  apply orb_false_iff in H. destruct H as [Ht Hc]. rewrite Ht. cbn [andb].
  assert (G : forallb (sec_place tg) cs = true /\ forallb sec_title cs = true).
  { clear Ht. induction IH as [|c cs Hc' _ IHc]; cbn [forallb existsb] in *; auto.
    apply orb_false_iff in Hc. destruct Hc as [H1 H2]. destruct (Hc' tg H1) as [A1 A2].
    destruct (IHc H2) as [B1 B2]. rewrite A1, A2, B1, B2. auto. }
  destruct G as [G1 G2]. rewrite G1, G2. auto.
Qed.

Lemma no_sections_place ns pt : existsb (has_tag n_section) ns = false ->
  forallb (sec_place pt) ns = true /\ forallb sec_title ns = true.
Proof.
  induction ns as [|n ns IH]; cbn [existsb forallb]; auto. intro H. apply orb_false_iff in H. destruct H as [H1 H2].
  destruct (no_section_place n pt H1) as [A1 A2]. destruct (IH H2) as [B1 B2]. rewrite A1, A2, B1, B2. auto.
Qed.

Lemma no_transition_ok n : forall pt, has_tag n_transition n = false -> transitions_ok pt n = true.
Proof.
  induction n as [o s|o tg a cs IH] using node_ind'; intros pt H; cbn [has_tag transitions_ok] in *; auto.
  apply orb_false_iff in H. destruct H as [Ht Hc]. rewrite Ht. cbn [andb].
  clear Ht. induction IH as [|c cs Hc' _ IHc]; cbn [forallb existsb] in *; auto.
  apply orb_false_iff in Hc. destruct Hc as [H1 H2]. rewrite (Hc' tg H1), (IHc H2). reflexivity.
Qed.

Lemma no_transitions_ok ns pt : existsb (has_tag n_transition) ns = false -> forallb (transitions_ok pt) ns = true.
Proof.
  induction ns as [|n ns IH]; cbn [existsb forallb]; auto. intro H. apply orb_false_iff in H. destruct H as [H1 H2].
  rewrite (no_transition_ok n pt H1), (IH H2). reflexivity.
Qed.

Lemma nonempty_app_at p : forall t ns, nonempty_path p t -> nonempty_path p (app_at p ns t).
Proof.
  induction p as [|i p IH]; intros [o s|o tg a cs] ns H; simpl in H; try contradiction; simpl.
  - destruct H as [H _]. split; auto. intros X Y. apply app_eq_nil in Y. destruct Y as [Y _]. exact (H X Y).
  - destruct H as [Hn H]. destruct (nth_error cs i) as [c|] eqn:E; [|contradiction]. split.
    + intros X Y. apply Hn; auto. destruct cs; auto. destruct i; discriminate.
    + rewrite nth_error_upd_nth_same, E. simpl. apply IH. exact H.
Qed.

(* appending at a prefix q of p: the part of p up to q is untouched, nodes on it only gain children *)
Lemma nonempty_app_at_prefix q : forall t ns, nonempty_path q t -> nonempty_path q (app_at q ns t).
Proof. apply nonempty_app_at. Qed.

Lemma nonempty_prefix p q : forall t, nonempty_path (p ++ q) t -> nonempty_path p t.
Proof.
  induction p as [|i p IH]; intros [o s|o tg a cs] H; simpl in H.
  - destruct q; simpl in H; contradiction.
  - destruct q; simpl in H; destruct H as [H _]; simpl; auto.
  - contradiction.
  - destruct H as [Hn H]. simpl. split; auto. destruct (nth_error cs i); [apply IH; exact H|contradiction].
Qed.

(* the path into a non-empty section appended at q *)
Lemma nonempty_new_section q : forall t o a c cs,
  rightmost q t -> nonempty_path q t ->
  nonempty_path (q ++ [nchildren q t]) (app_at q [Elem o n_section a (c :: cs)] t).
Proof.
  induction q as [|i q IH]; intros [o' s|o' tg a' cs'] o a c cs Hr H; simpl in Hr, H; try contradiction.
  - destruct H as [H _]. unfold nchildren. simpl. split.
    + intros X Y. apply app_eq_nil in Y. destruct Y as [_ Y]. discriminate.
    + rewrite nth_error_app2 by lia. rewrite Nat.sub_diag. simpl. split; auto. intros _. discriminate.
  - destruct Hr as [_ [front [c0 [-> [-> Hr]]]]]. destruct H as [Hn H].
    rewrite nth_error_app2 in H by lia. rewrite Nat.sub_diag in H. simpl in H.
    assert (E : nchildren (length front :: q) (Elem o' tg a' (front ++ [c0])) = nchildren q c0).
    { unfold nchildren. simpl. rewrite nth_error_app2 by lia. rewrite Nat.sub_diag. reflexivity. }
    rewrite E. simpl. rewrite upd_nth_last. split.
    + intros X Y. apply app_eq_nil in Y. destruct Y as [_ Y]. discriminate.
    + rewrite nth_error_app2 by lia. rewrite Nat.sub_diag. simpl. apply IH; auto.
Qed.

Section Top.
  Variable D : str -> str.
  Variable B : backend.
  Variable C : cfg.
  Variable OR : oracles.

  Notation bld := (build B C OR).
  Notation sktok := (skel_tok D B C OR).
  Notation static_tok := (Skel.static_tok B C OR).

  (* a thematic break at the top level is fine; elsewhere the token must be free of them *)
  Definition hr_top (t : tok) : bool :=
    match kind_of (ty t) with KHr => true | _ => hr_free t end.

  (* at the top level only headings open sections (no transparent wrapper around a heading) *)
  Definition top_static (t : tok) : bool :=
    match kind_of (ty t) with KHeading => true | _ => negb (opens_section t) end.

  Record tinv (done : list tok) (s : istate) : Prop := mkTinv {
    ti_right : rightmost (cur s) (tree s);
    ti_nonempty : nonempty_path (cur s) (tree s);
    ti_lvl : lvl_ok (lvl s) (cur s);
    ti_oids : seg 0 (nxt (fs s)) (oids (tree s));
    ti_place : sec_place [] (tree s) = true;
    ti_title : sec_title (tree s) = true;
    ti_rows : forallb tshape done = true -> rows_ok (tree s) = true;
    ti_tr : forallb hr_top done = true -> transitions_ok [] (tree s) = true;
    ti_skel : Hyps D OR -> has_dropped (tree s) = false -> skel_node D (tree s) = flat_map sktok done
  }.

  Lemma tok_post t : static_tok t = true -> forall ctag f ns f',
    run_f (rt_run (bld t)) ctag f = Some (Good (ns, f')) -> post D B C OR t f ns f'.
  Proof. apply (all_sub_here _ _ (build_post D B C OR t)). Qed.

  (* appending nodes with the post-condition at the current node *)
  Lemma tinv_append done s t ns f' :
    tinv done s -> nodes_ok (tshape t) (hr_free t) (fs s) ns f' -> skel_ok D OR (sktok t) ns ->
    (hr_top t = true -> forallb (transitions_ok (tag_at (cur s) (tree s))) ns = true) ->
    tinv (done ++ [t]) (mkI (app_at (cur s) ns (tree s)) (cur s) (lvl s) f').
  Proof.
    intros [I1 I2 I3 I4 I5 I6 I7 I8 I9] [N1 N2 N3 N4] Hsk Htr. constructor; cbn [tree cur lvl fs].
    - apply rightmost_app_at. exact I1.
    - apply nonempty_app_at. exact I2.
    - exact I3.
    - rewrite oids_app_at by exact I1. eapply seg_app; eauto.
    - rewrite sec_place_app_at by exact I1. rewrite I5. destruct (no_sections_place ns (tag_at (cur s) (tree s)) N2) as [A _].
      rewrite A. reflexivity.
    - rewrite sec_title_app_at by assumption. rewrite I6. destruct (no_sections_place ns [] N2) as [_ A].
      rewrite A. reflexivity.
    - intro H. rewrite forallb_app in H. apply andb_true_iff in H. destruct H as [H1 H2].
      cbn [forallb] in H2. rewrite andb_true_r in H2. rewrite rows_app_at by exact I1. rewrite (I7 H1), (N3 H2). reflexivity.
    - intro H. rewrite forallb_app in H. apply andb_true_iff in H. destruct H as [H1 H2].
      cbn [forallb] in H2. rewrite andb_true_r in H2. rewrite transitions_app_at by exact I1.
      rewrite (I8 H1), (Htr H2). reflexivity.
    - intros Hy H. rewrite (dropped_app_at) in H by exact I1. apply orb_false_iff in H. destruct H as [H1 H2].
      rewrite skel_app_at by exact I1. rewrite flat_map_app. cbn [flat_map]. rewrite app_nil_r.
      rewrite (I9 Hy H1), (Hsk Hy H2). reflexivity.
  Qed.

  Lemma st_valid_of done s : tinv done s -> st_valid s.
  Proof. intros [I1 _ _ _ _ _ _ _ _]. apply rightmost_valid. exact I1. Qed.

  Lemma st_sec_of done s : tinv done s -> is_section_tag (st_tag s) = true.
  Proof. intros [I1 _ _ _ _ _ _ _ _]. apply rightmost_tag. exact I1. Qed.

  (* a token that cannot open a section *)
  Lemma tinv_step_frame done s t s' :
    tinv done s -> static_tok t = true -> opens_section t = false ->
    run_i (rt_run (bld t)) s = Good s' -> tinv (done ++ [t]) s'.
  Proof.
    intros Hinv Hst Hop H.
    pose proof (st_valid_of _ _ Hinv) as Hv.
    assert (Hf : frameable (rt_run (bld t)) (st_tag s))
      by (apply (all_sub_here _ _ (build_frameable B C OR t)); right; exact Hop).
    destruct (refine_frameable _ s Hv Hf) as [r [Hr Hi]]. rewrite Hi in H.
    destruct r as [[ns f']|e]; cbn [embed] in H; [|discriminate]. inversion H; subst s'. clear H Hi.
    destruct (tok_post t Hst _ _ _ _ Hr) as [Hno Hsk].
    apply tinv_append; auto.
    intro Ht. unfold hr_top in Ht. destruct (kind_of (ty t)) eqn:K;
      try (apply no_transitions_ok; apply (no_tr _ _ _ _ _ Hno); exact Ht).
    (* a thematic break at section level *)
    rewrite rt_run_build in Hr. unfold dispatch in Hr. destruct (has_rule B (ty t)); cbn [negb] in Hr.
    - rewrite K in Hr. unfold render_hr in Hr.
      apply run_f_FOp_inv in Hr. destruct Hr as [o [f1 [Ea Hr]]].
      apply run_f_Append_inv in Hr. destruct Hr as [ns' [-> Hr]].
      apply run_f_Done_inv in Hr. destruct Hr as [-> ->].
      cbn [forallb transitions_ok]. replace (str_eqb n_transition n_transition) with true by reflexivity.
      fold (st_tag s). rewrite (st_sec_of _ _ Hinv). reflexivity.
    - apply run_f_FOp_inv in Hr. destruct Hr as [w [f1 [Ew Hr]]].
      apply run_f_Append_inv in Hr. destruct Hr as [ns' [-> Hr]].
      apply run_f_Done_inv in Hr. destruct Hr as [-> ->].
      apply no_transitions_ok. destruct (warning_node_facts _ _ _ _ Ew) as [_ [_ [Wt _]]].
      cbn [existsb]. rewrite Wt by reflexivity. reflexivity.
  Qed.

  (* oids of nodes allocated in consecutive ranges, placed in any order *)
  Lemma seg_perm lo hi l l' : seg lo hi l -> Permutation l l' -> seg lo hi l'.
  Proof.
    intros [H1 [H2 H3]] P. split; auto. split.
    - eapply Permutation_NoDup; eauto.
    - intros x Hx. apply H3. eapply Permutation_in; [apply Permutation_sym; exact P | exact Hx].
  Qed.

  Lemma tinv_step_heading done s t s' :
    tinv done s -> static_tok t = true -> kind_of (ty t) = KHeading ->
    run_i (rt_run (bld t)) s = Good s' -> tinv (done ++ [t]) s'.
  Proof.
    intros Hinv Hst K H.
    pose proof (st_valid_of _ _ Hinv) as Hv. pose proof (st_sec_of _ _ Hinv) as Hsec.
    rewrite rt_run_build in H. unfold dispatch in H.
    destruct (has_rule B (ty t)) eqn:Hrule; cbn [negb] in H.
    2:{ (* no render method: only the warning *)
      set (p := FOp (create_warning w_render) (fun w => Append w Done)) in *.
      assert (Hf : frameable p (st_tag s)) by (unfold p; cbn [frameable]; auto).
      destruct (refine_frameable _ s Hv Hf) as [r [Hr Hi]]. rewrite Hi in H.
      destruct r as [[ns f']|e]; cbn [embed] in H; [|discriminate]. inversion H; subst s'. clear H Hi.
      destruct (post_no_rule D B C OR t _ _ _ _ Hr) as [Hno Hsk].
      apply tinv_append; auto. intros _.
      unfold p in Hr. apply run_f_FOp_inv in Hr. destruct Hr as [w [f1 [Ew Hr]]].
      apply run_f_Append_inv in Hr. destruct Hr as [ns' [-> Hr]].
      apply run_f_Done_inv in Hr. destruct Hr as [-> ->].
      apply no_transitions_ok. destruct (warning_node_facts _ _ _ _ Ew) as [_ [_ [Wt _]]].
      cbn [existsb]. rewrite Wt by reflexivity. reflexivity. }
    rewrite K in H. unfold render_heading in H.
    destruct (heading_level (tag t)) as [level|]; [|discriminate H].
    cbn [run_i] in H. fold (st_tag s) in H. rewrite Hsec in H. cbn [negb] in H.
    (* the section branch *)
    cbn [run_i] in H.
    destruct (alloc (fs s)) as [[o f1]|e] eqn:Ea; [|discriminate H]. cbn [run_i tree cur lvl fs] in H.
    destruct (alloc f1) as [[ot f2]|e] eqn:Eb; [|discriminate H]. cbn [run_i tree cur lvl fs] in H.
    destruct (copy_attributes C OR t o n_section keys_ci [] [] f2) as [[[a msgs] f3]|e] eqn:Ec; [|discriminate H].
    cbn [run_i tree cur lvl fs] in H.
    destruct (parent_level (lvl s) level None) as [[pl pp]|] eqn:Ep; [|discriminate H].
    apply copy_attributes_post in Ec. destruct Ec as [Hm _].
    apply alloc_post in Ea. destruct Ea as [Eo En1]. apply alloc_post in Eb. destruct Eb as [Eot En2].
    set (a' := if (level =? 1) && c_mathjax_block C then add_classes a [v_tex2jax_ignore; v_mathjax_ignore] else a) in *.
    set (rest := Ctx ot n_title [] [] (render_children (map bld (children t)))
                     (fun title : node => ms <- heading_target C OR o n_section title ; append_all (msgs ++ ms) Done)) in *.
    destruct Hinv as [I1 I2 I3 I4 I5 I6 I7 I8 I9].
    destruct (lvl_ok_open _ _ level pl pp (nchildren pp (tree s)) I3 Ep) as [Hpp _].
    (* what follows works for the tree with or without the heading-level warning appended at the current node *)
    assert (Core : forall wns f4,
               nodes_ok true true f3 wns f4 -> existsb has_dropped wns = false -> skel_nodes D wns = [] ->
               run_i (OpenSection level (Elem o n_section a' []) rest)
                     (mkI (app_at (cur s) wns (tree s)) (cur s) (lvl s) f4) = Good s' ->
               tinv (done ++ [t]) s').
    { intros wns f4 [W1 W2 W3 W4] Wd Wsk Hrun. clear H.
      set (tree1 := app_at (cur s) wns (tree s)) in *.
      assert (R1 : rightmost (cur s) tree1) by (apply rightmost_app_at; exact I1).
      assert (N1 : nonempty_path (cur s) tree1) by (apply nonempty_app_at; exact I2).
      destruct Hpp as [rr Hcur].
      assert (Rpp : rightmost pp tree1) by (apply (rightmost_prefix pp rr); rewrite <- Hcur; exact R1).
      assert (Npp : nonempty_path pp tree1) by (apply (nonempty_prefix pp rr); rewrite <- Hcur; exact N1).
      assert (Vpp : valid pp tree1 = true) by (apply rightmost_valid; exact Rpp).
      cbn [run_i lvl tree cur fs] in Hrun. rewrite Ep in Hrun.
      set (i := nchildren pp tree1) in *. set (newp := pp ++ [i]) in *.
      set (lvl' := filter (fun x : N * path => fst x <=? level) (lvl_set level newp (lvl s))) in *.
      set (s2 := mkI (app_at pp [Elem o n_section a' []] tree1) newp lvl' f4) in *.
      assert (Hg : get_at (pp ++ [nchildren pp tree1]) (app_at pp [Elem o n_section a' []] tree1)
                   = Some (Elem o n_section a' [])) by (apply get_at_new_child; exact Vpp).
      assert (Hv2 : st_valid s2) by (unfold st_valid, valid, s2, newp, i; cbn [tree cur]; rewrite Hg; reflexivity).
      assert (Ht2 : st_tag s2 = n_section) by (unfold st_tag, tag_at, s2, newp, i; cbn [tree cur]; rewrite Hg; reflexivity).
      assert (Hfr : frameable rest (st_tag s2)).
      { rewrite Ht2. unfold rest. cbn [frameable]. split.
        - apply kids_frameable; [|reflexivity].
          eapply Forall_impl; [|apply (all_sub_kids _ _ (build_frameable B C OR t))]. apply all_sub_here.
        - intros d ms. apply frameable_append_all. exact I. }
      change (run_i rest s2 = Good s') in Hrun.
      destruct (refine_frameable _ s2 Hv2 Hfr) as [r [Hr Hi]]. rewrite Hi in Hrun.
      destruct r as [[nsk f']|e]; cbn [embed] in Hrun; [|discriminate]. inversion Hrun; subst s'. clear Hrun Hi.
      rewrite Ht2 in Hr. unfold rest, s2 in Hr. cbn [fs] in Hr.
      apply run_f_Ctx_inv in Hr. destruct Hr as [tcs [f5 [nsr [Hkids [Hr ->]]]]].
      apply run_f_FOp_inv in Hr. destruct Hr as [ms [f6 [Eh Hr]]]. apply heading_target_post in Eh.
      apply run_append_all in Hr. destruct Hr as [nsd [-> Hr]].
      apply run_f_Done_inv in Hr. destruct Hr as [-> ->]. rewrite app_nil_r. cbn [app].
      assert (Hstk : forallb static_tok (children t) = true) by (apply static_kids; auto; rewrite K; exact I).
      assert (Hallk : Forall (tok_ok D B C OR) (children t)).
      { eapply Forall_impl; [|apply (all_sub_kids _ _ (build_post D B C OR t))].
        apply all_sub_here. }
      destruct (kids_post D B C OR (children t) Hallk Hstk _ _ _ _ Hkids) as [[T1 T2 T3 T4] Tsk].
      destruct Hm as [Hm1 Hm2]. destruct Eh as [Eh1 Eh2].
      unfold s2. cbn [tree cur lvl]. unfold newp, i. rewrite app_at_under_new by exact Vpp. cbn [app].
      set (SEC := Elem o n_section a' (Elem ot n_title [] tcs :: msgs ++ ms)).
      assert (Hsect : is_section_tag (tag_at pp tree1) = true) by (apply rightmost_tag; exact Rpp).
      assert (Hshr : hr_free t = forallb hr_free (children t)) by (apply hr_free_kids; rewrite K; exact I).
      assert (Hssh : tshape t = forallb tshape (children t)) by (apply tshape_kids; rewrite K; exact I).
      constructor; cbn [tree cur lvl fs].
      - apply rightmost_new_section. exact Rpp.
      - apply nonempty_new_section; auto.
      - destruct (lvl_ok_open _ _ level pl pp (nchildren pp tree1) I3 Ep) as [_ L]. exact L.
      - (* allocation numbers *)
        rewrite oids_app_at by exact Rpp. unfold tree1. rewrite oids_app_at by exact I1.
        unfold SEC, oids_l. cbn [flat_map oids]. fold (oids_l tcs). rewrite app_nil_r.
        change (flat_map oids (msgs ++ ms)) with (oids_l (msgs ++ ms)). rewrite oids_l_app.
        change (flat_map oids wns) with (oids_l wns).
        eapply (seg_perm 0 (nxt f6) (oids (tree s) ++ [o] ++ [ot] ++ oids_l msgs ++ oids_l wns ++ oids_l tcs ++ oids_l ms)).
        + eapply seg_app; [exact I4|]. subst o ot.
          eapply seg_app; [apply seg_one|]. rewrite <- En1.
          eapply seg_app; [apply seg_one|]. rewrite <- En2.
          eapply seg_app; [exact Hm2|]. eapply seg_app; [exact W1|]. eapply seg_app; [exact T1|exact Eh2].
        + rewrite <- !app_assoc. apply Permutation_app_head.
          etransitivity; [apply (Permutation_app_swap_app ([o] ++ [ot] ++ oids_l msgs) (oids_l wns))|].
          rewrite <- !app_assoc. apply Permutation_app_head. cbn [app]. apply perm_skip. apply perm_skip.
          apply Permutation_app_swap_app.
      - rewrite sec_place_app_at by exact Rpp. unfold tree1. rewrite sec_place_app_at by exact I1. rewrite I5.
        destruct (no_sections_place wns (tag_at (cur s) (tree s)) W2) as [A _]. rewrite A. cbn [andb forallb].
        unfold SEC. cbn [sec_place forallb]. replace (str_eqb n_section n_section) with true by reflexivity.
        fold tree1. rewrite Hsect. cbn [andb]. replace (str_eqb n_title n_section) with false by reflexivity.
        destruct (no_sections_place tcs n_title T2) as [B1 _]. rewrite B1. cbn [andb].
        rewrite forallb_app.
        destruct (no_sections_place msgs n_section (regmsgs_has_tag n_section msgs Hm1 eq_refl)) as [B2 _].
        destruct (no_sections_place ms n_section (regmsgs_has_tag n_section ms Eh1 eq_refl)) as [B3 _].
        rewrite B2, B3. reflexivity.
      - rewrite sec_title_app_at by assumption. unfold tree1. rewrite sec_title_app_at by assumption. rewrite I6.
        destruct (no_sections_place wns [] W2) as [_ A]. rewrite A. cbn [andb forallb].
        unfold SEC. cbn [sec_title forallb tag_of]. replace (str_eqb n_section n_section) with true by reflexivity.
        replace (str_eqb n_title n_title) with true by reflexivity. cbn [andb].
        replace (str_eqb n_title n_section) with false by reflexivity.
        destruct (no_sections_place tcs n_title T2) as [_ B1]. rewrite B1. cbn [andb]. rewrite forallb_app.
        destruct (no_sections_place msgs n_section (regmsgs_has_tag n_section msgs Hm1 eq_refl)) as [_ B2].
        destruct (no_sections_place ms n_section (regmsgs_has_tag n_section ms Eh1 eq_refl)) as [_ B3].
        rewrite B2, B3. reflexivity.
      - intro Hsh. rewrite forallb_app in Hsh. apply andb_true_iff in Hsh. destruct Hsh as [Hs1 Hs2].
        cbn [forallb] in Hs2. rewrite andb_true_r, Hssh in Hs2.
        rewrite rows_app_at by exact Rpp. unfold tree1. rewrite rows_app_at by exact I1.
        rewrite (I7 Hs1), (W3 eq_refl). cbn [andb forallb]. unfold SEC. cbn [rows_ok forallb].
        replace (str_eqb n_section n_tgroup) with false by reflexivity.
        replace (str_eqb n_title n_tgroup) with false by reflexivity. cbn [andb].
        rewrite (T3 Hs2). cbn [andb]. rewrite forallb_app, (regmsgs_rows_ok msgs Hm1), (regmsgs_rows_ok ms Eh1). reflexivity.
      - intro Hh. rewrite forallb_app in Hh. apply andb_true_iff in Hh. destruct Hh as [Hh1 Hh2].
        cbn [forallb] in Hh2. rewrite andb_true_r in Hh2. unfold hr_top in Hh2. rewrite K, Hshr in Hh2.
        rewrite transitions_app_at by exact Rpp. unfold tree1. rewrite transitions_app_at by exact I1.
        rewrite (I8 Hh1), (no_transitions_ok wns _ (W4 eq_refl)). cbn [andb forallb]. unfold SEC.
        cbn [transitions_ok forallb]. replace (str_eqb n_section n_transition) with false by reflexivity.
        replace (str_eqb n_title n_transition) with false by reflexivity. cbn [andb].
        rewrite (no_transitions_ok tcs _ (T4 Hh2)). cbn [andb]. rewrite forallb_app.
        rewrite (no_transitions_ok msgs _ (regmsgs_has_tag n_transition msgs Hm1 eq_refl)).
        rewrite (no_transitions_ok ms _ (regmsgs_has_tag n_transition ms Eh1 eq_refl)). reflexivity.
      - intros Hy Hd. rewrite dropped_app_at in Hd by exact Rpp. apply orb_false_iff in Hd. destruct Hd as [Hd1 Hd2].
        unfold tree1 in Hd1. rewrite dropped_app_at in Hd1 by exact I1. apply orb_false_iff in Hd1. destruct Hd1 as [Hd0 _].
        rewrite skel_app_at by exact Rpp. unfold tree1. rewrite skel_app_at by exact I1.
        rewrite (I9 Hy Hd0), Wsk, app_nil_r, flat_map_app. cbn [flat_map]. rewrite app_nil_r. f_equal.
        unfold SEC in *. cbn [existsb has_dropped] in Hd2.
        replace (str_eqb n_section k_system_message) with false in Hd2 by reflexivity.
        replace (str_eqb n_title k_system_message) with false in Hd2 by reflexivity. cbn [andb orb] in Hd2.
        rewrite orb_false_r in Hd2. apply orb_false_iff in Hd2. destruct Hd2 as [Hdt _].
        unfold skel_nodes. cbn [flat_map skel_node].
        replace (nkind_of n_section) with NTransparent by reflexivity.
        replace (nkind_of n_title) with NHeading by reflexivity. rewrite app_nil_r.
        change (flat_map (skel_node D) tcs) with (skel_nodes D tcs).
        change (flat_map (skel_node D) (msgs ++ ms)) with (skel_nodes D (msgs ++ ms)).
        rewrite skel_nodes_app, (regmsgs_skel D msgs Hm1), (regmsgs_skel D ms Eh1), (Tsk Hy Hdt).
        assert (Hsk : sktok t = [SBox CHeading (flat_map sktok (children t))]).
        { destruct t as [ty0 tg0 at0 co0 mk0 in0 me0 mp0 cs0]. cbn [skel_tok ty children] in *. rewrite K. reflexivity. }
        rewrite Hsk. reflexivity. }
    destruct ((pl <? level) && negb (pl + 1 =? level)).
    - cbn [run_i tree cur lvl fs] in H.
      destruct (create_warning w_header f3) as [[w f4]|e] eqn:Ew; [|discriminate H].
      cbn [run_i tree cur lvl fs] in H.
      destruct (warning_node_facts _ _ _ _ Ew) as [Wo [Wn [Wt [Wr [Ws Wd]]]]].
      apply (Core [w] f4); auto.
      + eapply warning_nodes_ok; exact Ew.
      + cbn [existsb]. rewrite Wd. reflexivity.
      + unfold skel_nodes. cbn [flat_map]. rewrite Ws. reflexivity.
    - apply (Core [] f3); auto.
      + apply nodes_ok_nil. lia.
      + rewrite app_at_nil. exact H.
  Qed.

  Lemma tinv_step done s t s' :
    tinv done s -> static_tok t = true -> top_static t = true ->
    run_i (rt_run (bld t)) s = Good s' -> tinv (done ++ [t]) s'.
  Proof.
    intros Hinv Hst Htop H. unfold top_static in Htop.
    destruct (kind_of (ty t)) eqn:K;
      try (apply (tinv_step_frame done s t s' Hinv Hst); [apply negb_true_iff in Htop; exact Htop | exact H]).
    apply (tinv_step_heading done s t s' Hinv Hst K H).
  Qed.

  Lemma tinv_tokens ts : forall done s s',
    tinv done s -> forallb static_tok ts = true -> forallb top_static ts = true ->
    run_i (render_children (map bld ts)) s = Good s' -> tinv (done ++ ts) s'.
  Proof.
    induction ts as [|t ts IH]; intros done s s' Hinv Hst Htop H.
    - cbn in H. inversion H; subst. rewrite app_nil_r. exact Hinv.
    - cbn [forallb] in Hst, Htop. apply andb_true_iff in Hst. apply andb_true_iff in Htop.
      destruct Hst as [Hs1 Hs2]. destruct Htop as [Ht1 Ht2].
      unfold render_children in H. cbn [map seq_all] in H. rewrite run_i_seq in H.
      destruct (run_i (rt_run (bld t)) s) as [s1|e] eqn:E; [|discriminate].
      pose proof (tinv_step done s t s1 Hinv Hs1 Ht1 E) as Hinv1.
      replace (done ++ t :: ts) with ((done ++ [t]) ++ ts) by (rewrite <- app_assoc; reflexivity).
      apply (IH (done ++ [t]) s1 s' Hinv1 Hs2 Ht2 H).
  Qed.

  Lemma tinv_init : tinv [] s_init.
  Proof.
    unfold s_init. constructor; cbn [tree cur lvl fs f_init nxt].
    - simpl. auto.
    - simpl. split; auto. intro X. discriminate X.
    - constructor.
      + simpl. constructor; [intros []|constructor].
      + intros l q [H|[]]. inversion H; subst. apply is_prefix_refl.
      + intros l1 q1 l2 q2 [H1|[]] [H2|[]] _. inversion H1; inversion H2; subst. apply is_prefix_refl.
    - simpl. apply seg_cons. apply seg_nil. lia.
    - reflexivity.
    - reflexivity.
    - intros _. reflexivity.
    - intros _. reflexivity.
    - intros _ _. reflexivity.
  Qed.

  (* the observations of the finished tree *)
  Record tobs (done : list tok) (doc : node) : Prop := mkTobs {
    to_oids : NoDup (oids doc);
    to_sections : sections_ok [] doc = true;
    to_rows : forallb tshape done = true -> rows_ok doc = true;
    to_tr : forallb hr_top done = true -> transitions_ok [] doc = true;
    to_skel : Hyps D OR -> has_dropped doc = false -> skel_node D doc = flat_map sktok done
  }.

  Lemma dup_ref_warnings_post n : forall acc f ws f',
    dup_ref_warnings n acc f = Good (ws, f') ->
    exists new, ws = acc ++ new /\ nodes_ok true true f new f' /\ skel_nodes D new = [] /\ existsb has_dropped new = false.
  Proof.
    induction n as [|n IH]; intros acc f ws f' H; cbn [dup_ref_warnings] in H.
    - inversion H; subst. exists []. rewrite app_nil_r. split; auto. split; [apply nodes_ok_nil; lia|]. auto.
    - apply fbind_inv' in H. destruct H as [w [f1 [Ew H]]]. apply IH in H.
      destruct H as [new [-> [Hno [Hsk Hd]]]]. exists (w :: new). rewrite <- app_assoc. split; auto.
      destruct (warning_node_facts _ _ _ _ Ew) as [Wo [Wn [Wt [Wr [Ws Wd]]]]].
      split; [|split].
      + eapply nodes_ok_single_app; [eapply warning_nodes_ok; exact Ew | exact Hno].
      + rewrite skel_nodes_cons, Ws, Hsk. reflexivity.
      + cbn [existsb]. rewrite Wd, Hd. reflexivity.
  Qed.

  Theorem render_state_obs ts s :
    forallb static_tok ts = true -> forallb top_static ts = true ->
    render_state B C OR ts = Good s -> tobs ts (tree s).
  Proof.
    intros Hst Htop H. unfold render_state in H.
    destruct (run_i (render_tokens B C OR ts) s_init) as [s1|e] eqn:E; [|discriminate].
    destruct (dup_ref_warnings _ [] (fs s1)) as [[ws f']|e] eqn:Ew; [|discriminate].
    inversion H; subst s. clear H.
    pose proof (tinv_tokens ts [] s_init s1 tinv_init Hst Htop E) as [I1 I2 I3 I4 I5 I6 I7 I8 I9].
    apply dup_ref_warnings_post in Ew. destruct Ew as [new [-> [[W1 W2 W3 W4] [Wsk Wd]]]].
    change (tobs ts (app_at [] new (tree s1))). cbn [app] in *.
    assert (R0 : rightmost [] (tree s1)) by (apply (rightmost_prefix [] (cur s1)); exact I1).
    assert (N0 : nonempty_path [] (tree s1)) by (apply (nonempty_prefix [] (cur s1)); exact I2).
    constructor.
    - rewrite oids_app_at by exact R0. destruct I4 as [_ [A1 A2]]. destruct W1 as [_ [B1 B2]].
      apply NoDup_app_intro; auto. intros x Hx Hy. specialize (A2 x Hx). specialize (B2 x Hy). lia.
    - rewrite sections_ok_split. rewrite sec_place_app_at by exact R0. rewrite sec_title_app_at by assumption.
      rewrite I5, I6. destruct (no_sections_place new (tag_at [] (tree s1)) W2) as [A1 _].
      destruct (no_sections_place new [] W2) as [_ A2]. rewrite A1, A2. reflexivity.
    - intro Hs. rewrite rows_app_at by exact R0. rewrite (I7 Hs), (W3 eq_refl). reflexivity.
    - intro Hh. rewrite transitions_app_at by exact R0. rewrite (I8 Hh), (no_transitions_ok new _ (W4 eq_refl)). reflexivity.
    - intros Hy Hd. rewrite dropped_app_at in Hd by exact R0. apply orb_false_iff in Hd. destruct Hd as [Hd _].
      rewrite skel_app_at by exact R0. rewrite (I9 Hy Hd), Wsk, app_nil_r. reflexivity.
  Qed.

  (* ... and its allocation numbers lie below the counter (what the transforms start from) *)
  Theorem render_state_seg ts s :
    forallb static_tok ts = true -> forallb top_static ts = true ->
    render_state B C OR ts = Good s -> seg 0 (nxt (fs s)) (oids (tree s)).
  Proof.
    intros Hst Htop H. unfold render_state in H.
    destruct (run_i (render_tokens B C OR ts) s_init) as [s1|e] eqn:E; [|discriminate].
    destruct (dup_ref_warnings _ [] (fs s1)) as [[ws f']|e] eqn:Ew; [|discriminate].
    inversion H; subst s. clear H.
    pose proof (tinv_tokens ts [] s_init s1 tinv_init Hst Htop E) as [I1 I2 I3 I4 I5 I6 I7 I8 I9].
    apply dup_ref_warnings_post in Ew. destruct Ew as [new [-> [[W1 W2 W3 W4] [Wsk Wd]]]].
    change (seg 0 (nxt f') (oids (app_at [] new (tree s1)))). cbn [app] in *.
    assert (R0 : rightmost [] (tree s1)) by (apply (rightmost_prefix [] (cur s1)); exact I1).
    rewrite oids_app_at by exact R0. eapply seg_app; eauto.
  Qed.
End Top.
