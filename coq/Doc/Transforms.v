(* Model of the transforms that run after rendering and that create, move or re-link nodes:
   myst_parser/mdit_to_docutils/transforms.py (SortFootnotes, UnreferencedFootnotesDetector,
   CollectFootnotes, ResolveAnchorIds) and docutils.transforms.references.Footnotes (written
   from the docutils source; a modelled external).  Nodes are addressed by object identity
   (allocation number), as the Python code addresses them by reference. *)
From Coq Require Import List NArith Bool.
From MV Require Import Base.PyStr.
From MV Require Import Base.Res.
From MV Require Import Doc.Str.
From MV Require Import Doc.Tok.
From MV Require Import Doc.Node.
From MV Require Import Doc.Registry.
From MV Require Import Doc.Prog.
From MV Require Import Doc.Render.
Import ListNotations.
Open Scope N_scope.

(* ---- tree operations by object identity ---- *)
Fixpoint find_oid (o : N) (n : node) {struct n} : option node :=
  if oid_of n =? o then Some n
  else match n with
       | Text _ _ => None
       | Elem _ _ _ cs =>
           (fix go (l : list node) : option node :=
              match l with
              | [] => None
              | c :: r => match find_oid o c with Some x => Some x | None => go r end
              end) cs
       end.

(* apply f to the node whose identity is o *)
Fixpoint map_oid (o : N) (f : node -> node) (n : node) {struct n} : node :=
  if oid_of n =? o then f n
  else match n with
       | Text _ _ => n
       | Elem o' tg a cs => Elem o' tg a (map (map_oid o f) cs)
       end.

(* node.parent.remove(node) *)
Fixpoint remove_oid (o : N) (n : node) {struct n} : node :=
  match n with
  | Text _ _ => n
  | Elem o' tg a cs =>
      Elem o' tg a ((fix go (l : list node) : list node :=
                       match l with
                       | [] => []
                       | c :: r => if oid_of c =? o then go r else remove_oid o c :: go r
                       end) cs)
  end.

Definition set_attr (k : str) (v : list str) (n : node) : node :=
  match n with Text _ _ => n | Elem o tg a cs => Elem o tg (aset k v a) cs end.
Definition del_attr (k : str) (n : node) : node :=
  match n with Text _ _ => n | Elem o tg a cs => Elem o tg (adel k a) cs end.
Definition push_attr (k : str) (v : str) (n : node) : node :=
  match n with
  | Text _ _ => n
  | Elem o tg a cs => Elem o tg (aset k ((match assoc k a with Some l => l | None => [] end) ++ [v]) a) cs
  end.
Definition insert_first (c : node) (n : node) : node :=
  match n with Text _ _ => n | Elem o tg a cs => Elem o tg a (c :: cs) end.
Definition has_attr (k : str) (n : node) : bool := has_key k (attrs_of n).

Definition a_refid := Eval vm_compute in lit "refid".
Definition a_backrefs := Eval vm_compute in lit "backrefs".
Definition n_problematic := Eval vm_compute in lit "problematic".
Definition v_footnotes := Eval vm_compute in lit "footnotes".
Definition v_std := Eval vm_compute in lit "std".
Definition v_std_ref := Eval vm_compute in lit "std-ref".
Definition n_caption := Eval vm_compute in lit "caption".
Definition w_too_many := Eval vm_compute in lit "docutils.too-many-autofootnote-refs".
Definition v_desc_ := Eval vm_compute in lit "desc_".

Record tstate := mkT { ttree : node; tfs : fstate; tresolved : list N }.

Definition top (A : Type) := tstate -> outcome (A * tstate).
Definition tret {A} (a : A) : top A := fun s => Good (a, s).
Definition tbind {A B} (m : top A) (k : A -> top B) : top B :=
  fun s => match m s with Good (a, s') => k a s' | Bad e => Bad e end.
Definition tfail {A} (e : err) : top A := fun _ => Bad e.
Notation "x <~ m ;; k" := (tbind m (fun x => k)) (at level 61, m at next level, right associativity).
Notation "' p <~ m ;; k" := (tbind m (fun p => k)) (at level 61, p pattern, m at next level, right associativity).

Definition lift_f {A} (op : fop A) : top A := fun s =>
  match op (tfs s) with
  | Good (a, f') => Good (a, mkT (ttree s) f' (tresolved s))
  | Bad e => Bad e
  end.
Definition upd_tree (f : node -> node) : top unit := fun s => Good (tt, mkT (f (ttree s)) (tfs s) (tresolved s)).
Definition get_tree : top node := fun s => Good (ttree s, s).
Definition get_fs : top fstate := fun s => Good (tfs s, s).
Definition mark_resolved (o : N) : top unit := fun s => Good (tt, mkT (ttree s) (tfs s) (o :: tresolved s)).
Definition is_resolved (o : N) : top bool := fun s => Good (existsb (N.eqb o) (tresolved s), s).

Fixpoint tfor {A} (l : list A) (body : A -> top unit) : top unit :=
  match l with
  | [] => tret tt
  | x :: r => _ <~ body x ;; tfor r body
  end.

Definition node_of (o : N) : top node := fun s =>
  match find_oid o (ttree s) with Some n => Good (n, s) | None => Bad EModel end.

Definition ids_of_obj (o : N) : top (list str) := fun s =>
  Good (match nassoc o (objs (tfs s)) with Some r => nr_ids r | None => [] end, s).
Definition names_of_obj (o : N) : top (list str) := fun s =>
  Good (match nassoc o (objs (tfs s)) with Some r => nr_names r | None => [] end, s).
Definition dupnames_of_obj (o : N) : top (list str) := fun s =>
  Good (match nassoc o (objs (tfs s)) with Some r => nr_dupnames r | None => [] end, s).

Definition the_one (l : list str) : top str :=
  match l with [x] => tret x | _ => tfail (EPy AssertionError) end.

Section Transforms.
  Variable B : backend.
  Variable C : cfg.
  Variable OR : oracles.

  (* ---------------- SortFootnotes ---------------- *)
  Fixpoint index_of (x : str) (l : list str) (i : N) : option N :=
    match l with
    | [] => None
    | y :: r => if str_eqb x y then Some i else index_of x r (i + 1)
    end.

  (* stable insertion sort on N keys = list.sort(key=...) *)
  Fixpoint insert_by {A} (k : N) (x : A) (l : list (N * A)) : list (N * A) :=
    match l with
    | [] => [(k, x)]
    | (k', y) :: r => if k <? k' then (k, x) :: l else (k', y) :: insert_by k x r
    end.
  Definition sort_by {A} (l : list (N * A)) : list (N * A) :=
    fold_left (fun acc kx => insert_by (fst kx) (snd kx) acc) l [].

  Definition sort_footnotes : top unit :=
    if negb (c_footnote_sort C) then tret tt else
    f <~ get_fs ;;
    t <~ get_tree ;;
    let ref_order :=
        flat_map (fun o => match find_oid o t with
                           | Some n => match assoc a_refname (attrs_of n) with Some [r] => [r] | _ => [] end
                           | None => []
                           end) (autofootnote_refs f) in
    (* unreferenced footnotes come after all referenced ones: len(ref_order) *)
    let last_key : N := N.of_nat (length ref_order) in
    let key (o : N) : N :=
        match nassoc o (objs f) with
        | Some r => match nr_names r with
                    | nm :: _ => match index_of nm ref_order 0 with Some i => i | None => last_key end
                    | [] => last_key
                    end
        | None => last_key
        end in
    lift_f (fun f => Good (tt, set_autofootnotes f
                                 (map snd (sort_by (map (fun o => (key o, o)) (autofootnotes f)))))).

  (* ---------------- docutils Footnotes ---------------- *)
  (* while True: label = str(startnum); startnum += 1; if label not in nameids: break *)
  Fixpoint label_loop (fuel : nat) (startnum : N) (f : fstate) : outcome (str * N) :=
    match fuel with
    | O => Bad (EPy OutOfFuel)
    | S fuel' => let label := show startnum in
                 if has_key label (nameids f) then label_loop fuel' (startnum + 1) f
                 else Good (label, startnum + 1)
    end.

  Definition link_ref (ref fn : N) (label : option str) : top unit :=
    _ <~ (match label with
          | Some l => ot <~ lift_f alloc ;; upd_tree (map_oid ref (fun n => add_children n [Text ot l]))
          | None => tret tt
          end) ;;
    _ <~ upd_tree (map_oid ref (del_attr a_refname)) ;;
    fids <~ ids_of_obj fn ;;
    rids <~ ids_of_obj ref ;;
    fid <~ the_one fids ;;
    rid <~ the_one rids ;;
    _ <~ upd_tree (map_oid ref (set_attr a_refid [fid])) ;;
    _ <~ upd_tree (map_oid fn (push_attr a_backrefs rid)) ;;
    mark_resolved ref.

  Definition number_footnotes (startnum : N) : top (N * list str) :=
    f0 <~ get_fs ;;
    (fix go (l : list N) (startnum : N) (labels : list str) : top (N * list str) :=
       match l with
       | [] => tret (startnum, labels)
       | fn :: r =>
           f <~ get_fs ;;
           match label_loop (S (length (nameids f))) startnum f with
           | Bad e => tfail e
           | Good (label, startnum') =>
               ol <~ lift_f alloc ;;
               ot <~ lift_f alloc ;;
               _ <~ upd_tree (map_oid fn (insert_first (Elem ol n_label [] [Text ot label]))) ;;
               names <~ names_of_obj fn ;;
               _ <~ tfor names (fun name =>
                      f <~ get_fs ;;
                      tfor (match assoc name (footnote_refs f) with Some l => l | None => [] end)
                           (fun ref => link_ref ref fn (Some label))) ;;
               names <~ names_of_obj fn ;;
               dups <~ dupnames_of_obj fn ;;
               match names, dups with
               | [], [] =>
                   _ <~ lift_f (add_name fn n_footnote label) ;;
                   ms <~ lift_f (note_target (o_make_id OR) (c_auto_id_prefix C) fn n_footnote true) ;;
                   _ <~ upd_tree (map_oid fn (fun n => add_children n ms)) ;;
                   go r startnum' (labels ++ [label])
               | _, _ => go r startnum' labels
               end
           end
       end) (autofootnotes f0) startnum [].

  Definition number_footnote_references (labels : list str) : top unit :=
    f0 <~ get_fs ;;
    (fix go (l : list N) (labels : list str) : top unit :=
       match l with
       | [] => tret tt
       | ref :: r =>
           res <~ is_resolved ref ;;
           n <~ node_of ref ;;
           if (res : bool) || has_attr a_refid n then go r labels
           else
             match labels with
             | [] =>
                 (* IndexError: error message with an id; refs that still carry a refname are skipped *)
                 _ <~ lift_f (log_warning w_too_many) ;;
                 om <~ lift_f alloc ;;
                 _ <~ lift_f (set_id_nomsg (o_make_id OR) (c_auto_id_prefix C) om k_system_message) ;;
                 tfor l (fun ref' =>
                   res' <~ is_resolved ref' ;;
                   n' <~ node_of ref' ;;
                   if (res' : bool) || has_attr a_refname n' then tret tt else tfail ENotModelled)
             | label :: labels' =>
                 ot <~ lift_f alloc ;;
                 _ <~ upd_tree (map_oid ref (fun n => add_children n [Text ot label])) ;;
                 f <~ get_fs ;;
                 match assoc label (nameids f) with
                 | Some (Some i) =>
                     match assoc i (ids f) with
                     | Some fn =>
                         _ <~ upd_tree (map_oid ref (set_attr a_refid [i])) ;;
                         rids <~ ids_of_obj ref ;;
                         rid <~ the_one rids ;;
                         _ <~ upd_tree (map_oid fn (push_attr a_backrefs rid)) ;;
                         _ <~ mark_resolved ref ;;
                         go r labels'
                     | None => tfail (EPy KeyError)
                     end
                 | _ => tfail (EPy KeyError)
                 end
             end
       end) (autofootnote_refs f0) labels.

  Definition resolve_manual_footnotes : top unit :=
    f0 <~ get_fs ;;
    tfor (footnotes f0) (fun fn =>
      names <~ names_of_obj fn ;;
      tfor names (fun label =>
        f <~ get_fs ;;
        match assoc label (footnote_refs f) with
        | None => tret tt
        | Some reflist =>
            fids <~ ids_of_obj fn ;;
            _ <~ the_one fids ;;
            tfor reflist (fun ref =>
              res <~ is_resolved ref ;;
              if (res : bool) then tret tt else link_ref ref fn None)
        end)).

  Definition footnotes_transform : top unit :=
    '(_, labels) <~ number_footnotes 1 ;;
    _ <~ number_footnote_references labels ;;
    resolve_manual_footnotes.

  (* ---------------- UnreferencedFootnotesDetector (docutils parser only) ---------------- *)
  Definition unreferenced_detector : top unit :=
    if is_sphinx B then tret tt else
    f0 <~ get_fs ;;
    tfor (footnotes f0 ++ autofootnotes f0) (fun fn =>
      n <~ node_of fn ;;
      names <~ names_of_obj fn ;;
      match assoc a_backrefs (attrs_of n), names with
      | Some (_ :: _), _ => tret tt
      | _, [] => tret tt
      | _, _ :: _ => lift_f (log_warning w_ref_footnote)
      end).

  (* ---------------- CollectFootnotes ---------------- *)
  Fixpoint dec_of (s : str) (acc : N) : option N :=
    match s with
    | [] => Some acc
    | c :: r => if (48 <=? c) && (c <=? 57) then dec_of r (acc * 10 + (c - 48)) else None
    end.
  Definition int_of_label (s : str) : option N := match s with [] => None | _ => dec_of s 0 end.

  Fixpoint str_ltb (a b : str) : bool :=
    match a, b with
    | _, [] => false
    | [], _ :: _ => true
    | x :: a', y :: b' => if x <? y then true else if y <? x then false else str_ltb a' b'
    end.
  Fixpoint insert_str {A} (k : str) (x : A) (l : list (str * A)) : list (str * A) :=
    match l with
    | [] => [(k, x)]
    | (k', y) :: r => if str_ltb k k' then (k, x) :: l else (k', y) :: insert_str k x r
    end.

  Definition collect_footnotes : top unit :=
    if negb (c_footnote_sort C) then tret tt else
    f0 <~ get_fs ;;
    t0 <~ get_tree ;;
    let fns := footnotes f0 ++ autofootnotes f0 in
    labelled <~
      (fix go (l : list N) : top (list (str * N)) :=
         match l with
         | [] => tret []
         | fn :: r =>
             n <~ node_of fn ;;
             match kids_of n with
             | [] => tfail (EPy IndexError)
             | c :: _ => rest <~ go r ;; tret ((astext c, fn) :: rest)
             end
         end) fns ;;
    _ <~ (match labelled with
          | [] => tret tt
          | _ :: _ =>
              if c_footnote_transition C
                 && negb (forallb (fun c => str_eqb (tag_of c) n_footnote) (kids_of t0))
              then o <~ lift_f alloc ;;
                   upd_tree (fun t => add_children t [Elem o n_transition [(a_classes, [v_footnotes])] []])
              else tret tt
          end) ;;
    (* sorted(key = (0, int(label)) or (1, label)): integer labels first by value, then the others by text *)
    let ints := flat_map (fun lf => match int_of_label (fst lf) with Some k => [(k, snd lf)] | None => [] end) labelled in
    let strs := flat_map (fun lf => match int_of_label (fst lf) with Some _ => [] | None => [lf] end) labelled in
    let sorted := map snd (sort_by ints)
                  ++ map snd (fold_left (fun acc lf => insert_str (fst lf) (snd lf) acc) strs []) in
    tfor sorted (fun fn =>
      t <~ get_tree ;;
      if oid_of t =? fn then tfail (EPy AttributeError)        (* footnote.parent is None *)
      else
        n <~ node_of fn ;;
        _ <~ upd_tree (remove_oid fn) ;;
        upd_tree (fun t => add_children t [n])).

  (* ---------------- ResolveAnchorIds ---------------- *)
  Definition title_of_children (cs : list node) : option (option str) :=
    (fix go (l : list node) : option (option str) :=
       match l with
       | [] => None
       | c :: r => if str_eqb (tag_of c) n_caption || str_eqb (tag_of c) n_title
                   then Some (astext_clean c) else go r
       end) cs.

  (* (ref_id, implicit_title) of an explicit name; None = skipped; Bad = outside the model *)
  Definition explicit_entry (t : node) (f : fstate) (name : str) : outcome (option (str * option str)) :=
    match assoc name (nameids f) with
    | Some (Some labelid) =>
        match assoc labelid (ids f) with
        | None => Bad (EPy KeyError)
        | Some o =>
            match find_oid o t with
            | None => Bad ENotModelled       (* the registered object is not in the tree (e.g. a message) *)
            | Some n =>
                let tg := tag_of n in
                if str_eqb tg n_target && has_attr a_refid n then Bad ENotModelled
                else if str_eqb tg n_footnote || (str_eqb tg n_target && has_attr a_refuri n) || startswith tg v_desc_ then Good None
                else
                  let unwrap (x : option str) : outcome (option str) :=
                      match x with Some s => Good (Some s) | None => Bad ENotModelled end in
                  let title : outcome (option str) :=
                      if str_eqb tg n_rubric then unwrap (astext_clean n)
                      else match title_of_children (kids_of n) with
                           | Some x => unwrap x
                           | None =>
                               let n1 := if (str_eqb tg n_definition_list || str_eqb tg k_field_list)
                                         then match kids_of n with c :: _ => c | [] => n end else n in
                               let n2 := if (str_eqb (tag_of n1) n_field || str_eqb (tag_of n1) n_definition_list_item)
                                         then match kids_of n1 with c :: _ => c | [] => n1 end else n1 in
                               if str_eqb (tag_of n2) n_term || str_eqb (tag_of n2) n_field_name
                               then unwrap (astext_clean n2) else Good None
                           end in
                  match title with
                  | Bad e => Bad e
                  | Good ti => Good (Some (labelid, ti))
                  end
            end
        end
    | _ => Good None
    end.

  Fixpoint explicit_table (t : node) (f : fstate) (l : list (str * bool)) : outcome (list (str * (str * option str))) :=
    match l with
    | [] => Good []
    | (name, is_explicit) :: r =>
        match explicit_table t f r with
        | Bad e => Bad e
        | Good rest =>
            if negb is_explicit then Good rest
            else match explicit_entry t f name with
                 | Bad e => Bad e
                 | Good None => Good rest
                 | Good (Some v) => Good ((name, v) :: rest)
                 end
        end
    end.

  Definition std_inline (text : str) : fop node :=
    o <-- alloc ;;
    if is_empty text then fret (Elem o k_inline [(a_classes, [v_std; v_std_ref])] [])
    else ot <-- alloc ;; fret (Elem o k_inline [(a_classes, [v_std; v_std_ref])] [Text ot text]).

  (* one reference node with id_link: returns the replacement for the node's own attributes/children *)
  Definition resolve_ref (explicit : list (str * (str * option str))) (o : N) (a : nattrs) (cs : list node)
    : fop (node * bool) :=   (* bool: children of the result have been moved under an inner node (sphinx) *)
    match assoc a_refuri a with
    | Some [uri] =>
        let target := drop 1 uri in
        let a := adel a_refuri a in
        match assoc target explicit with
        | Some (ref_id, title) =>
            let a := aset a_refid [ref_id] a in
            match cs with
            | [] =>
                let txt := match title with
                           | Some ti => if is_empty ti then [35] ++ target else ti
                           | None => [35] ++ target
                           end in
                i <-- std_inline txt ;; fret (Elem o n_reference a [i], false)
            | _ => fret (Elem o n_reference a cs, false)
            end
        | None =>
            if is_sphinx B then
              op <-- alloc ;;
              oi <-- alloc ;;
              let inner := Elem oi k_inline [(a_classes, [v_xref; v_myst] ++ classes_of a)] cs in
              fret (Elem op n_pending_xref
                         [(a_refdoc, [v_index]); (a_refdomain, [v_none]); (a_reftype, [v_myst]);
                          (a_reftarget, [target]);
                          (a_refexplicit, [bool_str (match cs with [] => false | _ => true end)])]
                         [inner], true)
            else
              w <-- create_warning w_xref_missing ;;
              fret (Elem o n_reference (aset a_refid [o_nl OR target] a) (cs ++ [w]), false)
        end
    | _ => ffail (EPy KeyError)
    end.

  (* the ids / names / dupnames of a replaced reference move to the inner node (same list objects) *)
  Definition move_rec (from to : N) : fop unit := fun f =>
    match nassoc from (objs f) with
    | None => Good (tt, f)
    | Some r => Good (tt, set_objs f (nset to r (objs f)))
    end.

  Fixpoint resolve_tree (explicit : list (str * (str * option str))) (n : node) {struct n} : fop node :=
    match n with
    | Text _ _ => fret n
    | Elem o tg a cs =>
        let go_children :=
            (fix go (l : list node) : fop (list node) :=
               match l with
               | [] => fret []
               | c :: r => c' <-- resolve_tree explicit c ;; r' <-- go r ;; fret (c' :: r')
               end) in
        if str_eqb tg n_reference && has_key a_id_link a then
          '(n', moved) <-- resolve_ref explicit o a cs ;;
          (* the children present before the visit are traversed afterwards (findall is pre-order);
             what the visit appended is not a reference *)
          old <-- go_children cs ;;
          match n' with
          | Elem o' tg' a' cs' =>
              if (moved : bool) then
                match cs' with
                | [Elem oi ti ai _] =>
                    _ <-- move_rec o oi ;;
                    fret (Elem o' tg' a' [Elem oi ti ai old])
                | _ => ffail EModel
                end
              else fret (Elem o' tg' a' (old ++ skipn (length cs) cs'))
          | Text _ _ => ffail EModel
          end
        else
          cs' <-- go_children cs ;; fret (Elem o tg a cs')
    end.

  Definition resolve_anchor_ids : top unit :=
    t <~ get_tree ;;
    f <~ get_fs ;;
    match explicit_table t f (nametypes f) with
    | Bad e => tfail e
    | Good explicit =>
        t' <~ lift_f (resolve_tree explicit t) ;;
        upd_tree (fun _ => t')
    end.

  Definition apply_transforms (s : istate) : outcome (node * fstate) :=
    match (_ <~ sort_footnotes ;;
           _ <~ footnotes_transform ;;
           _ <~ unreferenced_detector ;;
           _ <~ collect_footnotes ;;
           resolve_anchor_ids) (mkT (tree s) (fs s) []) with
    | Bad e => Bad e
    | Good (_, s') => Good (ttree s', tfs s')
    end.
End Transforms.

Definition render_xform (B : backend) (C : cfg) (OR : oracles) (ts : list tok) : outcome (node * list str) :=
  match render_state B C OR ts with
  | Bad e => Bad e
  | Good s =>
      match apply_transforms B C OR s with
      | Bad e => Bad e
      | Good (t, f) => Good (decorate (objs f) t, warns f)
      end
  end.
