(* Properties of the render programs of Render.v (functional semantics), by induction on tokens. *)
From Coq Require Import List NArith Bool Lia Arith Wf_nat.
From MV Require Import Base.PyStr.
From MV Require Import Base.Res.
From MV Require Import Doc.Str.
From MV Require Import Doc.Tok.
From MV Require Import Doc.Node.
From MV Require Import Doc.Registry.
From MV Require Import Doc.Prog.
From MV Require Import Doc.Refine.
From MV Require Import Gen.Render.
From MV Require Import Doc.Render.
Import ListNotations.

(* build unfolds to dispatch over the built children *)
Lemma build_eq B C OR t :
  build B C OR t = RT t (dispatch B C OR t (map (build B C OR) (children t))) (map (build B C OR) (children t)).
Proof.
  destruct t as [a b c d e f g h cs]. simpl.
  assert (E : (fix go (l : list tok) : list rt :=
                 match l with [] => [] | x :: r => build B C OR x :: go r end) cs = map (build B C OR) cs).
  { induction cs as [|x cs IH]; simpl; [reflexivity | rewrite IH; reflexivity]. }
  rewrite E. reflexivity.
Qed.

Lemma rt_run_build B C OR t :
  rt_run (build B C OR t) = dispatch B C OR t (map (build B C OR) (children t)).
Proof. rewrite build_eq. reflexivity. Qed.

Lemma rt_kids_build B C OR t : rt_kids (build B C OR t) = map (build B C OR) (children t).
Proof. rewrite build_eq. reflexivity. Qed.

Lemma rt_tok_build B C OR t : rt_tok (build B C OR t) = t.
Proof. rewrite build_eq. reflexivity. Qed.

(* a token whose rendering may reach render_heading with the current node unchanged:
   a heading, or a transparent token (inline, s) containing one *)
Fixpoint opens_section (t : tok) : bool :=
  match t with
  | Tok ty _ _ _ _ _ _ _ cs =>
      match kind_of ty with
      | KHeading => true
      | KInline | KS => (fix go (l : list tok) : bool :=
                           match l with [] => false | c :: r => opens_section c || go r end) cs
      | _ => false
      end
  end.

Lemma opens_section_eq t :
  opens_section t = match kind_of (ty t) with
                    | KHeading => true
                    | KInline | KS => existsb opens_section (children t)
                    | _ => false
                    end.
Proof.
  destruct t as [a b c d e f g h cs]. simpl.
  assert (E : (fix go (l : list tok) : bool :=
                 match l with [] => false | c :: r => opens_section c || go r end) cs = existsb opens_section cs).
  { induction cs as [|x cs IH]; simpl; [reflexivity | rewrite IH; reflexivity]. }
  rewrite E. reflexivity.
Qed.

Section Frameable.
  Variable B : backend.
  Variable C : cfg.
  Variable OR : oracles.

  Definition fr_ok (t : tok) : Prop :=
    forall ctag, is_section_tag ctag = false \/ opens_section t = false ->
                 frameable (rt_run (build B C OR t)) ctag.

  Lemma frameable_append_all ns k ctag : frameable k ctag -> frameable (append_all ns k) ctag.
  Proof. induction ns; simpl; auto. Qed.

  Lemma frameable_new_text_elem tg a txt k ctag :
    (forall n, frameable (k n) ctag) -> frameable (new_text_elem tg a txt k) ctag.
  Proof. intros H. unfold new_text_elem. simpl. intro o. destruct (is_empty txt); simpl; auto. Qed.

  Lemma frameable_append_raws l k ctag : frameable k ctag -> frameable (append_raws l k) ctag.
  Proof.
    revert k; induction l as [|[fmt txt] l IH]; intros k H; cbn [append_raws]; auto.
    apply frameable_new_text_elem. intro n. cbn [frameable]. apply IH. exact H.
  Qed.

  Lemma frameable_lex_nodes l : forall acc k ctag,
    (forall cs, frameable (k cs) ctag) -> frameable (lex_nodes l acc k) ctag.
  Proof.
    induction l as [|[cls v] l IH]; intros acc k ctag H; cbn [lex_nodes]; auto.
    destruct cls.
    - cbn [frameable]. intro o. apply IH. exact H.
    - apply frameable_new_text_elem. intro n. apply IH. exact H.
  Qed.

  Lemma frameable_chcb text lexer k ctag :
    (forall n, frameable (k n) ctag) -> frameable (create_highlighted_code_block B C OR text lexer k) ctag.
  Proof.
    intro H. unfold create_highlighted_code_block.
    destruct (is_sphinx B).
    - apply frameable_new_text_elem. exact H.
    - cbn [frameable]. intro o. destruct (c_highlight C).
      + destruct (o_lex OR _ _); cbn [frameable]; [|intros _]; apply frameable_lex_nodes; intro cs; apply H.
      + apply frameable_lex_nodes; intro cs; apply H.
  Qed.

  Lemma frameable_colspecs n w k ctag : frameable k ctag -> frameable (colspecs n w k) ctag.
  Proof. induction n; simpl; auto. Qed.

  (* children rendered under a node that is not a section *)
  Lemma kids_frameable cs ctag :
    Forall fr_ok cs -> is_section_tag ctag = false ->
    frameable (render_children (map (build B C OR) cs)) ctag.
  Proof.
    intros H Hc. unfold render_children. apply frameable_seq_all.
    rewrite map_map. apply Forall_map. eapply Forall_impl; [|exact H].
    intros t Ht. apply Ht. left. exact Hc.
  Qed.

  (* children rendered in place (inline, s) *)
  Lemma kids_frameable_transparent cs ctag :
    Forall fr_ok cs -> is_section_tag ctag = false \/ existsb opens_section cs = false ->
    frameable (render_children (map (build B C OR) cs)) ctag.
  Proof.
    intros H Hc. unfold render_children. apply frameable_seq_all.
    rewrite map_map. apply Forall_map. rewrite Forall_forall in *. intros t Hin. apply H; auto.
    destruct Hc as [Hc|Hc]; [left; exact Hc|right].
    destruct (opens_section t) eqn:E; auto.
    assert (existsb opens_section cs = true) by (apply existsb_exists; exists t; auto). congruence.
  Qed.

  Lemma frameable_dyn_splice key ctag : frameable (dyn_splice B OR key) ctag.
  Proof.
    unfold dyn_splice. destruct (o_dyn OR _) as [[ns ws]|]; [|exact I].
    destruct (forallb dyn_node_ok ns); [|exact I].
    cbn [frameable]. intros _ ns'. apply frameable_append_all. exact I.
  Qed.

  Inductive all_sub (P : tok -> Prop) : tok -> Prop :=
  | AllSub : forall t, P t -> Forall (all_sub P) (children t) -> all_sub P t.

  Lemma all_sub_here P t : all_sub P t -> P t.
  Proof. intros [t' H _]. exact H. Qed.
  Lemma all_sub_kids P t : all_sub P t -> Forall (all_sub P) (children t).
  Proof. intros [t' _ H]. exact H. Qed.
  Lemma all_sub_kids_here P t : all_sub P t -> Forall P (children t).
  Proof. intro H. eapply Forall_impl; [|apply all_sub_kids; exact H]. apply all_sub_here. Qed.

  Ltac fr_step :=
    match goal with
    | |- forall _, _ => intro
    | |- _ /\ _ => split
    | |- True => exact I
    | |- frameable Done _ => exact I
    | |- frameable (Fail _) _ => exact I
    | |- frameable (FOp _ _) _ => cbn [frameable]
    | |- frameable (Append _ _) _ => cbn [frameable]
    | |- frameable (CurTag _) _ => cbn [frameable]
    | |- frameable (Ctx _ _ _ _ _ _) _ => cbn [frameable]
    | |- frameable (Detached _ _ _ _ _ _) _ => cbn [frameable]
    | |- frameable (new_text_elem _ _ _ _) _ => apply frameable_new_text_elem
    | |- frameable (append_raws _ _) _ => apply frameable_append_raws
    | |- frameable (append_all _ _) _ => apply frameable_append_all
    | |- frameable (dyn_splice _ _ _) _ => apply frameable_dyn_splice
    | |- frameable (append_text _ _) _ => unfold append_text
    | |- frameable (create_highlighted_code_block _ _ _ _ _ _) _ => apply frameable_chcb
    | |- frameable (colspecs _ _ _) _ => apply frameable_colspecs
    | |- frameable (seq _ _) _ => apply frameable_seq
    | |- frameable (render_children (map (build _ _ _) _)) _ => apply kids_frameable; [assumption | reflexivity]
    | |- frameable (if ?x then _ else _) _ => destruct x
    | |- frameable (match ?x with _ => _ end) _ => destruct x
    end.

  Lemma frameable_container t cs tg a0 keys ctag :
    Forall fr_ok cs -> is_section_tag tg = false ->
    frameable (container C OR t (map (build B C OR) cs) tg a0 keys) ctag.
  Proof.
    intros H Ht. unfold container. cbn [frameable]. intros o [a msgs]. cbn [frameable]. split; [|intro; exact I].
    apply kids_frameable; assumption.
  Qed.

  Lemma frameable_link_url t cs ctag :
    Forall fr_ok cs -> frameable (render_link_url C OR t (map (build B C OR) cs)) ctag.
  Proof. intro H. unfold render_link_url. repeat fr_step. Qed.

  Lemma frameable_link_anchor t cs tgt ctag :
    Forall fr_ok cs -> frameable (render_link_anchor C OR t (map (build B C OR) cs) tgt) ctag.
  Proof. intro H. unfold render_link_anchor. repeat fr_step. Qed.

  Lemma frameable_wrap t cs o tg a0 cls pd ctag :
    Forall fr_ok cs -> frameable (process_wrap_node C OR t (map (build B C OR) cs) o tg a0 cls pd) ctag.
  Proof. intro H. unfold process_wrap_node. repeat fr_step. Qed.

  Lemma frameable_link_unknown t cs ctag :
    Forall fr_ok cs -> frameable (render_link_unknown B C OR t (map (build B C OR) cs)) ctag.
  Proof.
    intro H. unfold render_link_unknown. destruct (is_sphinx B).
    - destruct (split_hash _ _) as [pd pid]. cbn [frameable]. intro o.
      destruct (o_path2doc OR pd) as [[d|]|]; try (apply frameable_wrap; assumption).
      destruct (match pid with Some _ => o_docjoin OR pd | None => None end); apply frameable_wrap; assumption.
    - repeat fr_step.
  Qed.

  Lemma frameable_link_path t cs ctag :
    Forall fr_ok cs -> frameable (render_link_path B C OR t (map (build B C OR) cs)) ctag.
  Proof.
    intro H. unfold render_link_path. destruct (is_sphinx B).
    - destruct (negb _ && negb _).
      + cbn [frameable]. intro w. apply frameable_link_url; assumption.
      + cbn [frameable]. intro o. apply frameable_wrap; assumption.
    - cbn [frameable]. intro w. apply frameable_link_url; assumption.
  Qed.

  Lemma frameable_link_project t cs ctag :
    Forall fr_ok cs -> frameable (render_link_project B C OR t (map (build B C OR) cs)) ctag.
  Proof.
    intro H. unfold render_link_project.
    destruct (startswith _ [35%N]); [apply frameable_link_anchor; assumption|].
    destruct (is_sphinx B).
    - destruct (split_hash _ _) as [pd pid].
      destruct (o_p2d_raw OR pd) as [d|]; cbn [frameable]; intro x;
        try (apply frameable_wrap; assumption); apply frameable_link_url; assumption.
    - cbn [frameable]. intro w. apply frameable_link_url; assumption.
  Qed.

  Lemma frameable_link t cs ctag :
    Forall fr_ok cs -> frameable (render_link B C OR t (map (build B C OR) cs)) ctag.
  Proof.
    intro H. unfold render_link. generalize link_dispatch. intro l.
    induction l as [|lt l IH]; cbn [link_dispatch_loop].
    - apply frameable_link_unknown; assumption.
    - destruct (link_test_apply B C OR lt t _) as [p|] eqn:E; [|exact IH].
      unfold link_test_apply in E.
      destruct lt;
        repeat match type of E with
               | (if ?x then _ else _) = _ => destruct x
               | match ?x with _ => _ end = _ => destruct x
               end; inversion E; subst;
        first [ apply frameable_link_url; assumption | apply frameable_link_anchor; assumption
              | apply frameable_link_path; assumption | apply frameable_link_project; assumption | exact I ].
  Qed.

  Lemma frameable_table_cell c ctag :
    all_sub fr_ok c -> frameable (render_table_cell (build B C OR c)) ctag.
  Proof.
    intro H. unfold render_table_cell. rewrite rt_kids_build, rt_tok_build.
    pose proof (all_sub_kids_here _ _ H) as Hk. repeat fr_step.
  Qed.

  Lemma frameable_table_row r ctag :
    all_sub fr_ok r -> frameable (render_table_row (build B C OR r)) ctag.
  Proof.
    intro H. unfold render_table_row. rewrite rt_kids_build. cbn [frameable]. intro o.
    split; [|intro; exact I]. apply frameable_seq_all. rewrite map_map. apply Forall_map.
    eapply Forall_impl; [|apply all_sub_kids; exact H]. intros c Hc. apply frameable_table_cell. exact Hc.
  Qed.

  Lemma frameable_table t cs ctag :
    Forall (all_sub fr_ok) cs -> frameable (render_table C OR t (map (build B C OR) cs)) ctag.
  Proof.
    intro H. unfold render_table.
    destruct cs as [|header rest]; cbn [map]; [exact I|].
    inversion H as [|? ? Hh Hr]; subst.
    rewrite rt_kids_build.
    destruct (children header) as [|hrow hrest] eqn:Eh; cbn [map]; [exact I|].
    pose proof (all_sub_kids _ _ Hh) as Hhk. rewrite Eh in Hhk. inversion Hhk as [|? ? Hrow _]; subst.
    rewrite rt_kids_build.
    destruct (children hrow) as [|c1 crest] eqn:Ec; cbn [map]; [exact I|].
    cbn [frameable]. intros o [a msgs]. split; [|intro; exact I].
    intro og. split; [|intro; exact I].
    apply frameable_colspecs. cbn [frameable]. intro oh. split.
    - apply frameable_table_row. exact Hrow.
    - intro d. destruct rest as [|body rest']; cbn [map]; [exact I|].
      inversion Hr as [|? ? Hb _]; subst.
      cbn [frameable]. intro ob. split; [|intro; exact I].
      rewrite rt_kids_build. apply frameable_seq_all. rewrite map_map. apply Forall_map.
      eapply Forall_impl; [|apply all_sub_kids; exact Hb]. intros r Hr'. apply frameable_table_row. exact Hr'.
  Qed.

  Lemma frameable_dd d ctag : all_sub fr_ok d -> frameable (render_dd (build B C OR d)) ctag.
  Proof.
    intro H. unfold render_dd. rewrite rt_kids_build. pose proof (all_sub_kids_here _ _ H) as Hk.
    repeat fr_step.
  Qed.

  Lemma dl_group_all (P : tok -> Prop) cs lead groups :
    Forall P cs -> dl_group (map (build B C OR) cs) = Good (lead, groups) ->
    (forall r, In r lead -> exists d, r = build B C OR d /\ P d) /\
    (forall g, In g groups -> (exists d, fst g = build B C OR d /\ P d) /\
                              forall r, In r (snd g) -> exists d, r = build B C OR d /\ P d).
  Proof.
    revert lead groups. induction cs as [|c cs IH]; intros lead groups Hall E; cbn [map dl_group] in E.
    - inversion E; subst. split; intros ? [].
    - inversion Hall as [|? ? Hc Hcs]; subst.
      destruct (dl_group (map (build B C OR) cs)) as [[lead' groups']|e] eqn:Er; [|discriminate].
      destruct (IH lead' groups' Hcs eq_refl) as [IHl IHg].
      rewrite rt_tok_build in E.
      destruct (kind_of (ty c)); try discriminate; inversion E; subst.
      + (* dt *) split; [intros ? []|]. intros g [Hg|Hg].
        * subst g. cbn [fst snd]. split; [exists c; auto|]. exact IHl.
        * apply IHg. exact Hg.
      + (* dd *) split; [|exact IHg]. intros r [Hr|Hr]; [subst r; exists c; auto | apply IHl; exact Hr].
  Qed.

  Lemma frameable_dl_item g ctag :
    (exists d, fst g = build B C OR d /\ all_sub fr_ok d) ->
    (forall r, In r (snd g) -> exists d, r = build B C OR d /\ all_sub fr_ok d) ->
    frameable (render_dl_item g) ctag.
  Proof.
    intros [d [Ed Hd]] Hs. unfold render_dl_item. rewrite Ed, rt_kids_build.
    pose proof (all_sub_kids_here _ _ Hd) as Hk.
    cbn [frameable]. intros oi ot. cbn [frameable]. split; [|intro; exact I]. split.
    - apply kids_frameable; [assumption|reflexivity].
    - intro term. cbn [frameable]. apply frameable_seq_all. apply Forall_map. apply Forall_forall.
      intros r Hr. destruct (Hs r Hr) as [d' [Er Hd']]. subst r. apply frameable_dd. exact Hd'.
  Qed.

  Lemma frameable_field n b ctag :
    all_sub fr_ok n -> match b with Some b' => all_sub fr_ok b' | None => True end ->
    frameable (render_field (build B C OR n) (option_map (build B C OR) b)) ctag.
  Proof.
    intros Hn Hb. unfold render_field. rewrite rt_kids_build.
    pose proof (all_sub_kids_here _ _ Hn) as Hk.
    cbn [frameable]. intros of on. cbn [frameable]. split; [|intro; exact I]. split.
    - apply kids_frameable; [assumption|reflexivity].
    - intros d ob. cbn [frameable]. split; [|intro; exact I].
      destruct b as [b'|]; cbn [option_map]; [|exact I].
      rewrite rt_kids_build. apply kids_frameable; [apply all_sub_kids_here; exact Hb | reflexivity].
  Qed.

  Lemma frameable_field_loop cs ctag :
    Forall (all_sub fr_ok) cs -> frameable (field_loop (map (build B C OR) cs)) ctag.
  Proof.
    (* strong induction on the length: the loop consumes one or two tokens *)
    remember (length cs) as n eqn:En. revert cs En.
    induction n as [n IH] using lt_wf_ind. intros cs En H.
    destruct cs as [|c1 cs]; cbn [map field_loop]; [exact I|].
    inversion H as [|? ? H1 Hr]; subst.
    rewrite rt_tok_build. destruct (kind_of (ty c1)); try exact I.
    destruct cs as [|c2 cs]; cbn [map].
    - apply (frameable_field c1 None); auto.
    - inversion Hr as [|? ? H2 Hr2]; subst. rewrite rt_tok_build.
      assert (IHr : frameable (field_loop (map (build B C OR) (c2 :: cs))) ctag)
        by (apply (IH (length (c2 :: cs))); [cbn [length]; lia | reflexivity | exact Hr]).
      assert (IHr2 : frameable (field_loop (map (build B C OR) cs)) ctag)
        by (apply (IH (length cs)); [cbn [length]; lia | reflexivity | exact Hr2]).
      destruct (kind_of (ty c2));
        try (apply frameable_seq; [ apply (frameable_field c1 None); auto | exact IHr ]).
      apply frameable_seq; [ apply (frameable_field c1 (Some c2)); auto | exact IHr2 ].
  Qed.

  Theorem build_frameable : forall t, all_sub fr_ok t.
  Proof.
    induction t as [ty0 tag0 attrs0 content0 markup0 info0 meta0 map0 cs IHcs] using tok_ind'.
    set (t := Tok ty0 tag0 attrs0 content0 markup0 info0 meta0 map0 cs).
    constructor; [|exact IHcs].
    assert (Hk : Forall fr_ok cs) by (eapply Forall_impl; [|exact IHcs]; apply all_sub_here).
    intros ctag Hc. rewrite rt_run_build. change (children t) with cs.
    rewrite opens_section_eq in Hc. change (children t) with cs in Hc. change (ty t) with ty0 in Hc.
    unfold dispatch. change (ty t) with ty0.
    destruct (has_rule B ty0); cbn [negb]; [|repeat fr_step].
    destruct (kind_of ty0) eqn:K; try exact I.
    - (* paragraph *) apply frameable_container; auto.
    - (* inline *) apply kids_frameable_transparent; auto.
    - (* text *) unfold render_text. repeat fr_step.
    - (* softbreak *) unfold render_softbreak. repeat fr_step.
    - (* hardbreak *) unfold render_hardbreak. repeat fr_step.
    - (* em *) unfold render_em. repeat fr_step.
    - (* strong *) unfold render_strong. repeat fr_step.
    - (* s *) unfold render_s. cbn [frameable]. intro w.
      destruct s_raws as [|r1 [|r2 [|? ?]]]; try exact I.
      apply frameable_append_raws. apply frameable_seq.
      + apply kids_frameable_transparent; auto.
      + apply frameable_append_raws. exact I.
    - (* code_inline *) unfold render_code_inline. repeat fr_step.
    - (* code_block *) unfold render_code_block. repeat fr_step.
    - (* fence *) unfold render_fence. repeat fr_step.
    - (* blockquote *) unfold render_blockquote. destruct (has_key _ _); [exact I|].
      apply frameable_container; auto.
    - (* bullet_list *) apply frameable_container; auto.
    - (* ordered_list *) apply frameable_container; auto.
    - (* list_item *) apply frameable_container; auto.
    - (* hr *) unfold render_hr. repeat fr_step.
    - (* heading *)
      destruct Hc as [Hc|Hc]; [|discriminate].
      unfold render_heading. destruct (heading_level _); [|exact I].
      cbn [frameable]. rewrite Hc. cbn [negb]. repeat fr_step.
    - (* link *) apply frameable_link; auto.
    - (* image *) unfold render_image. repeat fr_step.
    - (* html_block *) unfold render_html_block. repeat fr_step.
    - (* html_inline *) unfold render_html_inline, render_html_block. repeat fr_step.
    - (* table *) apply frameable_table; auto.
    - (* math_inline *) unfold render_math_inline. repeat fr_step.
    - (* math_inline_double *) unfold render_math_block. repeat fr_step.
    - (* math_single *) unfold render_math_inline. repeat fr_step.
    - (* math_block *) unfold render_math_block. repeat fr_step.
    - (* math_block_label *) unfold render_math_block_label, add_math_target. repeat fr_step.
    - (* amsmath *) unfold render_amsmath, add_math_target. repeat fr_step.
    - (* footnote_ref *) unfold render_footnote_ref. repeat fr_step.
    - (* footnote_reference *) unfold render_footnote_reference. repeat fr_step.
    - (* myst_target *) unfold render_myst_target. repeat fr_step.
    - (* myst_block_break *) unfold render_myst_block_break. repeat fr_step.
    - (* myst_line_comment *) unfold render_myst_line_comment. repeat fr_step.
    - (* dl *)
      unfold render_dl. cbn [frameable]. intros o [a msgs].
      destruct (_ && _); [exact I|].
      destruct (dl_group (map (build B C OR) cs)) as [[lead groups]|e] eqn:Eg; [|exact I].
      destruct lead; [|exact I].
      destruct (dl_group_all (all_sub fr_ok) cs [] groups IHcs Eg) as [_ Hg].
      cbn [frameable]. split; [|intro; exact I].
      apply frameable_seq_all. apply Forall_map. apply Forall_forall. intros g Hin.
      destruct (Hg g Hin) as [Hf Hs]. apply frameable_dl_item; assumption.
    - (* field_list *)
      unfold render_field_list. cbn [frameable]. intros o [a msgs]. cbn [frameable].
      split; [|intro; exact I]. apply frameable_field_loop. exact IHcs.
    - (* span *) apply frameable_container; auto.
    - (* colon_fence *) unfold render_colon_fence. repeat fr_step.
    - (* myst_role *) unfold render_myst_role. repeat fr_step.
    - (* substitution_inline *) apply frameable_dyn_splice.
    - (* substitution_block *) apply frameable_dyn_splice.
    - (* front_matter *) apply frameable_dyn_splice.
  Qed.
End Frameable.
