(* Dynamic syntax (directives, roles, substitutions, front matter) as an oracle: facts about `relabel`
   (the oracle's nodes receive fresh, consecutive allocation numbers; nothing else changes) and about
   the fragment `dyn_node_ok` the model accepts (no section / transition / table structure, no
   registered names or ids). *)
From Coq Require Import List NArith Bool Lia.
From MV Require Import Base.PyStr.
From MV Require Import Base.Res.
From MV Require Import Doc.Str.
From MV Require Import Doc.Tok.
From MV Require Import Doc.Node.
From MV Require Import Doc.Registry.
From MV Require Import Doc.Prog.
From MV Require Import Gen.Render.
From MV Require Import Doc.Render.
From MV Require Import Doc.Skel.
From MV Require Import Doc.WF.
From MV Require Import Doc.OpsProofs.
From MV Require Import Doc.Post.
Import ListNotations.
Open Scope N_scope.

(* a tree without its identity labels *)
Fixpoint erase (n : node) : node :=
  match n with
  | Text _ s => Text 0 s
  | Elem _ tg a cs => Elem 0 tg a (map erase cs)
  end.

Lemma relabel_elem o tg a cs c :
  relabel (Elem o tg a cs) c =
  let '(cs', c') := relabel_list cs (N.succ c) in (Elem c tg a cs', c').
Proof.
  cbn [relabel].
  assert (E : forall l c0,
             (fix go (l : list node) (c : N) {struct l} : list node * N :=
                match l with
                | [] => ([], c)
                | x :: r => let '(x', c1) := relabel x c in
                            let '(r', c2) := go r c1 in (x' :: r', c2)
                end) l c0 = relabel_list l c0).
  { induction l as [|x r IH]; intro c0; [reflexivity|]. simpl. destruct (relabel x c0) as [x' c1].
    rewrite IH. reflexivity. }
  rewrite E. reflexivity.
Qed.

Definition rl_ok (n : node) : Prop := forall c,
  seg c (snd (relabel n c)) (oids (fst (relabel n c))) /\ erase (fst (relabel n c)) = erase n.

Lemma relabel_list_ok l : Forall rl_ok l -> forall c,
  seg c (snd (relabel_list l c)) (oids_l (fst (relabel_list l c))) /\
  map erase (fst (relabel_list l c)) = map erase l.
Proof.
  induction 1 as [|x r Hx _ IH]; intro c; cbn [relabel_list].
  - cbn [fst snd]. split; [apply seg_nil; lia | reflexivity].
  - destruct (relabel x c) as [x' c1] eqn:E1. destruct (relabel_list r c1) as [r' c2] eqn:E2. cbn [fst snd].
    specialize (Hx c). rewrite E1 in Hx. cbn [fst snd] in Hx. destruct Hx as [S1 Er1].
    specialize (IH c1). rewrite E2 in IH. cbn [fst snd] in IH. destruct IH as [S2 Er2].
    split.
    + rewrite oids_l_cons. eapply seg_app; eauto.
    + cbn [map]. rewrite Er1, Er2. reflexivity.
Qed.

Lemma relabel_ok : forall n, rl_ok n.
Proof.
  induction n as [o s|o tg a cs IH] using node_ind'; intro c.
  - cbn [relabel fst snd oids erase]. split; [apply seg_one | reflexivity].
  - rewrite relabel_elem. destruct (relabel_list cs (N.succ c)) as [cs' c'] eqn:E. cbn [fst snd].
    pose proof (relabel_list_ok cs IH (N.succ c)) as H. rewrite E in H. cbn [fst snd] in H.
    destruct H as [S Er]. split.
    + rewrite oids_elem. apply seg_cons. exact S.
    + cbn [erase]. rewrite Er. reflexivity.
Qed.

Lemma relabel_list_spec l c l' c' :
  relabel_list l c = (l', c') -> seg c c' (oids_l l') /\ map erase l' = map erase l.
Proof.
  intro E. pose proof (relabel_list_ok l) as H.
  assert (Hall : Forall rl_ok l) by (apply Forall_forall; intros; apply relabel_ok).
  specialize (H Hall c). rewrite E in H. exact H.
Qed.

(* ---- functions that do not look at identity labels ---- *)
Lemma astext_erase n : astext (erase n) = astext n.
Proof.
  induction n as [o s|o tg a cs IH] using node_ind'; [reflexivity|].
  cbn [erase astext]. induction IH as [|x r Hx _ IHr]; [reflexivity|].
  cbn [map flat_map]. rewrite Hx, IHr. reflexivity.
Qed.

Lemma astexts_erase cs : flat_map astext (map erase cs) = flat_map astext cs.
Proof. induction cs as [|x r IH]; [reflexivity|]. cbn [map flat_map]. rewrite astext_erase, IH. reflexivity. Qed.

Lemma dyn_node_ok_erase n : dyn_node_ok (erase n) = dyn_node_ok n.
Proof.
  induction n as [o s|o tg a cs IH] using node_ind'; [reflexivity|].
  cbn [erase dyn_node_ok]. f_equal.
  induction IH as [|x r Hx _ IHr]; [reflexivity|]. cbn [map forallb]. rewrite Hx, IHr. reflexivity.
Qed.

Lemma dyn_nodes_ok_erase cs : forallb dyn_node_ok (map erase cs) = forallb dyn_node_ok cs.
Proof. induction cs as [|x r IH]; [reflexivity|]. cbn [map forallb]. rewrite dyn_node_ok_erase, IH. reflexivity. Qed.

Section SkelErase.
  Variable D : str -> str.

  Definition sk_inv (n : node) : Prop :=
    skel_node D (erase n) = skel_node D n /\
    flat_map (skel_node D) (map erase (kids_of n)) = flat_map (skel_node D) (kids_of n).

  Lemma flat_skel_erase cs : Forall sk_inv cs ->
    flat_map (skel_node D) (map erase cs) = flat_map (skel_node D) cs.
  Proof.
    induction 1 as [|x r [Hx _] _ IH]; [reflexivity|]. cbn [map flat_map]. rewrite Hx, IH. reflexivity.
  Qed.

  Lemma skel_node_erase_inv : forall n, sk_inv n.
  Proof.
    induction n as [o s|o tg a cs IH] using node_ind'.
    - split; reflexivity.
    - pose proof (flat_skel_erase cs IH) as Hk. split; [|exact Hk].
      cbn [erase skel_node]. rewrite Hk, astexts_erase.
      destruct (nkind_of tg); try reflexivity.
      (* pending_xref / download_reference: one level deeper *)
      f_equal. f_equal.
      clear Hk. induction IH as [|x r [Hx Hxk] _ IHr]; [reflexivity|].
      cbn [map flat_map]. rewrite IHr. f_equal.
      destruct x as [ox sx|ox tx ax csx]; [reflexivity|].
      cbn [erase]. cbn [kids_of] in Hxk.
      destruct (nkind_of tx) as [| | |k| | | | | | | | | | | | | | | | |] eqn:Ek; try reflexivity;
        try (change (Elem 0 tx ax (map erase csx)) with (erase (Elem ox tx ax csx)); exact Hx).
      destruct k; try (change (Elem 0 tx ax (map erase csx)) with (erase (Elem ox tx ax csx)); exact Hx).
      exact Hxk.
  Qed.

  Lemma skel_nodes_erase ns : skel_nodes D (map erase ns) = skel_nodes D ns.
  Proof.
    unfold skel_nodes. apply flat_skel_erase. apply Forall_forall. intros; apply skel_node_erase_inv.
  Qed.

  Lemma skel_nodes_same_shape ns ns' : map erase ns' = map erase ns -> skel_nodes D ns' = skel_nodes D ns.
  Proof. intro E. rewrite <- (skel_nodes_erase ns'), E. apply skel_nodes_erase. Qed.
End SkelErase.

(* ---- what the accepted fragment guarantees ---- *)
Lemma dyn_ok_facts n : dyn_node_ok n = true ->
  has_tag n_section n = false /\ has_tag n_transition n = false /\ rows_ok n = true.
Proof.
  induction n as [o s|o tg a cs IH] using node_ind'; intro H; [repeat split; reflexivity|].
  cbn [dyn_node_ok] in H.
  apply andb_true_iff in H. destruct H as [H H0].
  apply andb_true_iff in H. destruct H as [H _].
  apply andb_true_iff in H. destruct H as [H _].
  apply andb_true_iff in H. destruct H as [H Htg].
  apply andb_true_iff in H. destruct H as [Hsec Htr].
  apply negb_true_iff in Hsec. apply negb_true_iff in Htr. apply negb_true_iff in Htg.
  cbn [has_tag rows_ok]. rewrite Hsec, Htr, Htg. cbn [orb andb].
  assert (K : existsb (has_tag n_section) cs = false /\ existsb (has_tag n_transition) cs = false /\
              forallb rows_ok cs = true).
  { clear -IH H0. induction IH as [|x r Hx _ IHr]; [repeat split; reflexivity|].
    cbn [forallb] in H0. apply andb_true_iff in H0. destruct H0 as [Hx0 Hr0].
    destruct (Hx Hx0) as [A1 [A2 A3]]. destruct (IHr Hr0) as [B1 [B2 B3]].
    cbn [existsb forallb]. rewrite A1, A2, A3, B1, B2, B3. repeat split; reflexivity. }
  destruct K as [K1 [K2 K3]]. rewrite K1, K2, K3. repeat split; reflexivity.
Qed.

Lemma dyn_oks_facts ns : forallb dyn_node_ok ns = true ->
  existsb (has_tag n_section) ns = false /\ existsb (has_tag n_transition) ns = false /\
  forallb rows_ok ns = true.
Proof.
  induction ns as [|x r IH]; intro H; [repeat split; reflexivity|].
  cbn [forallb] in H. apply andb_true_iff in H. destruct H as [Hx Hr].
  destruct (dyn_ok_facts x Hx) as [A1 [A2 A3]]. destruct (IH Hr) as [B1 [B2 B3]].
  cbn [existsb forallb]. rewrite A1, A2, A3, B1, B2, B3. repeat split; reflexivity.
Qed.

Lemma relabel_list_dyn_ok l c l' c' :
  relabel_list l c = (l', c') -> forallb dyn_node_ok l = true -> forallb dyn_node_ok l' = true.
Proof.
  intros E H. apply relabel_list_spec in E. destruct E as [_ E].
  rewrite <- dyn_nodes_ok_erase, E, dyn_nodes_ok_erase. exact H.
Qed.

Lemma keeps_log_warnings ws : keeps_nxt (log_warnings ws).
Proof.
  induction ws as [|w r IH]; intros f a f' H.
  - cbn in H. inversion H; subst. reflexivity.
  - cbn [log_warnings] in H. unfold fbind in H.
    destruct (log_warning w f) as [[u f1]|e] eqn:E; [|discriminate].
    apply keeps_log_warning in E. apply IH in H. congruence.
Qed.
