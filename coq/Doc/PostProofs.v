(* For every token of the static grammar, the nodes its render program appends (functional
   semantics): fresh and distinct allocation numbers, no section, no transition unless the token
   contains a thematic break, table rows matching the declared columns, and the token's skeleton. *)
From Coq Require Import List NArith Bool Lia Arith Wf_nat.
From MV Require Import Base.PyStr.
From MV Require Import Base.Res.
From MV Require Import Doc.Str.
From MV Require Import Doc.Tok.
From MV Require Import Doc.Node.
From MV Require Import Doc.Registry.
From MV Require Import Doc.Prog.
From MV Require Import Doc.Refine.
From MV Require Import Gen.Render.
From MV Require Import Doc.Render.
From MV Require Import Doc.RenderProofs.
From MV Require Import Doc.Skel.
From MV Require Import Doc.WF.
From MV Require Import Doc.OpsProofs.
From MV Require Import Doc.DynProofs.
From MV Require Import Doc.Post.
Import ListNotations.
Open Scope N_scope.

(* structural facts about appended nodes; sh = the tokens' tables are well shaped, hr = they contain no hr *)
Record nodes_ok (sh hr : bool) (f : fstate) (ns : list node) (f' : fstate) : Prop := mkNodesOk {
  no_seg : seg (nxt f) (nxt f') (oids_l ns);
  no_sec : existsb (has_tag n_section) ns = false;
  no_rows : sh = true -> forallb rows_ok ns = true;
  no_tr : hr = true -> existsb (has_tag n_transition) ns = false
}.

Lemma nodes_ok_nil sh hr f f' : nxt f <= nxt f' -> nodes_ok sh hr f [] f'.
Proof. intro H. constructor; auto. apply seg_nil. exact H. Qed.

Lemma nodes_ok_app sh1 hr1 sh2 hr2 f f1 f2 ns1 ns2 :
  nodes_ok sh1 hr1 f ns1 f1 -> nodes_ok sh2 hr2 f1 ns2 f2 ->
  nodes_ok (sh1 && sh2) (hr1 && hr2) f (ns1 ++ ns2) f2.
Proof.
  intros [A1 A2 A3 A4] [B1 B2 B3 B4]. constructor.
  - rewrite oids_l_app. eapply seg_app; eauto.
  - rewrite existsb_app, A2, B2. reflexivity.
  - intro H. apply andb_true_iff in H. destruct H. rewrite forallb_app, A3, B3; auto.
  - intro H. apply andb_true_iff in H. destruct H. rewrite existsb_app, A4, B4; auto.
Qed.

(* the later allocation placed first *)
Lemma nodes_ok_app_rev sh1 hr1 sh2 hr2 f f1 f2 ns1 ns2 :
  nodes_ok sh1 hr1 f ns1 f1 -> nodes_ok sh2 hr2 f1 ns2 f2 ->
  nodes_ok (sh1 && sh2) (hr1 && hr2) f (ns2 ++ ns1) f2.
Proof.
  intros [A1 A2 A3 A4] [B1 B2 B3 B4]. constructor.
  - rewrite oids_l_app. eapply seg_app_rev; eauto.
  - rewrite existsb_app, A2, B2. reflexivity.
  - intro H. apply andb_true_iff in H. destruct H. rewrite forallb_app, A3, B3; auto.
  - intro H. apply andb_true_iff in H. destruct H. rewrite existsb_app, A4, B4; auto.
Qed.

Lemma nodes_ok_flags sh hr sh' hr' f ns f' :
  nodes_ok sh hr f ns f' -> (sh' = true -> sh = true) -> (hr' = true -> hr = true) -> nodes_ok sh' hr' f ns f'.
Proof. intros [A1 A2 A3 A4] H1 H2. constructor; auto. Qed.

Lemma nodes_ok_skip_l sh hr f0 f ns f' : nxt f0 <= nxt f -> nodes_ok sh hr f ns f' -> nodes_ok sh hr f0 ns f'.
Proof.
  intros H [A1 A2 A3 A4]. constructor; auto. eapply seg_weaken; [exact A1|exact H|lia].
Qed.

Lemma nodes_ok_skip_r sh hr f ns f1 f' : nodes_ok sh hr f ns f1 -> nxt f1 <= nxt f' -> nodes_ok sh hr f ns f'.
Proof.
  intros [A1 A2 A3 A4] H. constructor; auto. eapply seg_weaken; [exact A1|lia|exact H].
Qed.

Lemma nodes_ok_le sh hr f ns f' : nodes_ok sh hr f ns f' -> nxt f <= nxt f'.
Proof. intros [A1 _ _ _]. eapply seg_le; eauto. Qed.

Lemma nodes_ok_msgs sh hr f ms f' : msgs_post f ms f' -> nodes_ok sh hr f ms f'.
Proof.
  intros [H1 H2]. constructor; auto.
  - apply regmsgs_has_tag; auto.
  - intros _. apply regmsgs_rows_ok; auto.
  - intros _. apply regmsgs_has_tag; auto.
Qed.

Lemma nodes_ok_text sh hr f o f' s : alloc f = Good (o, f') -> nodes_ok sh hr f [Text o s] f'.
Proof.
  intro H. apply alloc_post in H. destruct H as [-> E]. constructor; auto.
  unfold oids_l. simpl. rewrite E. apply seg_one.
Qed.

(* an element with a tag that is neither section, transition nor tgroup, allocated just before its children *)
Definition plain_tag (tg : str) : Prop :=
  str_eqb tg n_section = false /\ str_eqb tg n_transition = false /\ str_eqb tg n_tgroup = false.

Lemma nodes_ok_elem sh hr f o f1 tg a cs f' :
  alloc f = Good (o, f1) -> plain_tag tg -> nodes_ok sh hr f1 cs f' -> nodes_ok sh hr f [Elem o tg a cs] f'.
Proof.
  intros H [P1 [P2 P3]] [A1 A2 A3 A4]. apply alloc_post in H. destruct H as [-> E]. constructor.
  - unfold oids_l. simpl. rewrite app_nil_r. apply seg_cons. rewrite <- E. exact A1.
  - cbn [existsb has_tag]. rewrite P1, A2. reflexivity.
  - intro Hs. cbn [forallb rows_ok]. rewrite P3. rewrite A3; auto.
  - intro Hh. cbn [existsb has_tag]. rewrite P2, A4; auto.
Qed.

Lemma nodes_ok_single_app sh hr f n ns f1 f' :
  nodes_ok sh hr f [n] f1 -> nodes_ok sh hr f1 ns f' -> nodes_ok sh hr f (n :: ns) f'.
Proof.
  intros A Bk. change (n :: ns) with ([n] ++ ns).
  eapply nodes_ok_flags; [eapply nodes_ok_app; eauto| |]; intro H; rewrite H; reflexivity.
Qed.

Ltac plain := repeat split; reflexivity.

(* unfolding lemmas for the token-side definitions *)
Lemma hr_free_eq t :
  hr_free t = match kind_of (ty t) with KHr => false | _ => true end && forallb hr_free (children t).
Proof. destruct t. reflexivity. Qed.

Lemma tshape_eq t :
  tshape t = match kind_of (ty t) with KTable => table_rows_match (children t) | _ => true end
             && forallb tshape (children t).
Proof. destruct t. reflexivity. Qed.

Lemma static_tok_eq B C OR t :
  static_tok B C OR t = nodup_keys (attrs t)
                 && match kind_of (ty t) with
                    | KLink => link_static t
                    | KTable => table_static (children t)
                    | KFieldList => field_static (children t)
                    | _ => true
                    end
                 && (dyn_static B C OR t
                     && match kind_of (ty t) with
                        | KImage => true
                        | _ => forallb (static_tok B C OR) (children t)
                        end).
Proof. destruct t. reflexivity. Qed.

Lemma dyn_of_static B C OR t : static_tok B C OR t = true -> dyn_static B C OR t = true.
Proof.
  intro H. rewrite static_tok_eq in H. apply andb_true_iff in H. destruct H as [_ H].
  apply andb_true_iff in H. destruct H as [H _]. exact H.
Qed.

(* the tables regenerated from the source are what the specification expects *)
Lemma gen_table_align : table_align = spec_align. Proof. reflexivity. Qed.
Lemma gen_style_map : olist_style_map = spec_style_map. Proof. reflexivity. Qed.
Lemma gen_default_style : olist_default_style = spec_default_style. Proof. reflexivity. Qed.
Lemma gen_hardbreak : hardbreak_raws = spec_hardbreak. Proof. reflexivity. Qed.
Lemma gen_s_raws : s_raws = spec_s_raws. Proof. reflexivity. Qed.

Section Main.
  Variable D : str -> str.
  Variable B : backend.
  Variable C : cfg.
  Variable OR : oracles.
  (* the oracle assumptions of the skeleton statement (not used by the structural facts) *)
  Definition O_lexer_concat : Prop := forall lang text toks,
      o_lex OR lang text = Some toks -> strip1nl (flat_map snd toks) = strip1nl text.
  Definition O_canon : Prop := forall x, D (o_nlt OR x) = D x.
  Definition O_no_files : Prop := forall p, o_path2doc OR p = None /\ o_docjoin OR p = None.
  Definition Hyps : Prop := O_lexer_concat /\ O_canon /\ O_no_files.

  Notation bld := (build B C OR).
  Notation sktok := (skel_tok D B C OR).
  Notation static_tok := (Skel.static_tok B C OR).

  Definition skel_ok (sk : list skel) (ns : list node) : Prop :=
    Hyps -> existsb has_dropped ns = false -> skel_nodes D ns = sk.

  Definition post (t : tok) (f : fstate) (ns : list node) (f' : fstate) : Prop :=
    nodes_ok (tshape t) (hr_free t) f ns f' /\ skel_ok (sktok t) ns.

  Definition posts (cs : list tok) (f : fstate) (ns : list node) (f' : fstate) : Prop :=
    nodes_ok (forallb tshape cs) (forallb hr_free cs) f ns f' /\ skel_ok (flat_map sktok cs) ns.

  Definition tok_ok (t : tok) : Prop :=
    static_tok t = true ->
    forall ctag f ns f', run_f (rt_run (bld t)) ctag f = Some (Good (ns, f')) -> post t f ns f'.

  Lemma skel_ok_nil : skel_ok [] [].
  Proof. intros _ _. reflexivity. Qed.

  Lemma skel_ok_app sk1 sk2 ns1 ns2 : skel_ok sk1 ns1 -> skel_ok sk2 ns2 -> skel_ok (sk1 ++ sk2) (ns1 ++ ns2).
  Proof.
    intros H1 H2 Hy Hd. rewrite existsb_app in Hd. apply orb_false_iff in Hd. destruct Hd as [Hd1 Hd2].
    rewrite skel_nodes_app, H1, H2; auto.
  Qed.

  Lemma skel_ok_msgs ms : Forall regmsg ms -> skel_ok [] ms.
  Proof. intros H _ _. apply regmsgs_skel. exact H. Qed.

  Lemma kids_post cs : Forall tok_ok cs -> forallb static_tok cs = true ->
    forall ctag f ns f', run_f (render_children (map bld cs)) ctag f = Some (Good (ns, f')) -> posts cs f ns f'.
  Proof.
    induction cs as [|c cs IH]; intros Hall Hst ctag f ns f' H.
    - cbn in H. inversion H; subst. split; [apply nodes_ok_nil; lia | apply skel_ok_nil].
    - inversion Hall as [|? ? Hc Hcs]; subst. cbn [forallb] in Hst. apply andb_true_iff in Hst.
      destruct Hst as [Hs1 Hs2].
      unfold render_children in H. cbn [map seq_all] in H.
      apply run_f_seq_inv in H. destruct H as [ns1 [f1 [ns2 [H1 [H2 ->]]]]].
      destruct (Hc Hs1 ctag f ns1 f1 H1) as [A1 A2].
      destruct (IH Hcs Hs2 ctag f1 ns2 f' H2) as [B1 B2].
      split.
      + cbn [forallb]. eapply nodes_ok_app; eauto.
      + cbn [flat_map]. apply skel_ok_app; auto.
  Qed.

  (* dropped-ness of an element is that of its children unless it is itself a dropped-message *)
  Lemma has_dropped_elem o tg a cs :
    str_eqb tg k_system_message = false ->
    existsb has_dropped [Elem o tg a cs] = existsb has_dropped cs.
  Proof. intro H. cbn [existsb has_dropped]. rewrite H. cbn [andb orb]. rewrite orb_false_r. reflexivity. Qed.

  (* ---- leaves ---- *)
  Lemma post_text t ctag f ns f' :
    kind_of (ty t) = KText -> run_f (render_text t (map bld (children t))) ctag f = Some (Good (ns, f')) ->
    post t f ns f'.
  Proof.
    intros K H. unfold render_text, append_text in H.
    apply run_f_FOp_inv in H. destruct H as [o [f1 [Ea H]]].
    apply run_f_Append_inv in H. destruct H as [ns' [-> H]].
    apply run_f_Done_inv in H. destruct H as [-> ->].
    split.
    - apply nodes_ok_text. exact Ea.
    - intros _ _. destruct t as [ty0 tg0 at0 co0 mk0 in0 me0 mp0 cs0]. cbn [skel_tok ty] in *. rewrite K. reflexivity.
  Qed.

  Ltac tk t := destruct t as [ty0 tg0 at0 co0 mk0 in0 me0 mp0 cs0];
               cbn [skel_tok ty tag attrs content markup info meta map_ children hr_free tshape] in *.

  Lemma post_softbreak t ctag f ns f' :
    kind_of (ty t) = KSoftbreak -> run_f (render_softbreak t (map bld (children t))) ctag f = Some (Good (ns, f')) ->
    post t f ns f'.
  Proof.
    intros K H. unfold render_softbreak, append_text in H.
    apply run_f_FOp_inv in H. destruct H as [o [f1 [Ea H]]].
    apply run_f_Append_inv in H. destruct H as [ns' [-> H]].
    apply run_f_Done_inv in H. destruct H as [-> ->].
    split; [apply nodes_ok_text; exact Ea|]. intros _ _. tk t. rewrite K. reflexivity.
  Qed.

  Lemma post_hr t ctag f ns f' :
    kind_of (ty t) = KHr -> run_f (render_hr t (map bld (children t))) ctag f = Some (Good (ns, f')) ->
    post t f ns f'.
  Proof.
    intros K H. unfold render_hr in H.
    apply run_f_FOp_inv in H. destruct H as [o [f1 [Ea H]]].
    apply run_f_Append_inv in H. destruct H as [ns' [-> H]].
    apply run_f_Done_inv in H. destruct H as [-> ->].
    apply alloc_post in Ea. destruct Ea as [-> En].
    split.
    - constructor.
      + unfold oids_l. simpl. rewrite En. apply seg_one.
      + reflexivity.
      + intros _. reflexivity.
      + rewrite hr_free_eq, K. discriminate.
    - intros _ _. tk t. rewrite K. reflexivity.
  Qed.

  (* ---- containers built by `container` ---- *)
  Lemma run_container t ks tg a0 keys ctag f ns f' :
    run_f (container C OR t ks tg a0 keys) ctag f = Some (Good (ns, f')) ->
    exists o f1 a msgs f2 cs,
      alloc f = Good (o, f1) /\ copy_attributes C OR t o tg keys [] a0 f1 = Good ((a, msgs), f2) /\
      run_f (render_children ks) tg f2 = Some (Good (cs, f')) /\ ns = [Elem o tg a (msgs ++ cs)].
  Proof.
    unfold container. intro H.
    apply run_f_FOp_inv in H. destruct H as [o [f1 [Ea H]]].
    apply run_f_FOp_inv in H. destruct H as [[a msgs] [f2 [Ec H]]].
    apply run_f_Ctx_inv in H. destruct H as [cs [f3 [ns' [Hb [Hk ->]]]]].
    apply run_f_Done_inv in Hk. destruct Hk as [-> ->].
    exists o, f1, a, msgs, f2, cs. auto.
  Qed.

  Lemma nodes_ok_container sh hr f o f1 tg a msgs f2 cs f' :
    alloc f = Good (o, f1) -> msgs_post f1 msgs f2 -> nodes_ok sh hr f2 cs f' -> plain_tag tg ->
    nodes_ok sh hr f [Elem o tg a (msgs ++ cs)] f'.
  Proof.
    intros Ea Hm Hk Hp. eapply nodes_ok_elem; eauto.
    eapply nodes_ok_flags; [eapply nodes_ok_app; [apply (nodes_ok_msgs true true); exact Hm | exact Hk] | |];
      intro H; rewrite H; reflexivity.
  Qed.

  Lemma skel_box o tg a msgs cs k sk :
    nkind_of tg = NBox k -> str_eqb tg k_system_message = false -> Forall regmsg msgs -> skel_ok sk cs ->
    skel_ok [SBox k sk] [Elem o tg a (msgs ++ cs)].
  Proof.
    intros Hn Hs Hm Hk Hy Hd. rewrite has_dropped_elem in Hd by exact Hs.
    rewrite existsb_app in Hd. apply orb_false_iff in Hd. destruct Hd as [_ Hd].
    unfold skel_nodes. cbn [flat_map skel_node]. rewrite Hn, app_nil_r.
    change (flat_map (skel_node D) (msgs ++ cs)) with (skel_nodes D (msgs ++ cs)).
    rewrite skel_nodes_app, (regmsgs_skel D msgs Hm), (Hk Hy Hd). reflexivity.
  Qed.

  Lemma hr_free_kids t : match kind_of (ty t) with KHr => False | _ => True end ->
                         hr_free t = forallb hr_free (children t).
  Proof. intro H. rewrite hr_free_eq. destruct (kind_of (ty t)); try contradiction; reflexivity. Qed.

  Lemma tshape_kids t : match kind_of (ty t) with KTable => False | _ => True end ->
                        tshape t = forallb tshape (children t).
  Proof. intro H. rewrite tshape_eq. destruct (kind_of (ty t)); try contradiction; reflexivity. Qed.

  Lemma static_kids t : static_tok t = true -> match kind_of (ty t) with KImage => False | _ => True end ->
                        forallb static_tok (children t) = true.
  Proof.
    intros H Hk. rewrite static_tok_eq in H. apply andb_true_iff in H. destruct H as [_ H].
    apply andb_true_iff in H. destruct H as [_ H].
    destruct (kind_of (ty t)); try contradiction; exact H.
  Qed.

  (* a token rendered as  Elem tg attrs (messages ++ children)  with a box skeleton *)
  Lemma post_box_container t tg a0 keys k ctag f ns f' :
    Forall tok_ok (children t) -> static_tok t = true ->
    match kind_of (ty t) with KHr | KTable | KImage => False | _ => True end ->
    plain_tag tg -> nkind_of tg = NBox k -> str_eqb tg k_system_message = false ->
    sktok t = [SBox k (flat_map sktok (children t))] ->
    run_f (container C OR t (map bld (children t)) tg a0 keys) ctag f = Some (Good (ns, f')) ->
    post t f ns f'.
  Proof.
    intros Hall Hst Hk Hp Hn Hs Hsk H.
    apply run_container in H. destruct H as [o [f1 [a [msgs [f2 [cs [Ea [Ec [Hb ->]]]]]]]]].
    apply copy_attributes_post in Ec. destruct Ec as [Hm _].
    assert (Hst' : forallb static_tok (children t) = true).
    { apply static_kids; auto. destruct (kind_of (ty t)); auto. }
    destruct (kids_post (children t) Hall Hst' tg f2 cs f' Hb) as [Hno Hsko].
    split.
    - rewrite hr_free_kids, tshape_kids by (destruct (kind_of (ty t)); auto).
      eapply nodes_ok_container; eauto.
    - rewrite Hsk. apply skel_box; auto. destruct Hm; auto.
  Qed.

  Lemma skel_elem_msgs o tg a msgs cs sk (F : list skel -> list skel) :
    (forall cs', skel_node D (Elem o tg a cs') = F (skel_nodes D cs')) ->
    str_eqb tg k_system_message = false -> Forall regmsg msgs -> skel_ok sk cs ->
    skel_ok (F sk) [Elem o tg a (msgs ++ cs)].
  Proof.
    intros HF Hs Hm Hk Hy Hd. rewrite has_dropped_elem in Hd by exact Hs.
    rewrite existsb_app in Hd. apply orb_false_iff in Hd. destruct Hd as [_ Hd].
    unfold skel_nodes at 1. cbn [flat_map]. rewrite app_nil_r, HF.
    rewrite skel_nodes_app, (regmsgs_skel D msgs Hm), (Hk Hy Hd). reflexivity.
  Qed.

  Lemma nodup_of_static t : static_tok t = true -> nodup_keys (attrs t) = true.
  Proof.
    intro H. rewrite static_tok_eq in H. apply andb_true_iff in H. destruct H as [H _].
    apply andb_true_iff in H. destruct H as [H _]. exact H.
  Qed.

  Lemma post_bullet_list t ctag f ns f' :
    Forall tok_ok (children t) -> static_tok t = true -> kind_of (ty t) = KBulletList ->
    run_f (render_bullet_list C OR t (map bld (children t))) ctag f = Some (Good (ns, f')) -> post t f ns f'.
  Proof.
    intros Hall Hst K H. unfold render_bullet_list in H.
    apply run_container in H. destruct H as [o [f1 [a [msgs [f2 [cs [Ea [Ec [Hb ->]]]]]]]]].
    apply copy_attributes_post in Ec. destruct Ec as [Hm Ha].
    assert (Hst' : forallb static_tok (children t) = true) by (apply static_kids; auto; rewrite K; exact I).
    destruct (kids_post (children t) Hall Hst' _ f2 cs f' Hb) as [Hno Hsko].
    split.
    - rewrite hr_free_kids, tshape_kids by (rewrite K; exact I).
      eapply nodes_ok_container; eauto. plain.
    - assert (Hsk : sktok t = [SBox (CBullet (if is_empty (markup t) then None else Some (markup t)))
                                     (flat_map sktok (children t))]) by (tk t; rewrite K; reflexivity).
      rewrite Hsk.
      apply (skel_elem_msgs o k_bullet_list a msgs cs _ (fun x => [SBox _ x])).
      + intro cs'. cbn [skel_node].
        replace (nkind_of k_bullet_list) with NBullet by reflexivity.
        rewrite (Ha a_bullet) by (try (intros [X|[X|[]]]; discriminate X); discriminate).
        destruct (is_empty (markup t)) eqn:Em; reflexivity.
      + reflexivity.
      + destruct Hm; auto.
      + exact Hsko.
  Qed.

  Lemma post_ordered_list t ctag f ns f' :
    Forall tok_ok (children t) -> static_tok t = true -> kind_of (ty t) = KOrderedList ->
    run_f (render_ordered_list C OR t (map bld (children t))) ctag f = Some (Good (ns, f')) -> post t f ns f'.
  Proof.
    intros Hall Hst K H. unfold render_ordered_list in H. rewrite gen_style_map, gen_default_style in H.
    apply run_container in H. destruct H as [o [f1 [a [msgs [f2 [cs [Ea [Ec [Hb ->]]]]]]]]].
    pose proof Ec as Ec2. apply copy_attributes_post in Ec. destruct Ec as [Hm Ha].
    unfold copy_attributes in Ec2.
    apply (copy_loop_plain C OR o n_enumerated_list [a_class; a_id; a_start] [] a_start) in Ec2;
      [ | right; right; left; reflexivity | discriminate | discriminate | discriminate | apply nodup_of_static; exact Hst ].
    assert (Hst' : forallb static_tok (children t) = true) by (apply static_kids; auto; rewrite K; exact I).
    destruct (kids_post (children t) Hall Hst' _ f2 cs f' Hb) as [Hno Hsko].
    split.
    - rewrite hr_free_kids, tshape_kids by (rewrite K; exact I).
      eapply nodes_ok_container; eauto. plain.
    - assert (Hsk : sktok t = [SBox (CEnum (enum_style t) (attr_get t a_start) (markup t))
                                     (flat_map sktok (children t))]) by (tk t; rewrite K; reflexivity).
      rewrite Hsk.
      apply (skel_elem_msgs o n_enumerated_list a msgs cs _ (fun x => [SBox _ x])).
      + intro cs'. cbn [skel_node].
        replace (nkind_of n_enumerated_list) with NEnum by reflexivity.
        rewrite (Ha a_enumtype) by (try (intros [X|[X|[X|[]]]]; discriminate X); discriminate).
        rewrite (Ha a_suffix) by (try (intros [X|[X|[X|[]]]]; discriminate X); discriminate).
        rewrite Ec2. unfold attr_get.
        replace (assoc a_enumtype [(a_enumtype, [enum_style t]); (a_prefix, [[]]); (a_suffix, [markup t])])
          with (Some [enum_style t]) by reflexivity.
        replace (assoc a_suffix [(a_enumtype, [enum_style t]); (a_prefix, [[]]); (a_suffix, [markup t])])
          with (Some [markup t]) by reflexivity.
        replace (assoc a_start [(a_enumtype, [enum_style t]); (a_prefix, [[]]); (a_suffix, [markup t])])
          with (@None (list str)) by reflexivity.
        destruct (assoc a_start (attrs t)); reflexivity.
      + reflexivity.
      + destruct Hm; auto.
      + exact Hsko.
  Qed.

  (* em / strong: a bare element around the children *)
  Lemma post_bare t tg k ctag f ns f' :
    Forall tok_ok (children t) -> static_tok t = true ->
    match kind_of (ty t) with KHr | KTable | KImage => False | _ => True end ->
    plain_tag tg -> nkind_of tg = NBox k -> str_eqb tg k_system_message = false ->
    sktok t = [SBox k (flat_map sktok (children t))] ->
    run_f (o <- alloc ; Ctx o tg [] [] (render_children (map bld (children t))) (fun _ => Done)) ctag f
      = Some (Good (ns, f')) ->
    post t f ns f'.
  Proof.
    intros Hall Hst Hk Hp Hn Hs Hsk H.
    apply run_f_FOp_inv in H. destruct H as [o [f1 [Ea H]]].
    apply run_f_Ctx_inv in H. destruct H as [cs [f3 [ns' [Hb [Hd ->]]]]].
    apply run_f_Done_inv in Hd. destruct Hd as [-> ->].
    assert (Hst' : forallb static_tok (children t) = true).
    { apply static_kids; auto. destruct (kind_of (ty t)); auto. }
    destruct (kids_post (children t) Hall Hst' tg f1 cs f3 Hb) as [Hno Hsko].
    split.
    - rewrite hr_free_kids, tshape_kids by (destruct (kind_of (ty t)); auto).
      eapply nodes_ok_elem; eauto.
    - rewrite Hsk. change ([] ++ cs) with (([] : list node) ++ cs). apply skel_box; auto.
  Qed.

  (* inline: the children in place *)
  Lemma post_inline t ctag f ns f' :
    Forall tok_ok (children t) -> static_tok t = true -> kind_of (ty t) = KInline ->
    run_f (render_inline t (map bld (children t))) ctag f = Some (Good (ns, f')) -> post t f ns f'.
  Proof.
    intros Hall Hst K H. unfold render_inline in H.
    assert (Hst' : forallb static_tok (children t) = true) by (apply static_kids; auto; rewrite K; exact I).
    destruct (kids_post (children t) Hall Hst' _ f ns f' H) as [Hno Hsko].
    split.
    - rewrite hr_free_kids, tshape_kids by (rewrite K; exact I). exact Hno.
    - assert (Hsk : sktok t = flat_map sktok (children t)) by (tk t; rewrite K; reflexivity).
      rewrite Hsk. exact Hsko.
  Qed.

  (* ---- elements with a text child: new_text_elem ---- *)
  Definition text_elem (o : N) (tg : str) (a : nattrs) (text : str) (n : node) (f f2 : fstate) : Prop :=
    exists f1, alloc f = Good (o, f1) /\
      ((text = [] /\ n = Elem o tg a [] /\ f2 = f1) \/
       (exists ot, alloc f1 = Good (ot, f2) /\ n = Elem o tg a [Text ot text])).

  Lemma run_new_text_elem tg a text k ctag f ns f' :
    run_f (new_text_elem tg a text k) ctag f = Some (Good (ns, f')) ->
    exists o n f2, text_elem o tg a text n f f2 /\ run_f (k n) ctag f2 = Some (Good (ns, f')).
  Proof.
    unfold new_text_elem. intro H.
    apply run_f_FOp_inv in H. destruct H as [o [f1 [Ea H]]].
    destruct (is_empty text) eqn:Ee.
    - exists o, (Elem o tg a []), f1. split; auto. exists f1. split; auto. left.
      destruct text; [auto|discriminate].
    - apply run_f_FOp_inv in H. destruct H as [ot [f2 [Eb H]]].
      exists o, (Elem o tg a [Text ot text]), f2. split; auto. exists f1. split; auto. right. eauto.
  Qed.

  Lemma text_elem_facts o tg a text n f f2 :
    text_elem o tg a text n f f2 -> plain_tag tg ->
    exists ks, n = Elem o tg a ks /\ flat_map astext ks = text /\ existsb has_dropped ks = false /\
               (forall sh hr, nodes_ok sh hr f [n] f2) /\
               (forall sh hr a' ms f3, msgs_post f2 ms f3 -> nodes_ok sh hr f [Elem o tg a' (ks ++ ms)] f3).
  Proof.
    intros [f1 [Ea [[-> [-> ->]]|[ot [Eb ->]]]]] Hp.
    - exists []. split; auto. split; auto. split; auto. split.
      + intros sh hr. eapply nodes_ok_elem; eauto. apply nodes_ok_nil. lia.
      + intros sh hr a' ms f3 Hm. eapply nodes_ok_elem; eauto. cbn [app]. apply nodes_ok_msgs. exact Hm.
    - exists [Text ot text]. split; auto. split; [cbn; apply app_nil_r|]. split; auto. split.
      + intros sh hr. eapply nodes_ok_elem; eauto. apply nodes_ok_text. exact Eb.
      + intros sh hr a' ms f3 Hm. eapply nodes_ok_elem; eauto. cbn [app].
        eapply nodes_ok_single_app; [apply nodes_ok_text; exact Eb | apply nodes_ok_msgs; exact Hm].
  Qed.

  Lemma leaf_kids t : match kind_of (ty t) with
                      | KInline | KS | KHr | KTable => False | _ => True end -> True.
  Proof. auto. Qed.

  (* tokens whose children are not rendered: hr_free / tshape speak about children all the same *)
  Lemma nodes_ok_weaken_flags f ns f' sh hr : nodes_ok true true f ns f' -> nodes_ok sh hr f ns f'.
  Proof. intro H. eapply nodes_ok_flags; eauto. Qed.

  Lemma astext_msgs ks ms : Forall regmsg ms -> flat_map astext (ks ++ ms) = flat_map astext ks.
  Proof. intro H. rewrite flat_map_app, (regmsgs_astext ms H), app_nil_r. reflexivity. Qed.

  Lemma dropped_leaf o tg a ks ms :
    str_eqb tg k_system_message = false -> existsb has_dropped ks = false -> Forall regmsg ms ->
    existsb has_dropped [Elem o tg a (ks ++ ms)] = false.
  Proof.
    intros Hs Hk Hm. rewrite has_dropped_elem by exact Hs. rewrite existsb_app, Hk, (regmsgs_not_dropped ms Hm).
    reflexivity.
  Qed.

  Lemma post_code_inline t ctag f ns f' :
    kind_of (ty t) = KCodeInline ->
    run_f (render_code_inline C OR t (map bld (children t))) ctag f = Some (Good (ns, f')) -> post t f ns f'.
  Proof.
    intros K H. unfold render_code_inline in H.
    apply run_new_text_elem in H. destruct H as [o [n [f2 [Ht H]]]].
    destruct (text_elem_facts _ _ _ _ _ _ _ Ht ltac:(plain)) as [ks [-> [Hat [Hdk [_ Hno]]]]].
    cbn [oid_of kids_of] in H.
    apply run_f_FOp_inv in H. destruct H as [[a msgs] [f3 [Ec H]]].
    apply run_f_Append_inv in H. destruct H as [ns' [-> H]].
    apply run_f_Done_inv in H. destruct H as [-> ->].
    apply copy_attributes_post in Ec. destruct Ec as [Hm _].
    split; [apply Hno; exact Hm|].
    intros _ _. unfold skel_nodes. cbn [flat_map skel_node].
    replace (nkind_of n_literal) with NLiteral by reflexivity.
    rewrite astext_msgs, Hat by (destruct Hm; auto). tk t. rewrite K. reflexivity.
  Qed.

  (* a text element appended as it is *)
  Lemma post_text_elem_leaf t tg a text sk ctag f ns f' :
    plain_tag tg -> str_eqb tg k_system_message = false ->
    (forall o ks, flat_map astext ks = text -> skel_node D (Elem o tg a ks) = sk) ->
    sktok t = sk ->
    run_f (new_text_elem tg a text (fun n => Append n Done)) ctag f = Some (Good (ns, f')) -> post t f ns f'.
  Proof.
    intros Hp Hs Hsk Ht H.
    apply run_new_text_elem in H. destruct H as [o [n [f2 [Hte H]]]].
    apply run_f_Append_inv in H. destruct H as [ns' [-> H]].
    apply run_f_Done_inv in H. destruct H as [-> ->].
    destruct (text_elem_facts _ _ _ _ _ _ _ Hte Hp) as [ks [-> [Hat [Hdk [Hno _]]]]].
    split; [apply Hno|].
    intros _ _. unfold skel_nodes. cbn [flat_map]. rewrite app_nil_r, Ht. apply Hsk. exact Hat.
  Qed.

  Lemma post_math_inline t ctag f ns f' :
    kind_of (ty t) = KMathInline \/ kind_of (ty t) = KMathSingle ->
    run_f (render_math_inline t (map bld (children t))) ctag f = Some (Good (ns, f')) -> post t f ns f'.
  Proof.
    intros K H. unfold render_math_inline in H.
    eapply (post_text_elem_leaf t n_math [] (content t) [SMath (content t)]); try exact H; try plain.
    - intros o ks Hk. cbn [skel_node]. replace (nkind_of n_math) with NMath by reflexivity. rewrite Hk. reflexivity.
    - tk t. destruct K as [K|K]; rewrite K; reflexivity.
  Qed.

  Lemma post_math_block t ctag f ns f' :
    kind_of (ty t) = KMathBlock \/ kind_of (ty t) = KMathInlineDouble ->
    run_f (render_math_block t (map bld (children t))) ctag f = Some (Good (ns, f')) -> post t f ns f'.
  Proof.
    intros K H. unfold render_math_block in H.
    eapply (post_text_elem_leaf t k_math_block math_block_attrs (content t) [SMathBlock (content t)]);
      try exact H; try plain.
    - intros o ks Hk. cbn [skel_node]. replace (nkind_of k_math_block) with NMathBlock by reflexivity.
      rewrite Hk. reflexivity.
    - tk t. destruct K as [K|K]; rewrite K; reflexivity.
  Qed.

  Lemma post_block_break t ctag f ns f' :
    kind_of (ty t) = KMystBlockBreak ->
    run_f (render_myst_block_break t (map bld (children t))) ctag f = Some (Good (ns, f')) -> post t f ns f'.
  Proof.
    intros K H. unfold render_myst_block_break in H.
    eapply (post_text_elem_leaf t n_comment _ (content t) [SComment (content t)]); try exact H; try plain.
    - intros o ks Hk. cbn [skel_node]. replace (nkind_of n_comment) with NComment by reflexivity.
      rewrite Hk. reflexivity.
    - tk t. rewrite K. reflexivity.
  Qed.

  Lemma post_line_comment t ctag f ns f' :
    kind_of (ty t) = KMystLineComment ->
    run_f (render_myst_line_comment OR t (map bld (children t))) ctag f = Some (Good (ns, f')) -> post t f ns f'.
  Proof.
    intros K H. unfold render_myst_line_comment in H.
    eapply (post_text_elem_leaf t n_comment _ (o_strip OR (content t)) [SComment (o_strip OR (content t))]);
      try exact H; try plain.
    - intros o ks Hk. cbn [skel_node]. replace (nkind_of n_comment) with NComment by reflexivity.
      rewrite Hk. reflexivity.
    - tk t. rewrite K. reflexivity.
  Qed.

  Lemma post_html t ctag f ns f' :
    kind_of (ty t) = KHtmlBlock \/ kind_of (ty t) = KHtmlInline ->
    run_f (render_html_block C OR t (map bld (children t))) ctag f = Some (Good (ns, f')) -> post t f ns f'.
  Proof.
    intros K H. unfold render_html_block in H.
    destruct (c_html_convert C); [apply run_f_Fail_inv in H; contradiction|].
    destruct (map_ t); [|apply run_f_Fail_inv in H; contradiction].
    eapply (post_text_elem_leaf t n_raw _ (html_text C OR t) [SRaw v_html (html_text C OR t)]);
      try exact H; try plain.
    - intros o ks Hk. cbn [skel_node]. replace (nkind_of n_raw) with NRaw by reflexivity.
      rewrite Hk. reflexivity.
    - tk t. destruct K as [K|K]; rewrite K; reflexivity.
  Qed.

  Lemma run_append_raws l : forall k ctag f ns f',
    run_f (append_raws l k) ctag f = Some (Good (ns, f')) ->
    exists ns1 f1 ns2, run_f k ctag f1 = Some (Good (ns2, f')) /\ ns = ns1 ++ ns2 /\
                       (forall sh hr, nodes_ok sh hr f ns1 f1) /\ skel_nodes D ns1 = raw_skels l /\
                       existsb has_dropped ns1 = false.
  Proof.
    induction l as [|[fmt txt] l IH]; intros k ctag f ns f' H; cbn [append_raws] in H.
    - exists [], f, ns. split; auto. split; auto. split; [intros; apply nodes_ok_nil; lia|]. auto.
    - apply run_new_text_elem in H. destruct H as [o [n [f2 [Hte H]]]].
      apply run_f_Append_inv in H. destruct H as [ns' [-> H]].
      apply IH in H. destruct H as [ns1 [f1 [ns2 [Hk [-> [Hno [Hsk Hd]]]]]]].
      destruct (text_elem_facts _ _ _ _ _ _ _ Hte ltac:(plain)) as [ks [-> [Hat [Hdk [Hn1 _]]]]].
      exists (Elem o n_raw [(a_format, [fmt])] ks :: ns1), f1, ns2.
      split; auto. split; auto. split; [|split].
      + intros sh hr. eapply nodes_ok_single_app; [apply Hn1 | apply Hno].
      + rewrite skel_nodes_cons, Hsk. cbn [skel_node raw_skels map fst snd].
        replace (nkind_of n_raw) with NRaw by reflexivity. rewrite Hat.
        replace (assoc a_format [(a_format, [fmt])]) with (Some [fmt]) by reflexivity. reflexivity.
      + cbn [existsb has_dropped]. rewrite Hdk, Hd. reflexivity.
  Qed.

  Lemma post_hardbreak t ctag f ns f' :
    kind_of (ty t) = KHardbreak ->
    run_f (render_hardbreak t (map bld (children t))) ctag f = Some (Good (ns, f')) -> post t f ns f'.
  Proof.
    intros K H. unfold render_hardbreak in H. rewrite gen_hardbreak in H.
    apply run_append_raws in H. destruct H as [ns1 [f1 [ns2 [Hk [-> [Hno [Hsk Hd]]]]]]].
    apply run_f_Done_inv in Hk. destruct Hk as [-> ->]. rewrite app_nil_r.
    split; [apply Hno|]. intros _ _. rewrite Hsk. tk t. rewrite K. reflexivity.
  Qed.

  Lemma post_s t ctag f ns f' :
    Forall tok_ok (children t) -> static_tok t = true -> kind_of (ty t) = KS ->
    run_f (render_s t (map bld (children t))) ctag f = Some (Good (ns, f')) -> post t f ns f'.
  Proof.
    intros Hall Hst K H. unfold render_s in H. rewrite gen_s_raws in H.
    apply run_f_FOp_inv in H. destruct H as [w [f1 [Ew H]]].
    apply run_f_Append_inv in H. destruct H as [ns' [-> H]].
    assert (Hsk : sktok t = match spec_s_raws with
                            | [r1; r2] => raw_skels [r1] ++ flat_map sktok (children t) ++ raw_skels [r2]
                            | _ => [SUnknown (ty t)]
                            end) by (tk t; rewrite K; reflexivity).
    destruct spec_s_raws as [|r1 [|r2 [|r3 rs]]]; try (apply run_f_Fail_inv in H; contradiction).
    apply run_append_raws in H. destruct H as [na [fa [nb [Hk [-> [Hnoa [Hska Hda]]]]]]].
    apply run_f_seq_inv in Hk. destruct Hk as [nk [fk [nc [Hkids [Hr2 ->]]]]].
    apply run_append_raws in Hr2. destruct Hr2 as [nd [fd [ne [Hdone [-> [Hnod [Hskd Hdd]]]]]]].
    apply run_f_Done_inv in Hdone. destruct Hdone as [-> ->]. rewrite app_nil_r.
    assert (Hst' : forallb static_tok (children t) = true) by (apply static_kids; auto; rewrite K; exact I).
    destruct (kids_post (children t) Hall Hst' _ fa nk fk Hkids) as [Hno Hsko].
    destruct (warning_node_facts _ _ _ _ Ew) as [Wo [Wn [Wt [Wr [Ws Wd]]]]].
    split.
    - rewrite hr_free_kids, tshape_kids by (rewrite K; exact I).
      eapply nodes_ok_single_app.
      + constructor.
        * unfold oids_l. cbn [flat_map]. rewrite Wo, app_nil_r. rewrite Wn. apply seg_one.
        * cbn [existsb]. rewrite Wt by reflexivity. reflexivity.
        * intros _. cbn [forallb]. rewrite Wr. reflexivity.
        * intros _. cbn [existsb]. rewrite Wt by reflexivity. reflexivity.
      + eapply nodes_ok_flags; [eapply nodes_ok_app; [apply (Hnoa true true) | eapply nodes_ok_app; [exact Hno | apply (Hnod true true)]] | |];
          intro X; rewrite X; reflexivity.
    - rewrite Hsk. intros Hy Hd. cbn [existsb] in Hd. apply orb_false_iff in Hd. destruct Hd as [_ Hd].
      rewrite !existsb_app in Hd. apply orb_false_iff in Hd. destruct Hd as [_ Hd].
      apply orb_false_iff in Hd. destruct Hd as [Hd _].
      rewrite skel_nodes_cons, Ws. cbn [app]. rewrite !skel_nodes_app, Hska, Hskd, (Hsko Hy Hd). reflexivity.
  Qed.

  Lemma alt_of_build cs : flat_map inline_as_text (map bld cs) = flat_map alt_of cs.
  Proof.
    induction cs as [|c cs IH]; cbn [map flat_map]; auto. rewrite IH. f_equal. clear IH.
    induction c as [ty0 tg0 at0 co0 mk0 in0 me0 mp0 ks IHk] using tok_ind'.
    rewrite build_eq. cbn [inline_as_text alt_of ty content children].
    destruct (kind_of ty0); try reflexivity;
      (induction IHk as [|k ks Hk _ IHks]; cbn [map flat_map]; [reflexivity | rewrite Hk, IHks; reflexivity]).
  Qed.

  Lemma post_image t ctag f ns f' :
    static_tok t = true -> kind_of (ty t) = KImage ->
    run_f (render_image C OR t (map bld (children t))) ctag f = Some (Good (ns, f')) -> post t f ns f'.
  Proof.
    intros Hst K H. unfold render_image in H.
    destruct (existsb _ _); [apply run_f_Fail_inv in H; contradiction|].
    apply run_f_FOp_inv in H. destruct H as [o [f1 [Ea H]]].
    apply run_f_FOp_inv in H. destruct H as [[a msgs] [f2 [Ec H]]].
    apply run_f_Append_inv in H. destruct H as [ns' [-> H]].
    apply run_f_Done_inv in H. destruct H as [-> ->].
    apply copy_attributes_post in Ec. destruct Ec as [Hm Ha].
    split.
    - apply nodes_ok_weaken_flags. eapply nodes_ok_elem; eauto; [plain|]. apply nodes_ok_msgs. exact Hm.
    - intros _ _. unfold skel_nodes. cbn [flat_map skel_node].
      replace (nkind_of k_image) with NImage by reflexivity.
      rewrite (Ha a_uri) by (try (intros [X|[X|[X|[]]]]; discriminate X); discriminate).
      rewrite (Ha a_alt) by (try (intros [X|[X|[X|[]]]]; discriminate X); discriminate).
      rewrite alt_of_build. tk t. rewrite K. reflexivity.
  Qed.

  (* ---- code blocks ---- *)
  Lemma run_lex_nodes l : forall acc k ctag f ns f',
    run_f (lex_nodes l acc k) ctag f = Some (Good (ns, f')) ->
    exists ks f2, run_f (k (acc ++ ks)) ctag f2 = Some (Good (ns, f')) /\
                  flat_map astext ks = flat_map snd l /\ existsb has_dropped ks = false /\
                  (forall sh hr, nodes_ok sh hr f ks f2).
  Proof.
    induction l as [|[cls v] l IH]; intros acc k ctag f ns f' H; cbn [lex_nodes] in H.
    - exists [], f. rewrite app_nil_r. split; auto. split; auto. split; auto. intros; apply nodes_ok_nil; lia.
    - destruct cls as [|c cls].
      + apply run_f_FOp_inv in H. destruct H as [o [f1 [Ea H]]].
        apply IH in H. destruct H as [ks [f2 [Hk [Hat [Hd Hno]]]]].
        exists (Text o v :: ks), f2. rewrite <- app_assoc in Hk. split; auto.
        split; [cbn [flat_map astext snd]; rewrite Hat; reflexivity|]. split; [cbn; exact Hd|].
        intros sh hr. eapply nodes_ok_single_app; [apply nodes_ok_text; exact Ea | apply Hno].
      + apply run_new_text_elem in H. destruct H as [o [n [f1 [Hte H]]]].
        apply IH in H. destruct H as [ks [f2 [Hk [Hat [Hd Hno]]]]].
        destruct (text_elem_facts _ _ _ _ _ _ _ Hte ltac:(plain)) as [ks0 [-> [Hat0 [Hd0 [Hn0 _]]]]].
        exists (Elem o k_inline [(a_classes, c :: cls)] ks0 :: ks), f2. rewrite <- app_assoc in Hk. split; auto.
        split; [cbn [flat_map astext snd]; rewrite Hat0, Hat; reflexivity|].
        split; [cbn [existsb has_dropped]; rewrite Hd0, Hd; reflexivity|].
        intros sh hr. eapply nodes_ok_single_app; [apply Hn0 | apply Hno].
  Qed.

  Definition lang_attrs (lexer : option str) : nattrs :=
    let l := match lexer with Some l => l | None => [] end in
    if is_sphinx B then [(a_language, [if is_empty l then v_none_lang else l])]
    else [(a_classes, v_code :: (if is_empty l then [] else [l]))].

  Lemma run_chcb text lexer k ctag f ns f' :
    run_f (create_highlighted_code_block B C OR text lexer k) ctag f = Some (Good (ns, f')) ->
    exists o ks f2,
      run_f (k (Elem o n_literal_block (lang_attrs lexer) ks)) ctag f2 = Some (Good (ns, f')) /\
      (O_lexer_concat -> strip1nl (flat_map astext ks) = strip1nl text) /\ existsb has_dropped ks = false /\
      (forall sh hr a' ms f3, msgs_post f2 ms f3 -> nodes_ok sh hr f [Elem o n_literal_block a' (ks ++ ms)] f3).
  Proof.
    unfold create_highlighted_code_block, lang_attrs. intro H. destruct (is_sphinx B).
    - apply run_new_text_elem in H. destruct H as [o [n [f2 [Hte H]]]].
      destruct (text_elem_facts _ _ _ _ _ _ _ Hte ltac:(plain)) as [ks [-> [Hat [Hd [_ Hno]]]]].
      exists o, ks, f2.
      assert (E : (match lexer with Some l => if is_empty l then v_none_lang else l | None => v_none_lang end)
                  = (if is_empty match lexer with Some l => l | None => [] end then v_none_lang
                     else match lexer with Some l => l | None => [] end)) by (destruct lexer; reflexivity).
      rewrite E in H. split; auto. split; [intros _; rewrite Hat; reflexivity|]. split; auto.
    - apply run_f_FOp_inv in H. destruct H as [o [f1 [Ea H]]].
      assert (G : forall toks fa, run_f (lex_nodes toks [] (fun cs => k (Elem o n_literal_block
                    [(a_classes, v_code :: (if is_empty match lexer with Some l => l | None => [] end then []
                                            else [match lexer with Some l => l | None => [] end]))] cs)))
                                   ctag fa = Some (Good (ns, f')) ->
                  nxt f1 <= nxt fa -> (O_lexer_concat -> strip1nl (flat_map snd toks) = strip1nl text) ->
                  exists o ks f2,
                    run_f (k (Elem o n_literal_block
                      [(a_classes, v_code :: (if is_empty match lexer with Some l => l | None => [] end then []
                                              else [match lexer with Some l => l | None => [] end]))] ks)) ctag f2
                      = Some (Good (ns, f')) /\
                    (O_lexer_concat -> strip1nl (flat_map astext ks) = strip1nl text) /\ existsb has_dropped ks = false /\
                    (forall sh hr a' ms f3, msgs_post f2 ms f3 ->
                                            nodes_ok sh hr f [Elem o n_literal_block a' (ks ++ ms)] f3)).
      { intros toks fa Hl Hle Hc. apply run_lex_nodes in Hl. destruct Hl as [ks [f2 [Hk [Hat [Hd Hno]]]]].
        exists o, ks, f2. cbn [app] in Hk. split; auto. split; [intro HL; rewrite Hat; exact (Hc HL)|]. split; auto.
        intros sh hr a' ms f3 Hm. eapply nodes_ok_elem; eauto; [plain|].
        eapply nodes_ok_skip_l; [exact Hle|].
        eapply nodes_ok_flags; [eapply nodes_ok_app; [apply (Hno true true) | apply (nodes_ok_msgs true true); exact Hm] | |];
          intros _; reflexivity. }
      destruct (c_highlight C).
      + destruct (o_lex OR _ text) as [toks|] eqn:El.
        * apply (G toks f1 H); [lia | intro HL; eapply HL; exact El].
        * apply run_f_FOp_inv in H. destruct H as [u [fw [Ew H]]]. apply keeps_log_warning in Ew.
          apply (G [([], text)] fw H); [lia | intros _; cbn; rewrite app_nil_r; reflexivity].
      + apply (G [([], text)] f1 H); [lia | intros _; cbn; rewrite app_nil_r; reflexivity].
  Qed.

  Lemma code_lang_after_copy t o a msgs lexer f1 f2 :
    static_tok t = true ->
    copy_attributes C OR t o n_literal_block keys_ci [] (lang_attrs lexer) f1 = Good ((a, msgs), f2) ->
    code_lang_of a = lang_carried B OR t lexer.
  Proof.
    intros Hst Ec. pose proof Ec as Ec2. apply copy_attributes_post in Ec. destruct Ec as [_ Ha].
    unfold code_lang_of, lang_carried, lang_attrs in *. unfold copy_attributes in Ec2.
    rewrite (Ha a_language) by (try (intros [X|[X|[]]]; discriminate X); discriminate).
    destruct (is_sphinx B).
    - replace (assoc a_language [(a_language, [if is_empty match lexer with Some l => l | None => [] end
                                               then v_none_lang else match lexer with Some l => l | None => [] end])])
        with (Some [if is_empty match lexer with Some l => l | None => [] end
                    then v_none_lang else match lexer with Some l => l | None => [] end]) by reflexivity.
      reflexivity.
    - replace (assoc a_language [(a_classes, v_code :: (if is_empty match lexer with Some l => l | None => [] end then []
                                                        else [match lexer with Some l => l | None => [] end]))])
        with (@None (list str)) by reflexivity.
      apply (copy_loop_classes C OR o n_literal_block keys_ci []) in Ec2;
        [ | left; reflexivity | (intros [X|[X|[]]]; discriminate X) | apply nodup_of_static; exact Hst ].
      rewrite Ec2. unfold attr_get. reflexivity.
  Qed.

  Lemma post_code_common t lexer ctag f ns f' :
    static_tok t = true ->
    sktok t = [SCode (lang_carried B OR t lexer) (strip1nl (content t))] ->
    run_f (create_highlighted_code_block B C OR (content t) lexer (fun n =>
             '(a, msgs) <- copy_attributes C OR t (oid_of n) n_literal_block keys_ci [] (attrs_of n) ;
             Append (Elem (oid_of n) n_literal_block a (kids_of n ++ msgs)) Done)) ctag f = Some (Good (ns, f')) ->
    post t f ns f'.
  Proof.
    intros Hst Hsk H.
    apply run_chcb in H. destruct H as [o [ks [f2 [H [Hat [Hd Hno]]]]]].
    cbn [oid_of kids_of attrs_of] in H.
    apply run_f_FOp_inv in H. destruct H as [[a msgs] [f3 [Ec H]]].
    apply run_f_Append_inv in H. destruct H as [ns' [-> H]].
    apply run_f_Done_inv in H. destruct H as [-> ->].
    pose proof (code_lang_after_copy t o a msgs lexer f2 f3 Hst Ec) as Hl.
    apply copy_attributes_post in Ec. destruct Ec as [Hm _].
    split; [apply Hno; exact Hm|].
    intros Hy _. rewrite Hsk. unfold skel_nodes. cbn [flat_map skel_node].
    replace (nkind_of n_literal_block) with NLiteralBlock by reflexivity.
    rewrite astext_msgs by (destruct Hm; auto). rewrite Hl, (Hat (proj1 Hy)). reflexivity.
  Qed.

  Lemma post_code_block t ctag f ns f' :
    static_tok t = true -> kind_of (ty t) = KCodeBlock ->
    run_f (render_code_block B C OR t (map bld (children t))) ctag f = Some (Good (ns, f')) -> post t f ns f'.
  Proof.
    intros Hst K H. unfold render_code_block in H.
    destruct (negb (code_attrs_static t)); [apply run_f_Fail_inv in H; contradiction|].
    assert (Hsk : sktok t = [SCode (lang_carried B OR t (code_block_lexer OR t)) (strip1nl (content t))])
      by (tk t; rewrite K; reflexivity).
    unfold code_block_lexer in Hsk.
    destruct (is_empty (info t)).
    - eapply post_code_common; eauto.
    - destruct (o_split OR (info t)) as [|w ws]; [apply run_f_Fail_inv in H; contradiction|].
      eapply post_code_common; eauto.
  Qed.

  Lemma run_append_all ms : forall k ctag f ns f',
    run_f (append_all ms k) ctag f = Some (Good (ns, f')) ->
    exists ns', ns = ms ++ ns' /\ run_f k ctag f = Some (Good (ns', f')).
  Proof.
    induction ms as [|m ms IH]; intros k ctag f ns f' H; cbn [append_all] in H.
    - exists ns. auto.
    - apply run_f_Append_inv in H. destruct H as [ns1 [-> H]]. apply IH in H.
      destruct H as [ns2 [-> H]]. exists ns2. auto.
  Qed.

  (* ---- dynamic syntax: the nodes of the run, renumbered, at the position of the token ---- *)
  Lemma post_dyn_splice t key img ctag f ns f' :
    dyn_key C OR t = DKey key -> sktok t = dyn_skel D B C OR t img ->
    run_f (dyn_splice B OR key) ctag f = Some (Good (ns, f')) -> post t f ns f'.
  Proof.
    intros Hk Hsk H. unfold dyn_splice in H.
    destruct (o_dyn OR (dyn_full_key B key)) as [[ns0 ws]|] eqn:Eo; [|apply run_f_Fail_inv in H; contradiction].
    destruct (forallb dyn_node_ok ns0) eqn:Eok; [|apply run_f_Fail_inv in H; contradiction].
    apply run_f_FOp_inv in H. destruct H as [u [f1 [El H]]]. apply keeps_log_warnings in El.
    apply run_f_FOp_inv in H. destruct H as [ns1 [f2 [Er H]]].
    apply run_append_all in H. destruct H as [ns' [-> H]]. apply run_f_Done_inv in H. destruct H as [-> ->].
    rewrite app_nil_r.
    unfold relabel_all in Er. destruct (relabel_list ns0 (nxt f1)) as [l' c'] eqn:E.
    inversion Er; subst ns1 f2.
    pose proof (relabel_list_dyn_ok _ _ _ _ E Eok) as Hok'. apply dyn_oks_facts in Hok'.
    destruct Hok' as [A1 [A2 A3]].
    apply relabel_list_spec in E. destruct E as [S Ee].
    split.
    - constructor; auto. replace (nxt (set_nxt f1 c')) with c' by reflexivity. rewrite <- El. exact S.
    - rewrite Hsk. unfold dyn_skel. rewrite Hk, Eo. intros _ _. apply skel_nodes_same_shape. exact Ee.
  Qed.

  Lemma post_fence t ctag f ns f' :
    static_tok t = true -> kind_of (ty t) = KFence ->
    run_f (render_fence B C OR t (map bld (children t))) ctag f = Some (Good (ns, f')) -> post t f ns f'.
  Proof.
    intros Hst K H. unfold render_fence in H.
    destruct (negb (code_attrs_static t)); [apply run_f_Fail_inv in H; contradiction|].
    assert (Hsk0 : forall img, sktok t = dyn_skel D B C OR t img -> True) by auto.
    assert (Hsk1 : sktok t = dyn_skel D B C OR t
                     [SCode (lang_carried B OR t (Some (fence_name B C OR t))) (strip1nl (content t))])
      by (tk t; rewrite K; reflexivity).
    pose proof Hsk1 as Hsk2. unfold dyn_skel in Hsk1.
    assert (Hdk : dyn_key C OR t =
                  match c_mode C with
                  | Myst => if str_eqb (info_name OR t) v_eval_rst then DUnsupported
                            else if braced (info_name OR t)
                                 then DKey [v_directive; strip_braces (info_name OR t); info_arguments OR t; content t]
                                 else DStatic
                  | _ => DStatic
                  end) by (unfold dyn_key; rewrite K; reflexivity).
    change (match o_split OR (o_strip OR (info t)) with w :: _ => w | [] => [] end) with (info_name OR t) in H.
    change (directive_arguments OR (info t)) with (info_arguments OR t) in H.
    destruct (c_mode C) eqn:Em; cbn [andb] in H.
    - rewrite Hdk in Hsk1. eapply post_code_common; eauto.
    - rewrite Hdk in Hsk1. eapply post_code_common; eauto.
    - destruct (str_eqb (info_name OR t) v_eval_rst); [apply run_f_Fail_inv in H; contradiction|].
      unfold braced in Hdk.
      destruct (starts_brace (info_name OR t) && ends_brace (info_name OR t)) eqn:Eb.
      + eapply post_dyn_splice; [exact Hdk | exact Hsk2 | ].
        exact H.
      + rewrite Hdk in Hsk1.
        assert (H' : run_f
                  (create_highlighted_code_block B C OR (content t)
                     (Some (if is_empty (info_name OR t) && is_sphinx B then c_highlight_language C
                            else info_name OR t))
                     (fun n =>
                      ' (a, msgs) <- copy_attributes C OR t (oid_of n) n_literal_block keys_ci [] (attrs_of n);
                      Append (Elem (oid_of n) n_literal_block a (kids_of n ++ msgs)) Done)) ctag f =
                  Some (Good (ns, f'))).
        { exact H. }
        eapply post_code_common; eauto.
  Qed.

  (* ---- links ---- *)
  Lemma sktok_link t : kind_of (ty t) = KLink ->
    sktok t = [SBox (CLink (D (href_of t))) (flat_map sktok (children t))].
  Proof. intro K. tk t. rewrite K. reflexivity. Qed.

  Lemma link_kids t : kind_of (ty t) = KLink -> Forall tok_ok (children t) -> static_tok t = true ->
    forall ctag f cs f', run_f (render_children (map bld (children t))) ctag f = Some (Good (cs, f')) ->
    nodes_ok (tshape t) (hr_free t) f cs f' /\ skel_ok (flat_map sktok (children t)) cs.
  Proof.
    intros K Hall Hst ctag f cs f' H.
    assert (Hst' : forallb static_tok (children t) = true) by (apply static_kids; auto; rewrite K; exact I).
    rewrite hr_free_kids, tshape_kids by (rewrite K; exact I).
    exact (kids_post (children t) Hall Hst' ctag f cs f' H).
  Qed.

  Lemma skel_reference o a msgs cs sk dest :
    (Hyps -> D (link_dest_of a) = D dest) -> Forall regmsg msgs -> skel_ok sk cs ->
    skel_ok [SBox (CLink (D dest)) sk] [Elem o n_reference a (msgs ++ cs)].
  Proof.
    intros Hd Hm Hk Hy. rewrite <- (Hd Hy). revert Hy.
    apply (skel_elem_msgs o n_reference a msgs cs sk (fun x => [SBox (CLink (D (link_dest_of a))) x])); auto.
  Qed.

  Lemma post_link_url t ctag f ns f' :
    kind_of (ty t) = KLink -> Forall tok_ok (children t) -> static_tok t = true ->
    run_f (render_link_url C OR t (map bld (children t))) ctag f = Some (Good (ns, f')) -> post t f ns f'.
  Proof.
    intros K Hall Hst H. unfold render_link_url in H.
    apply run_f_FOp_inv in H. destruct H as [o [f1 [Ea H]]].
    apply run_f_FOp_inv in H. destruct H as [[a msgs] [f2 [Ec H]]].
    apply run_f_FOp_inv in H. destruct H as [u [f3 [Er H]]]. apply keeps_set_refuri in Er.
    apply run_f_Ctx_inv in H. destruct H as [cs [f4 [ns' [Hb [Hd ->]]]]].
    apply run_f_Done_inv in Hd. destruct Hd as [-> ->].
    apply copy_attributes_post in Ec. destruct Ec as [Hm _].
    destruct (link_kids t K Hall Hst _ _ _ _ Hb) as [Hno Hsko].
    split.
    - eapply (nodes_ok_container _ _ f o f1 n_reference _ msgs f3 cs f4 Ea);
        [ eapply msgs_post_keep; [exact Hm | exact Er] | exact Hno | plain ].
    - rewrite (sktok_link t K). apply skel_reference; auto; [|destruct Hm; auto].
      intros _. unfold link_dest_of. rewrite assoc_aset_same. reflexivity.
  Qed.

  Lemma post_link_anchor t ctag f ns f' :
    kind_of (ty t) = KLink -> Forall tok_ok (children t) -> static_tok t = true ->
    str_eqb (info t) v_auto = false ->
    run_f (render_link_anchor C OR t (map bld (children t)) (href_of t)) ctag f = Some (Good (ns, f')) ->
    post t f ns f'.
  Proof.
    intros K Hall Hst Hauto H. unfold render_link_anchor in H.
    apply run_f_FOp_inv in H. destruct H as [o [f1 [Ea H]]].
    apply run_f_FOp_inv in H. destruct H as [u [f2 [Er H]]]. apply keeps_set_refuri in Er.
    apply run_f_FOp_inv in H. destruct H as [[a msgs] [f3 [Ec H]]].
    rewrite Hauto in H.
    apply run_f_Ctx_inv in H. destruct H as [cs [f4 [ns' [Hb [Hd ->]]]]].
    apply run_f_Done_inv in Hd. destruct Hd as [-> ->].
    apply copy_attributes_post in Ec. destruct Ec as [Hm Ha].
    destruct (link_kids t K Hall Hst _ _ _ _ Hb) as [Hno Hsko].
    split.
    - eapply (nodes_ok_container _ _ f o f1 n_reference _ msgs f3 cs f4 Ea);
        [ eapply msgs_post_keep_l; [exact Er | exact Hm] | exact Hno | plain ].
    - rewrite (sktok_link t K). apply skel_reference; auto; [|destruct Hm; auto].
      intros [_ [HC _]]. unfold link_dest_of.
      rewrite (Ha a_refuri) by (try (intros [X|[X|[X|[]]]]; discriminate X); discriminate).
      replace (assoc a_refuri [(a_id_link, [v_true]); (a_refuri, [o_nlt OR (href_of t)])])
        with (Some [o_nlt OR (href_of t)]) by reflexivity.
      apply HC.
  Qed.

  (* SphinxRenderer._process_wrap_node: the wrap node with its (possibly empty) inner node *)
  Lemma wrap_struct t :
    kind_of (ty t) = KLink -> Forall tok_ok (children t) -> static_tok t = true ->
    str_eqb (info t) v_auto = false ->
    forall o tg a0 cls pd ctag f f1 ns f',
    alloc f = Good (o, f1) -> plain_tag tg ->
    run_f (process_wrap_node C OR t (map bld (children t)) o tg a0 cls pd) ctag f1 = Some (Good (ns, f')) ->
    nodes_ok (tshape t) (hr_free t) f ns f' /\
    (tg = n_pending_xref ->
     (forall a, (forall k, ~ In k [a_class; a_id; a_title] -> k <> a_classes -> assoc k a = assoc k a0) ->
                Hyps -> D (link_dest_of a) = D (href_of t)) ->
     skel_ok [SBox (CLink (D (href_of t))) (flat_map sktok (children t))] ns).
  Proof.
    intros K Hall Hst Hauto o tg a0 cls pd ctag f f1 ns f' Ea Hp H. unfold process_wrap_node in H.
    apply run_f_FOp_inv in H. destruct H as [[a msgs] [f2 [Ec H]]].
    apply copy_attributes_post in Ec. destruct Ec as [Hm Ha].
    assert (Hx : forall inner_kids oi cls' sk,
               tg = n_pending_xref -> (Hyps -> D (link_dest_of a) = D (href_of t)) ->
               skel_ok sk inner_kids ->
               skel_ok [SBox (CLink (D (href_of t))) sk]
                       [Elem o tg a (msgs ++ [Elem oi k_inline [(a_classes, cls')] inner_kids])]).
    { intros ik oi cls' sk -> Hdest Hk Hy Hd. rewrite <- (Hdest Hy).
      rewrite has_dropped_elem in Hd by reflexivity. rewrite existsb_app in Hd.
      apply orb_false_iff in Hd. destruct Hd as [_ Hd]. rewrite has_dropped_elem in Hd by reflexivity.
      unfold skel_nodes. cbn [flat_map skel_node].
      replace (nkind_of n_pending_xref) with NXref by reflexivity. rewrite app_nil_r. f_equal. f_equal.
      rewrite flat_map_app. cbn [flat_map]. rewrite app_nil_r.
      replace (nkind_of k_inline) with (NBox CSpan) by reflexivity.
      assert (Hms : flat_map (fun c => match c with
                                       | Text _ _ => skel_node D c
                                       | Elem _ tg' _ cs' =>
                                           match nkind_of tg' with
                                           | NBox CSpan => flat_map (skel_node D) cs'
                                           | NLiteral => []
                                           | _ => skel_node D c
                                           end
                                       end) msgs = []).
      { destruct Hm as [Hm _]. clear -Hm. induction Hm as [|m ms Hmm _ IH]; cbn [flat_map]; auto.
        rewrite IH, app_nil_r. destruct Hmm as [om [lv [tag [-> _]]]]. reflexivity. }
      rewrite Hms. cbn [app]. exact (Hk Hy Hd). }
    destruct (explicit_link t (map bld (children t))) eqn:Eex.
    - apply run_f_FOp_inv in H. destruct H as [oi [f3 [Eb H]]].
      apply run_f_Detached_inv in H. destruct H as [cs [f4 [Hb H]]].
      apply run_f_Append_inv in H. destruct H as [ns' [-> H]].
      apply run_f_Done_inv in H. destruct H as [-> ->].
      destruct (link_kids t K Hall Hst _ _ _ _ Hb) as [Hno Hsko].
      split.
      + eapply nodes_ok_container; eauto. eapply nodes_ok_elem; eauto. plain.
      + intros Htg Hdest. cbn [app]. apply Hx; auto.
    - assert (Hnil : children t = []).
      { unfold explicit_link in Eex. rewrite Hauto in Eex. cbn [negb andb] in Eex.
        destruct (children t); [reflexivity|discriminate]. }
      destruct (str_eqb tg n_download_reference) eqn:Edl.
      + apply run_new_text_elem in H. destruct H as [oi [inner [f3 [Hte H]]]].
        apply run_f_Append_inv in H. destruct H as [ns' [-> H]].
        apply run_f_Done_inv in H. destruct H as [-> ->].
        destruct (text_elem_facts _ _ _ _ _ _ _ Hte ltac:(plain)) as [ks [-> [Hat [Hdk [Hn1 _]]]]].
        split.
        * rewrite hr_free_kids, tshape_kids by (rewrite K; exact I). rewrite Hnil. cbn [forallb].
          eapply nodes_ok_container; eauto.
        * intros Htg _. subst tg. discriminate Edl.
      + apply run_f_FOp_inv in H. destruct H as [oi [f3 [Eb H]]].
        apply run_f_Append_inv in H. destruct H as [ns' [-> H]].
        apply run_f_Done_inv in H. destruct H as [-> ->].
        split.
        * rewrite hr_free_kids, tshape_kids by (rewrite K; exact I). rewrite Hnil. cbn [forallb].
          eapply nodes_ok_container; eauto.
          eapply nodes_ok_elem; eauto; [plain|]. apply nodes_ok_nil. lia.
        * intros Htg Hdest. rewrite Hnil. cbn [flat_map]. apply Hx; auto. apply skel_ok_nil.
  Qed.

  Lemma post_link_unknown t ctag f ns f' :
    kind_of (ty t) = KLink -> Forall tok_ok (children t) -> static_tok t = true ->
    str_eqb (info t) v_auto = false ->
    run_f (render_link_unknown B C OR t (map bld (children t))) ctag f = Some (Good (ns, f')) -> post t f ns f'.
  Proof.
    intros K Hall Hst Hauto H. unfold render_link_unknown in H. destruct (is_sphinx B).
    - destruct (split_hash (o_nlt OR (href_of t)) []) as [pd pid].
      apply run_f_FOp_inv in H. destruct H as [o [f1 [Ea H]]].
      destruct (o_path2doc OR pd) as [[docname|]|] eqn:Epd.
      + destruct (wrap_struct t K Hall Hst Hauto o n_pending_xref _ _ _ _ _ _ _ _ Ea ltac:(plain) H) as [Hno _].
        split; [exact Hno|]. intros [_ [_ HF]]. destruct (HF pd) as [HF1 _]. rewrite HF1 in Epd. discriminate Epd.
      + destruct (wrap_struct t K Hall Hst Hauto o n_download_reference _ _ _ _ _ _ _ _ Ea ltac:(plain) H) as [Hno _].
        split; [exact Hno|]. intros [_ [_ HF]]. destruct (HF pd) as [HF1 _]. rewrite HF1 in Epd. discriminate Epd.
      + destruct (match pid with Some _ => o_docjoin OR pd | None => None end) as [docname|] eqn:Edj.
        { destruct (wrap_struct t K Hall Hst Hauto o n_pending_xref _ _ _ _ _ _ _ _ Ea ltac:(plain) H) as [Hno _].
          split; [exact Hno|]. intros [_ [_ HF]]. destruct (HF pd) as [_ HF2].
          destruct pid; [rewrite HF2 in Edj|]; discriminate Edj. }
        destruct (wrap_struct t K Hall Hst Hauto o n_pending_xref _ _ _ _ _ _ _ _ Ea ltac:(plain) H) as [Hno Hsk].
        split; [exact Hno|]. rewrite (sktok_link t K). apply Hsk; [reflexivity|].
        intros a Ha [_ [HC _]]. unfold link_dest_of.
        rewrite (Ha a_refuri) by (try (intros [X|[X|[X|[]]]]; discriminate X); discriminate).
        rewrite (Ha a_refname) by (try (intros [X|[X|[X|[]]]]; discriminate X); discriminate).
        rewrite (Ha a_reftarget) by (try (intros [X|[X|[X|[]]]]; discriminate X); discriminate).
        unfold xref_attrs.
        match goal with |- D (match assoc a_refuri ?l with _ => _ end) = _ =>
          replace (assoc a_refuri l) with (@None (list str)) by reflexivity;
          replace (assoc a_refname l) with (@None (list str)) by reflexivity;
          replace (assoc a_reftarget l) with (Some [o_nlt OR (href_of t)]) by reflexivity
        end. apply HC.
    - apply run_f_FOp_inv in H. destruct H as [o [f1 [Ea H]]].
      apply run_f_FOp_inv in H. destruct H as [[a msgs] [f2 [Ec H]]].
      apply run_f_Ctx_inv in H. destruct H as [cs [f4 [ns' [Hb [Hd ->]]]]].
      apply run_f_Done_inv in Hd. destruct Hd as [-> ->].
      apply copy_attributes_post in Ec. destruct Ec as [Hm Ha].
      destruct (link_kids t K Hall Hst _ _ _ _ Hb) as [Hno Hsko].
      split.
      + eapply nodes_ok_container; eauto. plain.
      + rewrite (sktok_link t K). apply skel_reference; auto; [|destruct Hm; auto].
        intros _. unfold link_dest_of.
        rewrite assoc_aset_other by discriminate.
        rewrite (Ha a_refuri) by (try (intros [X|[X|[X|[]]]]; discriminate X); discriminate).
        cbn [assoc]. rewrite assoc_aset_same. reflexivity.
  Qed.

  Lemma link_static_of t : static_tok t = true -> kind_of (ty t) = KLink -> link_static t = true.
  Proof.
    intros H K. rewrite static_tok_eq, K in H. apply andb_true_iff in H. destruct H as [H _].
    apply andb_true_iff in H. destruct H as [_ H]. exact H.
  Qed.

  Lemma post_link t ctag f ns f' :
    kind_of (ty t) = KLink -> Forall tok_ok (children t) -> static_tok t = true ->
    run_f (render_link B C OR t (map bld (children t))) ctag f = Some (Good (ns, f')) -> post t f ns f'.
  Proof.
    intros K Hall Hst H. unfold render_link in H.
    pose proof (link_static_of t Hst K) as Hls. unfold link_static in Hls.
    apply andb_true_iff in Hls. destruct Hls as [Hl1 Hl2].
    assert (Hauto : In LT_auto link_dispatch \/ str_eqb (info t) v_auto = false)
      by (left; unfold link_dispatch; simpl; tauto).
    revert Hauto H. generalize link_dispatch. intro l.
    induction l as [|lt l IH]; intros Hauto H; cbn [link_dispatch_loop] in H.
    - destruct Hauto as [[]|Hauto]. eapply post_link_unknown; eauto.
    - destruct (link_test_apply B C OR lt t (map bld (children t))) as [p|] eqn:E.
      + clear IH. unfold link_test_apply in E. destruct lt.
        * destruct (_ || _); inversion E; subst. eapply post_link_url; eauto.
        * destruct (attr_get t a_class); [|discriminate].
          destruct (mem_str _ _); inversion E; subst. eapply post_link_url; eauto.
        * destruct (startswith (href_of t) [35]) eqn:Es; inversion E; subst.
          eapply post_link_anchor; eauto.
          destruct (str_eqb (info t) v_auto); [discriminate|reflexivity].
        * destruct (scheme_of (href_of t)); [|discriminate].
          destruct (mem_str _ _); inversion E; subst. eapply post_link_url; eauto.
        * destruct (scheme_of (href_of t)); [|discriminate].
          destruct (str_eqb s v_inv); inversion E; subst. apply run_f_Fail_inv in H. contradiction.
        * destruct (scheme_of (href_of t)); [|discriminate].
          destruct (str_eqb s v_path) eqn:Ep; inversion E; subst.
          destruct (str_eqb s v_inv), (str_eqb s v_project); discriminate Hl2.
        * destruct (scheme_of (href_of t)); [|discriminate].
          destruct (str_eqb s v_project) eqn:Ep; inversion E; subst.
          destruct (str_eqb s v_inv), (str_eqb s v_path); discriminate Hl2.
        * destruct (str_eqb (info t) v_auto); inversion E; subst. eapply post_link_url; eauto.
      + apply IH; auto. destruct Hauto as [[->|Hin]|Hauto]; auto.
        unfold link_test_apply in E. destruct (str_eqb (info t) v_auto); [discriminate|auto].
  Qed.

  (* ---- tables ---- *)
  Definition all_tag (tg : str) (ns : list node) : Prop := Forall (fun n => tag_of n = tg) ns.

  Lemma count_tag_all tg ns : all_tag tg ns -> count_tag tg ns = length ns.
  Proof.
    intro H. unfold count_tag. induction H as [|n ns Hn _ IH]; cbn [filter length]; auto.
    rewrite Hn, str_eqb_refl. cbn [length]. rewrite IH. reflexivity.
  Qed.

  Lemma count_tag_none tg tg' ns : all_tag tg' ns -> str_eqb tg' tg = false -> count_tag tg ns = O.
  Proof.
    intros H Hne. unfold count_tag. induction H as [|n ns Hn _ IH]; cbn [filter length]; auto.
    rewrite Hn, Hne. exact IH.
  Qed.

  Definition cell_skel (c : tok) : list skel :=
    [SBox (CCell (align_of c)) [SBox CParagraph (flat_map sktok (children c))]].

  Lemma post_table_cell c ctag f ns f' :
    Forall tok_ok (children c) -> forallb static_tok (children c) = true ->
    run_f (render_table_cell (bld c)) ctag f = Some (Good (ns, f')) ->
    nodes_ok (forallb tshape (children c)) (forallb hr_free (children c)) f ns f' /\
    skel_ok (cell_skel c) ns /\ all_tag n_entry ns /\ length ns = 1%nat.
  Proof.
    intros Hall Hst H. unfold render_table_cell in H. rewrite rt_kids_build, rt_tok_build, gen_table_align in H.
    apply run_f_FOp_inv in H. destruct H as [oe [f1 [Ea H]]].
    apply run_f_FOp_inv in H. destruct H as [op [f2 [Eb H]]].
    apply run_f_Ctx_inv in H. destruct H as [ecs [f3 [ns' [Hb [Hd ->]]]]].
    apply run_f_Done_inv in Hd. destruct Hd as [-> ->].
    apply run_f_Ctx_inv in Hb. destruct Hb as [cs [f4 [ns'' [Hk [Hd ->]]]]].
    apply run_f_Done_inv in Hd. destruct Hd as [-> ->].
    destruct (kids_post (children c) Hall Hst _ _ _ _ Hk) as [Hno Hsko].
    cbn [app]. split; [|split; [|split]].
    - eapply nodes_ok_elem; [exact Ea | plain |].
      eapply nodes_ok_elem; [exact Eb | plain | exact Hno].
    - intros Hy Hd. rewrite has_dropped_elem in Hd by reflexivity. rewrite has_dropped_elem in Hd by reflexivity.
      unfold skel_nodes, cell_skel. cbn [flat_map skel_node].
      replace (nkind_of n_entry) with NEntry by reflexivity.
      replace (nkind_of k_paragraph) with (NBox CParagraph) by reflexivity.
      rewrite !app_nil_r. change (flat_map (skel_node D) cs) with (skel_nodes D cs). rewrite (Hsko Hy Hd).
      f_equal. f_equal. f_equal. unfold align_of.
      destruct (attr_get c a_style) as [st|]; [|reflexivity].
      destruct (assoc st spec_align); reflexivity.
    - constructor; [reflexivity|constructor].
    - reflexivity.
  Qed.

  Lemma post_table_cells cs : forall ctag f ns f',
    Forall (fun c => Forall tok_ok (children c) /\ forallb static_tok (children c) = true) cs ->
    run_f (seq_all (map render_table_cell (map bld cs))) ctag f = Some (Good (ns, f')) ->
    nodes_ok (forallb (fun c => forallb tshape (children c)) cs) (forallb (fun c => forallb hr_free (children c)) cs) f ns f' /\
    skel_ok (flat_map cell_skel cs) ns /\ all_tag n_entry ns /\ length ns = length cs.
  Proof.
    induction cs as [|c cs IH]; intros ctag f ns f' Hall H; cbn [map seq_all] in H.
    - inversion H; subst. split; [apply nodes_ok_nil; lia|]. split; [apply skel_ok_nil|]. split; [constructor|reflexivity].
    - inversion Hall as [|? ? [Hc1 Hc2] Hcs]; subst.
      apply run_f_seq_inv in H. destruct H as [n1 [f1 [n2 [H1 [H2 ->]]]]].
      destruct (post_table_cell c _ _ _ _ Hc1 Hc2 H1) as [A1 [A2 [A3 A4]]].
      destruct (IH _ _ _ _ Hcs H2) as [B1 [B2 [B3 B4]]].
      split; [cbn [forallb]; eapply nodes_ok_app; eauto|].
      split; [cbn [flat_map]; apply skel_ok_app; auto|].
      split; [apply Forall_app; auto|]. rewrite app_length, A4, B4. reflexivity.
  Qed.

  Definition row_skel (r : tok) : list skel := [SBox CRow (flat_map cell_skel (children r))].

  Definition cells_ok (r : tok) : Prop :=
    Forall (fun c => Forall tok_ok (children c) /\ forallb static_tok (children c) = true) (children r).

  Lemma post_table_row r ctag f ns f' :
    cells_ok r ->
    run_f (render_table_row (bld r)) ctag f = Some (Good (ns, f')) ->
    exists o cells, ns = [Elem o n_row [] cells] /\
      nodes_ok (forallb (fun c => forallb tshape (children c)) (children r))
               (forallb (fun c => forallb hr_free (children c)) (children r)) f ns f' /\
      skel_ok (row_skel r) ns /\ count_tag n_entry cells = length (children r).
  Proof.
    intros Hall H. unfold render_table_row in H. rewrite rt_kids_build in H.
    apply run_f_FOp_inv in H. destruct H as [o [f1 [Ea H]]].
    apply run_f_Ctx_inv in H. destruct H as [cells [f2 [ns' [Hb [Hd ->]]]]].
    apply run_f_Done_inv in Hd. destruct Hd as [-> ->].
    destruct (post_table_cells (children r) _ _ _ _ Hall Hb) as [A1 [A2 [A3 A4]]].
    exists o, cells. cbn [app]. split; auto. split; [|split].
    - eapply nodes_ok_elem; [exact Ea | plain | exact A1].
    - intros Hy Hd. rewrite has_dropped_elem in Hd by reflexivity.
      unfold skel_nodes, row_skel. cbn [flat_map skel_node].
      replace (nkind_of n_row) with (NBox CRow) by reflexivity. rewrite app_nil_r.
      change (flat_map (skel_node D) cells) with (skel_nodes D cells). rewrite (A2 Hy Hd). reflexivity.
    - rewrite (count_tag_all _ _ A3). exact A4.
  Qed.

  Lemma post_table_rows rs : forall ncols ctag f ns f',
    Forall cells_ok rs ->
    run_f (seq_all (map render_table_row (map bld rs))) ctag f = Some (Good (ns, f')) ->
    nodes_ok (forallb (fun r => forallb (fun c => forallb tshape (children c)) (children r)) rs)
             (forallb (fun r => forallb (fun c => forallb hr_free (children c)) (children r)) rs) f ns f' /\
    skel_ok (flat_map row_skel rs) ns /\
    (forallb (fun r => Nat.eqb (length (children r)) ncols) rs = true -> forallb (row_ok ncols) ns = true).
  Proof.
    induction rs as [|r rs IH]; intros ncols ctag f ns f' Hall H; cbn [map seq_all] in H.
    - inversion H; subst. split; [apply nodes_ok_nil; lia|]. split; [apply skel_ok_nil|]. reflexivity.
    - inversion Hall as [|? ? Hr Hrs]; subst.
      apply run_f_seq_inv in H. destruct H as [n1 [f1 [n2 [H1 [H2 ->]]]]].
      destruct (post_table_row r _ _ _ _ Hr H1) as [o [cells [-> [A1 [A2 A3]]]]].
      destruct (IH ncols _ _ _ _ Hrs H2) as [B1 [B2 B3]].
      split; [cbn [forallb]; eapply nodes_ok_app; eauto|].
      split; [cbn [flat_map]; apply skel_ok_app; auto|].
      intro Hn. cbn [forallb] in Hn. apply andb_true_iff in Hn. destruct Hn as [Hn1 Hn2].
      cbn [app forallb]. rewrite (B3 Hn2), andb_true_r. unfold row_ok. cbn [tag_of kids_of].
      rewrite str_eqb_refl. cbn [negb orb]. rewrite A3. exact Hn1.
  Qed.

  Lemma run_colspecs n w : forall k ctag f ns f',
    run_f (colspecs n w k) ctag f = Some (Good (ns, f')) ->
    exists cols f1 ns2, run_f k ctag f1 = Some (Good (ns2, f')) /\ ns = cols ++ ns2 /\
      all_tag n_colspec cols /\ length cols = n /\ (forall sh hr, nodes_ok sh hr f cols f1) /\
      skel_nodes D cols = [] /\ existsb has_dropped cols = false.
  Proof.
    induction n as [|n IH]; intros k ctag f ns f' H; cbn [colspecs] in H.
    - exists [], f, ns. split; auto. split; auto. split; [constructor|]. split; auto.
      split; [intros; apply nodes_ok_nil; lia|]. auto.
    - apply run_f_FOp_inv in H. destruct H as [o [f1 [Ea H]]].
      apply run_f_Append_inv in H. destruct H as [ns' [-> H]].
      apply IH in H. destruct H as [cols [f2 [ns2 [Hk [-> [Ht [Hl [Hno [Hsk Hd]]]]]]]]].
      exists (Elem o n_colspec [(a_colwidth, [show w])] [] :: cols), f2, ns2.
      split; auto. split; auto. split; [constructor; auto|]. split; [cbn; rewrite Hl; reflexivity|].
      split; [|split].
      + intros sh hr. eapply nodes_ok_single_app; [|apply Hno].
        eapply nodes_ok_elem; [exact Ea | plain | apply nodes_ok_nil; lia].
      + rewrite skel_nodes_cons, Hsk. reflexivity.
      + cbn [existsb has_dropped]. rewrite Hd. reflexivity.
  Qed.

  Lemma sktok_cell c : cell_static c = true -> sktok c = cell_skel c.
  Proof. unfold cell_static. intro H. tk c. destruct (kind_of ty0); try discriminate; reflexivity. Qed.

  Lemma sktok_row r : row_static r = true -> sktok r = row_skel r.
  Proof.
    unfold row_static, row_skel. intro H. destruct (kind_of (ty r)) eqn:K; try discriminate.
    assert (E : flat_map sktok (children r) = flat_map cell_skel (children r)).
    { induction (children r) as [|c cs IH]; cbn [flat_map forallb] in *; auto.
      apply andb_true_iff in H. destruct H as [H1 H2]. rewrite (sktok_cell c H1), (IH H2). reflexivity. }
    rewrite <- E. tk r. rewrite K. reflexivity.
  Qed.

  Lemma sktok_rows rs : forallb row_static rs = true -> flat_map sktok rs = flat_map row_skel rs.
  Proof.
    induction rs as [|r rs IH]; cbn [flat_map forallb]; auto. intro H. apply andb_true_iff in H.
    destruct H as [H1 H2]. rewrite (sktok_row r H1), (IH H2). reflexivity.
  Qed.

  (* flags and static-ness of the cells of a row *)
  Lemma row_flags r (g : tok -> bool) :
    (forall t, g t = match kind_of (ty t) with KHr => false | _ => true end && forallb g (children t)) \/
    (forall t, g t = match kind_of (ty t) with KTable => table_rows_match (children t) | _ => true end && forallb g (children t)) ->
    row_static r = true -> g r = true -> forallb (fun c => forallb g (children c)) (children r) = true.
  Proof.
    intros Hg Hs Hr. unfold row_static in Hs. destruct (kind_of (ty r)) eqn:K; try discriminate.
    assert (Hk : forallb g (children r) = true).
    { destruct Hg as [Hg|Hg]; rewrite Hg, K in Hr; exact Hr. }
    clear Hr. induction (children r) as [|c cs IH]; cbn [forallb] in *; auto.
    apply andb_true_iff in Hs. destruct Hs as [Hs1 Hs2]. apply andb_true_iff in Hk. destruct Hk as [Hk1 Hk2].
    rewrite (IH Hs2 Hk2), andb_true_r. unfold cell_static in Hs1.
    destruct Hg as [Hg|Hg]; rewrite Hg in Hk1; destruct (kind_of (ty c)); try discriminate; exact Hk1.
  Qed.

  Lemma row_cells_ok r : all_sub tok_ok r -> static_tok r = true -> row_static r = true -> cells_ok r.
  Proof.
    intros Ha Hst Hs. unfold cells_ok. unfold row_static in Hs. destruct (kind_of (ty r)) eqn:K; try discriminate.
    pose proof (all_sub_kids _ _ Ha) as Hk.
    assert (Hsk : forallb static_tok (children r) = true) by (apply static_kids; auto; rewrite K; exact I).
    clear Ha Hst. induction Hk as [|c cs Hc _ IH]; cbn [forallb] in *; constructor.
    - apply andb_true_iff in Hs. destruct Hs as [Hs1 _]. apply andb_true_iff in Hsk. destruct Hsk as [Hsk1 _].
      split; [apply all_sub_kids_here; exact Hc|]. apply static_kids; auto.
      unfold cell_static in Hs1. destruct (kind_of (ty c)); try discriminate; exact I.
    - apply andb_true_iff in Hs. destruct Hs as [_ Hs2]. apply andb_true_iff in Hsk. destruct Hsk as [_ Hsk2]. auto.
  Qed.

  Lemma rows_cells_ok rs : Forall (all_sub tok_ok) rs -> forallb static_tok rs = true ->
                           forallb row_static rs = true -> Forall cells_ok rs.
  Proof.
    intro H. induction H as [|r rs Hr _ IH]; cbn [forallb]; intros H1 H2; constructor.
    - apply andb_true_iff in H1. apply andb_true_iff in H2. destruct H1, H2. apply row_cells_ok; auto.
    - apply andb_true_iff in H1. apply andb_true_iff in H2. destruct H1, H2. auto.
  Qed.

  Lemma rows_flags rs (g : tok -> bool) :
    (forall t, g t = match kind_of (ty t) with KHr => false | _ => true end && forallb g (children t)) \/
    (forall t, g t = match kind_of (ty t) with KTable => table_rows_match (children t) | _ => true end && forallb g (children t)) ->
    forallb row_static rs = true -> forallb g rs = true ->
    forallb (fun r => forallb (fun c => forallb g (children c)) (children r)) rs = true.
  Proof.
    intros Hg. induction rs as [|r rs IH]; cbn [forallb]; auto. intros H1 H2.
    apply andb_true_iff in H1. apply andb_true_iff in H2. destruct H1, H2.
    rewrite (row_flags r g Hg), IH; auto.
  Qed.

  Lemma count_tag_app tg a b : count_tag tg (a ++ b) = (count_tag tg a + count_tag tg b)%nat.
  Proof. unfold count_tag. rewrite filter_app, app_length. reflexivity. Qed.

  (* the tgroup element: its rows match its columns *)
  Lemma nodes_ok_tgroup shh hrh shb hrb f2 og f4 cols f6 oh f7 orow hcells f8 tb f5 ncols :
    alloc f2 = Good (og, f4) -> all_tag n_colspec cols -> length cols = ncols ->
    (forall sh hr, nodes_ok sh hr f4 cols f6) ->
    alloc f6 = Good (oh, f7) ->
    nodes_ok shh hrh f7 [Elem orow n_row [] hcells] f8 -> count_tag n_entry hcells = ncols ->
    nodes_ok shb hrb f8 tb f5 -> all_tag n_tbody tb ->
    (shb = true -> forallb (fun sec => forallb (row_ok ncols) (kids_of sec)) tb = true) ->
    nodes_ok (shh && shb) (hrh && hrb) f2
      [Elem og n_tgroup [(a_cols, [show (N.of_nat ncols)])] (cols ++ Elem oh n_thead [] [Elem orow n_row [] hcells] :: tb)] f5.
  Proof.
    intros Eg Hct Hcl Hcno Eh Rno Rcnt Tno Ttag Trows.
    assert (Hth : nodes_ok shh hrh f6 [Elem oh n_thead [] [Elem orow n_row [] hcells]] f8)
      by (eapply nodes_ok_elem; [exact Eh | plain | exact Rno]).
    assert (Hkids : nodes_ok (shh && shb) (hrh && hrb) f4 (cols ++ Elem oh n_thead [] [Elem orow n_row [] hcells] :: tb) f5).
    { eapply nodes_ok_flags; [eapply nodes_ok_app; [apply (Hcno true true) |
                              change (?x :: tb) with ([x] ++ tb); eapply nodes_ok_app; [exact Hth | exact Tno]] | |];
        intro X; rewrite X; reflexivity. }
    destruct Hkids as [K1 K2 K3 K4]. apply alloc_post in Eg. destruct Eg as [-> En]. constructor.
    - unfold oids_l. cbn [flat_map oids]. rewrite app_nil_r. apply seg_cons. rewrite <- En. exact K1.
    - cbn [existsb has_tag]. rewrite K2. reflexivity.
    - intro Hs. cbn [forallb rows_ok]. replace (str_eqb n_tgroup n_tgroup) with true by reflexivity.
      rewrite (K3 Hs), !andb_true_r. unfold tgroup_ok.
      assert (Hc : count_tag n_colspec (cols ++ Elem oh n_thead [] [Elem orow n_row [] hcells] :: tb) = ncols).
      { rewrite count_tag_app, (count_tag_all _ _ Hct), Hcl.
        change (Elem oh n_thead [] [Elem orow n_row [] hcells] :: tb)
          with ([Elem oh n_thead [] [Elem orow n_row [] hcells]] ++ tb).
        rewrite count_tag_app. rewrite (count_tag_none n_colspec n_tbody tb Ttag) by reflexivity.
        cbn. lia. }
      rewrite Hc.
      replace (assoc a_cols [(a_cols, [show (N.of_nat ncols)])]) with (Some [show (N.of_nat ncols)]) by reflexivity.
      rewrite str_eqb_refl. cbn [andb]. rewrite forallb_app. apply andb_true_iff. split.
      + clear -Hct. induction Hct as [|c cs Hc _ IH]; cbn [forallb]; auto. rewrite Hc.
        replace (str_eqb n_colspec n_thead || str_eqb n_colspec n_tbody) with false by reflexivity. exact IH.
      + cbn [forallb tag_of kids_of].
        replace (str_eqb n_thead n_thead || str_eqb n_thead n_tbody) with true by reflexivity.
        unfold row_ok at 1. cbn [tag_of kids_of]. rewrite str_eqb_refl. cbn [negb orb]. rewrite Rcnt, Nat.eqb_refl.
        cbn [andb]. apply andb_true_iff in Hs. destruct Hs as [_ Hsb]. specialize (Trows Hsb).
        clear -Ttag Trows. induction Ttag as [|s ss Hs _ IH]; cbn [forallb] in *; auto.
        apply andb_true_iff in Trows. destruct Trows as [T1 T2]. rewrite Hs.
        replace (str_eqb n_tbody n_thead || str_eqb n_tbody n_tbody) with true by reflexivity.
        rewrite T1. cbn [andb]. auto.
    - intro Hh. cbn [existsb has_tag]. rewrite (K4 Hh). reflexivity.
  Qed.

  Lemma table_static_of t : static_tok t = true -> kind_of (ty t) = KTable -> table_static (children t) = true.
  Proof.
    intros H K. rewrite static_tok_eq, K in H. apply andb_true_iff in H. destruct H as [H _].
    apply andb_true_iff in H. destruct H as [_ H]. exact H.
  Qed.

  Lemma post_table t ctag f ns f' :
    Forall (all_sub tok_ok) (children t) -> static_tok t = true -> kind_of (ty t) = KTable ->
    run_f (render_table C OR t (map bld (children t))) ctag f = Some (Good (ns, f')) -> post t f ns f'.
  Proof.
    intros Ha Hst K H.
    pose proof (table_static_of t Hst K) as Hts.
    assert (Hsk : forallb static_tok (children t) = true) by (apply static_kids; auto; rewrite K; exact I).
    pose proof Ha as Hak.
    assert (Hsktok : sktok t = [SBox CTable (flat_map sktok (children t))]) by (tk t; rewrite K; reflexivity).
    assert (Hhr : hr_free t = forallb hr_free (children t)) by (apply hr_free_kids; rewrite K; exact I).
    assert (Hsh : tshape t = table_rows_match (children t) && forallb tshape (children t))
      by (rewrite tshape_eq, K; reflexivity).
    unfold render_table in H.
    destruct (children t) as [|h rest] eqn:Ech; [discriminate Hts|]. cbn [map] in H.
    rewrite rt_kids_build in H. unfold table_static in Hts.
    assert (Hth : thead_static h = true /\ (rest = [] \/ exists b, rest = [b] /\ tbody_static b = true)).
    { destruct rest as [|b [|? ?]]; [split; auto | apply andb_true_iff in Hts; destruct Hts; split; eauto | discriminate]. }
    clear Hts. destruct Hth as [Hth Hrest].
    unfold thead_static in Hth. destruct (kind_of (ty h)) eqn:Kh; try discriminate.
    destruct (children h) as [|hrow [|? ?]] eqn:Ehc; try discriminate. cbn [map] in H.
    rewrite rt_kids_build in H.
    destruct (children hrow) as [|c1 crest] eqn:Ecc.
    { cbn [map] in H. apply run_f_Fail_inv in H. contradiction. }
    cbn [map] in H.
    (* facts about the header *)
    inversion Hak as [|? ? Hah Har]; subst.
    cbn [forallb] in Hsk. apply andb_true_iff in Hsk. destruct Hsk as [Hsh1 Hsr].
    assert (Hshk : forallb static_tok (children h) = true) by (apply static_kids; auto; rewrite Kh; exact I).
    rewrite Ehc in Hshk. cbn [forallb] in Hshk. rewrite andb_true_r in Hshk.
    pose proof (all_sub_kids _ _ Hah) as Hahk. rewrite Ehc in Hahk. inversion Hahk as [|? ? Harow _]; subst.
    pose proof (row_cells_ok hrow Harow Hshk Hth) as Hcells.
    (* run *)
    apply run_f_FOp_inv in H. destruct H as [o [f1 [Ea H]]].
    apply run_f_FOp_inv in H. destruct H as [[a msgs] [f2 [Ec H]]].
    apply copy_attributes_post in Ec. destruct Ec as [Hm _].
    apply run_f_Ctx_inv in H. destruct H as [tcs [f3 [ns' [Hb [Hd ->]]]]].
    apply run_f_Done_inv in Hd. destruct Hd as [-> ->].
    apply run_f_FOp_inv in Hb. destruct Hb as [og [f4 [Eg Hb]]].
    apply run_f_Ctx_inv in Hb. destruct Hb as [gcs [f5 [ns'' [Hb [Hd ->]]]]].
    apply run_f_Done_inv in Hd. destruct Hd as [-> ->].
    apply run_colspecs in Hb. destruct Hb as [cols [f6 [rest' [Hb [-> [Hct [Hcl [Hcno [Hcsk Hcd]]]]]]]]].
    apply run_f_FOp_inv in Hb. destruct Hb as [oh [f7 [Eh Hb]]].
    apply run_f_Ctx_inv in Hb. destruct Hb as [hcs [f8 [tb [Hrow [Hb ->]]]]].
    destruct (post_table_row hrow _ _ _ _ Hcells Hrow) as [orow [hcells [-> [Rno [Rsk Rcnt]]]]].
    set (ncols := length (bld c1 :: map bld crest)) in *.
    assert (Hn : ncols = length (children hrow)) by (rewrite Ecc; unfold ncols; cbn [length]; rewrite map_length; reflexivity).
    cbn [app] in *.
    assert (Hncols : length (children hrow) = ncols) by (symmetry; exact Hn).
    assert (Htsh : tshape t = true -> forallb tshape (h :: rest) = true)
      by (intro X; rewrite Hsh in X; apply andb_true_iff in X; destruct X; auto).
    assert (Hthr : hr_free t = true -> forallb hr_free (h :: rest) = true) by (intro X; rewrite <- Hhr; exact X).
    (* the header row under tshape / hr_free of the table *)
    assert (Rno' : nodes_ok (tshape t) (hr_free t) f7 [Elem orow n_row [] hcells] f8).
    { eapply nodes_ok_flags; [exact Rno | |]; intro X.
      - apply (row_flags hrow tshape); [right; intro; apply tshape_eq | exact Hth |].
        specialize (Htsh X). cbn [forallb] in Htsh. apply andb_true_iff in Htsh. destruct Htsh as [Hh _].
        rewrite tshape_eq, Kh, Ehc in Hh. cbn [forallb andb] in Hh. rewrite andb_true_r in Hh. exact Hh.
      - apply (row_flags hrow hr_free); [left; intro; apply hr_free_eq | exact Hth |].
        specialize (Hthr X). cbn [forallb] in Hthr. apply andb_true_iff in Hthr. destruct Hthr as [Hh _].
        rewrite hr_free_eq, Kh, Ehc in Hh. cbn [forallb andb] in Hh. rewrite andb_true_r in Hh. exact Hh. }
    (* the body *)
    assert (TB : nodes_ok (tshape t) (hr_free t) f8 tb f5 /\ all_tag n_tbody tb /\
                 (tshape t = true -> forallb (fun sec => forallb (row_ok ncols) (kids_of sec)) tb = true) /\
                 skel_ok (flat_map sktok rest) tb).
    { destruct Hrest as [->|[b [-> Htb]]].
      - cbn [map] in Hb. apply run_f_Done_inv in Hb. destruct Hb as [-> ->].
        split; [apply nodes_ok_nil; lia|]. split; [constructor|]. split; [reflexivity|]. apply skel_ok_nil.
      - cbn [map] in Hb. rewrite rt_kids_build in Hb.
        apply run_f_FOp_inv in Hb. destruct Hb as [ob [f9 [Eb Hb]]].
        apply run_f_Ctx_inv in Hb. destruct Hb as [rows [f10 [x [Hrows [Hd ->]]]]].
        apply run_f_Done_inv in Hd. destruct Hd as [-> ->].
        inversion Har as [|? ? Hab _]; subst.
        cbn [forallb] in Hsr. rewrite andb_true_r in Hsr.
        unfold tbody_static in Htb. destruct (kind_of (ty b)) eqn:Kb; try discriminate.
        assert (Hsbk : forallb static_tok (children b) = true) by (apply static_kids; auto; rewrite Kb; exact I).
        pose proof (rows_cells_ok (children b) (all_sub_kids _ _ Hab) Hsbk Htb) as Hrc.
        destruct (post_table_rows (children b) ncols _ _ _ _ Hrc Hrows) as [B1 [B2 B3]].
        cbn [app].
        assert (Hbk : tshape t = true -> forallb tshape (children b) = true).
        { intro X. specialize (Htsh X). cbn [forallb] in Htsh. apply andb_true_iff in Htsh. destruct Htsh as [_ Hb'].
          rewrite andb_true_r in Hb'. rewrite tshape_eq, Kb in Hb'. exact Hb'. }
        assert (Hbh : hr_free t = true -> forallb hr_free (children b) = true).
        { intro X. specialize (Hthr X). cbn [forallb] in Hthr. apply andb_true_iff in Hthr. destruct Hthr as [_ Hb'].
          rewrite andb_true_r in Hb'. rewrite hr_free_eq, Kb in Hb'. exact Hb'. }
        split; [|split; [|split]].
        + eapply nodes_ok_elem; [exact Eb | plain |].
          eapply nodes_ok_flags; [exact B1 | |]; intro X.
          * apply (rows_flags (children b) tshape); [right; intro; apply tshape_eq | exact Htb | auto].
          * apply (rows_flags (children b) hr_free); [left; intro; apply hr_free_eq | exact Htb | auto].
        + constructor; [reflexivity|constructor].
        + intro X. cbn [forallb kids_of]. rewrite andb_true_r. apply B3.
          rewrite Hsh in X. apply andb_true_iff in X. destruct X as [X _].
          unfold table_rows_match in X. rewrite Ehc in X. cbn [forallb] in X. rewrite andb_true_r in X.
          rewrite Hncols in X. exact X.
        + cbn [flat_map]. rewrite app_nil_r.
          assert (Hskb : sktok b = [SBox CTbody (flat_map row_skel (children b))]).
          { rewrite <- (sktok_rows (children b) Htb). tk b. rewrite Kb. reflexivity. }
          rewrite Hskb. change (rows) with (([] : list node) ++ rows). apply skel_box; auto. }
    destruct TB as [Tno [Ttag [Trows Tsk]]].
    pose proof (nodes_ok_tgroup _ _ _ _ f2 og f4 cols f6 oh f7 orow hcells f8 tb f5 ncols Eg Hct Hcl Hcno Eh Rno'
                  ltac:(rewrite Rcnt; exact Hncols) Tno Ttag Trows) as Gno.
    split.
    - eapply nodes_ok_container; [exact Ea | exact Hm | | plain].
      eapply nodes_ok_flags; [exact Gno | |]; intro X; rewrite X; reflexivity.
    - rewrite Hsktok. apply skel_box; [reflexivity | reflexivity | destruct Hm; auto |].
      (* the tgroup is transparent *)
      intros Hy Hd. rewrite has_dropped_elem in Hd by reflexivity.
      unfold skel_nodes. cbn [flat_map skel_node].
      replace (nkind_of n_tgroup) with NTransparent by reflexivity. rewrite app_nil_r.
      change (flat_map (skel_node D) (cols ++ Elem oh n_thead [] [Elem orow n_row [] hcells] :: tb))
        with (skel_nodes D (cols ++ [Elem oh n_thead [] [Elem orow n_row [] hcells]] ++ tb)).
      rewrite !existsb_app in Hd. apply orb_false_iff in Hd. destruct Hd as [_ Hd].
      change (Elem oh n_thead [] [Elem orow n_row [] hcells] :: tb)
        with ([Elem oh n_thead [] [Elem orow n_row [] hcells]] ++ tb) in Hd.
      rewrite existsb_app in Hd. apply orb_false_iff in Hd. destruct Hd as [Hd1 Hd2].
      rewrite !skel_nodes_app, Hcsk, (Tsk Hy Hd2). cbn [flat_map app].
      assert (Hskh : sktok h = [SBox CThead (row_skel hrow)]).
      { rewrite <- (sktok_row hrow Hth). tk h. rewrite Kh. cbn [children] in Ehc. rewrite Ehc. cbn [flat_map]. rewrite app_nil_r. reflexivity. }
      rewrite Hskh. f_equal.
      assert (Hx : skel_ok [SBox CThead (row_skel hrow)] [Elem oh n_thead [] (([] : list node) ++ [Elem orow n_row [] hcells])])
        by (apply skel_box; auto; reflexivity).
      exact (Hx Hy Hd1).
  Qed.


  (* ---- footnotes, targets, labelled math ---- *)
  Lemma nodes_ok_one sh hr f o f1 tg a f' :
    alloc f = Good (o, f1) -> plain_tag tg -> nxt f1 <= nxt f' -> nodes_ok sh hr f [Elem o tg a []] f'.
  Proof. intros Ea Hp Hle. eapply nodes_ok_elem; eauto. apply nodes_ok_nil. exact Hle. Qed.

  Lemma post_footnote_ref t ctag f ns f' :
    kind_of (ty t) = KFootnoteRef ->
    run_f (render_footnote_ref C OR t (map bld (children t))) ctag f = Some (Good (ns, f')) -> post t f ns f'.
  Proof.
    intros K H. unfold render_footnote_ref in H.
    assert (Hsk : sktok t = [SFootRef (match assoc a_label (meta t) with Some l => l | None => [] end)])
      by (tk t; rewrite K; reflexivity).
    destruct (assoc a_label (meta t)) as [target|]; [|apply run_f_Fail_inv in H; contradiction].
    apply run_f_FOp_inv in H. destruct H as [o [f1 [Ea H]]].
    destruct (o_isdigit OR target).
    - apply run_f_FOp_inv in H. destruct H as [ot [f2 [Eb H]]].
      apply run_f_FOp_inv in H. destruct H as [u [f3 [En H]]]. apply note_footnote_ref_le in En.
      apply run_f_Append_inv in H. destruct H as [ns' [-> H]].
      apply run_f_Done_inv in H. destruct H as [-> ->].
      split.
      + eapply nodes_ok_elem; [exact Ea | plain |].
        eapply nodes_ok_skip_r; [apply nodes_ok_text; exact Eb | exact En].
      + intros _ _. rewrite Hsk. reflexivity.
    - apply run_f_FOp_inv in H. destruct H as [u [f2 [En1 H]]]. apply note_autofootnote_ref_le in En1.
      apply run_f_FOp_inv in H. destruct H as [u2 [f3 [En2 H]]]. apply note_footnote_ref_le in En2.
      apply run_f_Append_inv in H. destruct H as [ns' [-> H]].
      apply run_f_Done_inv in H. destruct H as [-> ->].
      split.
      + eapply nodes_ok_one; [exact Ea | plain | lia].
      + intros _ _. rewrite Hsk. reflexivity.
  Qed.

  Lemma warning_nodes_ok sh hr tag f w f' : create_warning tag f = Good (w, f') -> nodes_ok sh hr f [w] f'.
  Proof.
    intro Ew. destruct (warning_node_facts _ _ _ _ Ew) as [Wo [Wn [Wt [Wr [Ws Wd]]]]]. constructor.
    - unfold oids_l. cbn [flat_map]. rewrite Wo, app_nil_r. rewrite Wn. apply seg_one.
    - cbn [existsb]. rewrite Wt by reflexivity. reflexivity.
    - intros _. cbn [forallb]. rewrite Wr. reflexivity.
    - intros _. cbn [existsb]. rewrite Wt by reflexivity. reflexivity.
  Qed.

  Lemma footnote_kids t : kind_of (ty t) = KFootnoteReference -> Forall tok_ok (children t) -> static_tok t = true ->
    forall ctag f cs f', run_f (render_children (map bld (children t))) ctag f = Some (Good (cs, f')) ->
    nodes_ok (tshape t) (hr_free t) f cs f' /\ skel_ok (flat_map sktok (children t)) cs.
  Proof.
    intros K Hall Hst ctag f cs f' H.
    assert (Hst' : forallb static_tok (children t) = true) by (apply static_kids; auto; rewrite K; exact I).
    rewrite hr_free_kids, tshape_kids by (rewrite K; exact I).
    exact (kids_post (children t) Hall Hst' ctag f cs f' H).
  Qed.

  Lemma post_footnote_reference t ctag f ns f' :
    Forall tok_ok (children t) -> static_tok t = true -> kind_of (ty t) = KFootnoteReference ->
    run_f (render_footnote_reference C OR t (map bld (children t))) ctag f = Some (Good (ns, f')) -> post t f ns f'.
  Proof.
    intros Hall Hst K H. unfold render_footnote_reference in H.
    assert (Hsk : sktok t = [SBox CFootnote (flat_map sktok (children t))]) by (tk t; rewrite K; reflexivity).
    destruct (assoc a_label (meta t)) as [target|]; [|apply run_f_Fail_inv in H; contradiction].
    apply run_f_FOp_inv in H. destruct H as [dup [f0 [Ed H]]]. inversion Ed; subst f0. clear Ed.
    destruct dup.
    - (* dropped with a warning *)
      apply run_f_FOp_inv in H. destruct H as [w [f1 [Ew H]]].
      apply run_f_Append_inv in H. destruct H as [ns' [-> H]].
      apply run_f_Done_inv in H. destruct H as [-> ->].
      split; [eapply warning_nodes_ok; exact Ew|].
      intros Hy Hd. destruct (warning_node_facts _ _ _ _ Ew) as [_ [_ [_ [_ [_ Wd]]]]].
      cbn [existsb] in Hd. rewrite Wd in Hd. discriminate Hd.
    - apply run_f_FOp_inv in H. destruct H as [o [f1 [Ea H]]].
      apply run_f_FOp_inv in H. destruct H as [u [f2 [En H]]]. apply keeps_add_name in En.
      destruct (o_isdigit OR target).
      + apply run_new_text_elem in H. destruct H as [ol [lbl [f3 [Hte H]]]].
        apply run_f_FOp_inv in H. destruct H as [u2 [f4 [Ef H]]]. apply note_footnote_le in Ef.
        apply run_f_FOp_inv in H. destruct H as [ms [f5 [Et H]]]. apply note_target'_post in Et.
        apply run_f_Ctx_inv in H. destruct H as [cs [f6 [ns' [Hb [Hd ->]]]]].
        apply run_f_Done_inv in Hd. destruct Hd as [-> ->].
        destruct (footnote_kids t K Hall Hst _ _ _ _ Hb) as [Hno Hsko].
        destruct (text_elem_facts _ _ _ _ _ _ _ Hte ltac:(plain)) as [ks [-> [Hat [Hdk [Hn1 _]]]]].
        split.
        * eapply nodes_ok_elem; [exact Ea | plain |]. apply (nodes_ok_skip_l _ _ f1 f2); [rewrite En; lia|].
          change ((Elem ol n_label [] ks :: ms) ++ cs) with ([Elem ol n_label [] ks] ++ (ms ++ cs)).
          eapply nodes_ok_flags;
            [eapply nodes_ok_app; [apply (Hn1 true true) |
               apply (nodes_ok_skip_l _ _ f3 f4); [exact Ef | eapply nodes_ok_app; [apply (nodes_ok_msgs true true); exact Et | exact Hno]]] | |];
            intro X; rewrite X; reflexivity.
        * rewrite Hsk. change ((Elem ol n_label [] ks :: ms) ++ cs) with ((Elem ol n_label [] ks :: ms) ++ cs).
          intros Hy Hd. rewrite has_dropped_elem in Hd by reflexivity. rewrite existsb_app in Hd.
          apply orb_false_iff in Hd. destruct Hd as [_ Hd].
          unfold skel_nodes. cbn [flat_map skel_node].
          replace (nkind_of n_footnote) with (NBox CFootnote) by reflexivity. rewrite app_nil_r.
          rewrite flat_map_app. cbn [flat_map skel_node].
          replace (nkind_of n_label) with NErased by reflexivity. cbn [app].
          change (flat_map (skel_node D) ms) with (skel_nodes D ms).
          change (flat_map (skel_node D) cs) with (skel_nodes D cs).
          destruct Et as [Et _]. rewrite (regmsgs_skel D ms Et), (Hsko Hy Hd). reflexivity.
      + apply run_f_FOp_inv in H. destruct H as [u2 [f4 [Ef H]]]. apply note_autofootnote_le in Ef.
        apply run_f_FOp_inv in H. destruct H as [ms [f5 [Et H]]]. apply note_target'_post in Et.
        apply run_f_Ctx_inv in H. destruct H as [cs [f6 [ns' [Hb [Hd ->]]]]].
        apply run_f_Done_inv in Hd. destruct Hd as [-> ->].
        destruct (footnote_kids t K Hall Hst _ _ _ _ Hb) as [Hno Hsko].
        split.
        * eapply nodes_ok_elem; [exact Ea | plain |]. apply (nodes_ok_skip_l _ _ f1 f4); [rewrite <- En; exact Ef|].
          eapply nodes_ok_flags;
            [eapply nodes_ok_app; [apply (nodes_ok_msgs true true); exact Et | exact Hno] | |];
            intro X; rewrite X; reflexivity.
        * rewrite Hsk. apply skel_box; auto. destruct Et; auto.
  Qed.

  Lemma post_myst_target t ctag f ns f' :
    kind_of (ty t) = KMystTarget ->
    run_f (render_myst_target C OR t (map bld (children t))) ctag f = Some (Good (ns, f')) -> post t f ns f'.
  Proof.
    intros K H. unfold render_myst_target in H.
    apply run_f_FOp_inv in H. destruct H as [o [f1 [Ea H]]].
    apply run_f_FOp_inv in H. destruct H as [u [f2 [En H]]]. apply keeps_add_name in En.
    apply run_f_FOp_inv in H. destruct H as [ms [f3 [Et H]]]. apply note_target'_post in Et.
    apply run_append_all in H. destruct H as [ns' [-> H]].
    apply run_f_Append_inv in H. destruct H as [ns'' [-> H]].
    apply run_f_Done_inv in H. destruct H as [-> ->].
    split.
    - apply nodes_ok_weaken_flags.
      eapply nodes_ok_flags;
        [eapply (nodes_ok_app_rev true true true true f f1);
           [eapply nodes_ok_one; [exact Ea | plain | lia] | apply (nodes_ok_skip_l _ _ f1 f2); [rewrite En; lia | apply nodes_ok_msgs; exact Et]] | |];
        intros _; reflexivity.
    - intros _ _. rewrite skel_nodes_app. destruct Et as [Et _]. rewrite (regmsgs_skel D ms Et).
      tk t. rewrite K. reflexivity.
  Qed.

  Lemma run_add_math_target label k ctag f ns f' :
    run_f (add_math_target C OR label k) ctag f = Some (Good (ns, f')) ->
    exists ot f1 f2, alloc f = Good (ot, f1) /\ nxt f1 <= nxt f2 /\
                     run_f (k (Elem ot n_target [] [])) ctag f2 = Some (Good (ns, f')).
  Proof.
    unfold add_math_target. intro H.
    apply run_f_FOp_inv in H. destruct H as [ot [f1 [Ea H]]].
    apply run_f_FOp_inv in H. destruct H as [u [f2 [Ep H]]]. apply keeps_put_rec in Ep.
    apply run_f_FOp_inv in H. destruct H as [u2 [f3 [Es H]]]. apply set_id_nomsg_le in Es.
    exists ot, f1, f3. split; auto. split; [lia|exact H].
  Qed.

  (* a labelled / numbered math block under Sphinx: the target (allocated later) precedes the block *)
  Lemma post_math_with_target t a label ctag f ns f' :
    sktok t = [STarget; SMathBlock (content t)] ->
    run_f (new_text_elem k_math_block a (content t) (fun n =>
             add_math_target C OR label (fun tgt => Append tgt (Append n Done)))) ctag f = Some (Good (ns, f')) ->
    post t f ns f'.
  Proof.
    intros Hsk H.
    apply run_new_text_elem in H. destruct H as [o [n [f2 [Hte H]]]].
    apply run_add_math_target in H. destruct H as [ot [f3 [f4 [Eb [Hle H]]]]].
    apply run_f_Append_inv in H. destruct H as [ns' [-> H]].
    apply run_f_Append_inv in H. destruct H as [ns'' [-> H]].
    apply run_f_Done_inv in H. destruct H as [-> ->].
    destruct (text_elem_facts _ _ _ _ _ _ _ Hte ltac:(plain)) as [ks [-> [Hat [Hdk [Hn1 _]]]]].
    split.
    - apply nodes_ok_weaken_flags. change [Elem ot n_target [] []; Elem o k_math_block a ks]
        with ([Elem ot n_target [] []] ++ [Elem o k_math_block a ks]).
      eapply nodes_ok_flags;
        [eapply (nodes_ok_app_rev true true true true); [apply Hn1 | eapply nodes_ok_one; [exact Eb | plain | exact Hle]] | |];
        intros _; reflexivity.
    - intros _ _. rewrite Hsk. unfold skel_nodes. cbn [flat_map skel_node].
      replace (nkind_of n_target) with NTarget by reflexivity.
      replace (nkind_of k_math_block) with NMathBlock by reflexivity. rewrite Hat. reflexivity.
  Qed.

  Lemma post_math_block_label t ctag f ns f' :
    kind_of (ty t) = KMathBlockLabel ->
    run_f (render_math_block_label B C OR t (map bld (children t))) ctag f = Some (Good (ns, f')) -> post t f ns f'.
  Proof.
    intros K H. unfold render_math_block_label in H.
    assert (Hsk : sktok t = (if is_sphinx B then [STarget] else []) ++ [SMathBlock (content t)])
      by (tk t; rewrite K; reflexivity).
    destruct (is_sphinx B).
    - eapply post_math_with_target; eauto.
    - apply run_new_text_elem in H. destruct H as [o [n [f2 [Hte H]]]].
      destruct (text_elem_facts _ _ _ _ _ _ _ Hte ltac:(plain)) as [ks [-> [Hat [Hdk [_ Hno]]]]].
      cbn [oid_of] in H.
      apply run_f_FOp_inv in H. destruct H as [u [f3 [En H]]]. apply keeps_add_name in En.
      apply run_f_FOp_inv in H. destruct H as [ms [f4 [Et H]]]. apply note_target'_post in Et.
      apply run_f_Append_inv in H. destruct H as [ns' [-> H]].
      apply run_f_Done_inv in H. destruct H as [-> ->]. cbn [add_children].
      split.
      + apply Hno. eapply msgs_post_keep_l; [exact En | exact Et].
      + intros _ _. rewrite Hsk. unfold skel_nodes. cbn [flat_map skel_node app].
        replace (nkind_of k_math_block) with NMathBlock by reflexivity.
        rewrite astext_msgs, Hat by (destruct Et; auto). reflexivity.
  Qed.

  Lemma post_amsmath t ctag f ns f' :
    kind_of (ty t) = KAmsmath ->
    run_f (render_amsmath B C OR t (map bld (children t))) ctag f = Some (Good (ns, f')) -> post t f ns f'.
  Proof.
    intros K H. unfold render_amsmath in H.
    assert (Hsk : sktok t = (if is_sphinx B && negb (match assoc a_numbered (meta t) with
                                                     | Some v => str_eqb v v_star | None => true end)
                             then [STarget] else []) ++ [SMathBlock (content t)])
      by (tk t; rewrite K; reflexivity).
    destruct (assoc a_numbered (meta t)) as [numbered|]; [|apply run_f_Fail_inv in H; contradiction].
    assert (Hleaf : forall a, run_f (new_text_elem k_math_block a (content t) (fun n => Append n Done)) ctag f
                              = Some (Good (ns, f')) -> sktok t = [SMathBlock (content t)] -> post t f ns f').
    { intros a Hr Hs. eapply (post_text_elem_leaf t k_math_block a (content t) [SMathBlock (content t)]);
        try exact Hr; try plain; auto.
      intros o ks Hk. cbn [skel_node]. replace (nkind_of k_math_block) with NMathBlock by reflexivity.
      rewrite Hk. reflexivity. }
    destruct (is_sphinx B).
    - destruct (str_eqb numbered v_star).
      + eapply Hleaf; eauto.
      + apply run_f_FOp_inv in H. destruct H as [c [f1 [Ec H]]]. inversion Ec; subst c f1. clear Ec.
        assert (Hp : post t (set_uuidc f (uuidc f + 1)) ns f') by (eapply post_math_with_target; eauto).
        destruct Hp as [Hp1 Hp2]. split; auto.
        eapply nodes_ok_skip_l; [|exact Hp1]. cbn. lia.
    - destruct (str_eqb numbered v_star); eapply Hleaf; eauto.
  Qed.

  (* ---- headings inside containers: rubric ---- *)
  Lemma heading_target_post o tg title f ms f' :
    heading_target C OR o tg title f = Good (ms, f') -> msgs_post f ms f'.
  Proof.
    unfold heading_target. destruct (astext_clean title); [|discriminate]. intro H.
    apply fbind_inv' in H. destruct H as [en [f1 [E1 H]]]. apply keeps_get_names in E1.
    apply fbind_inv' in H. destruct H as [u [f2 [E2 H]]]. apply keeps_set_names in E2.
    apply fbind_inv' in H. destruct H as [ms' [f3 [E3 H]]]. apply note_target'_post in E3.
    apply fbind_inv' in H. destruct H as [now [f4 [E4 H]]]. apply keeps_get_names in E4.
    apply fbind_inv' in H. destruct H as [u2 [f5 [E5 H]]]. apply keeps_set_names in E5.
    inversion H; subst.
    eapply msgs_post_keep_l; [|eapply msgs_post_keep; [exact E3|]]; congruence.
  Qed.

  Lemma post_heading t ctag f ns f' :
    Forall tok_ok (children t) -> static_tok t = true -> kind_of (ty t) = KHeading ->
    run_f (render_heading C OR t (map bld (children t))) ctag f = Some (Good (ns, f')) -> post t f ns f'.
  Proof.
    intros Hall Hst K H. unfold render_heading in H.
    destruct (heading_level (tag t)) as [level|]; [|apply run_f_Fail_inv in H; contradiction].
    apply run_f_CurTag_inv in H.
    destruct (is_section_tag ctag); cbn [negb] in H.
    - (* section level: not expressible as appended nodes *)
      apply run_f_FOp_inv in H. destruct H as [o [f1 [Ea H]]].
      apply run_f_FOp_inv in H. destruct H as [ot [f2 [Eb H]]].
      apply run_f_FOp_inv in H. destruct H as [[a msgs] [f3 [Ec H]]].
      cbn in H. discriminate H.
    - apply run_f_FOp_inv in H. destruct H as [o [f1 [Ea H]]].
      apply run_f_FOp_inv in H. destruct H as [[a msgs] [f2 [Ec H]]].
      apply copy_attributes_post in Ec. destruct Ec as [Hm _].
      apply run_f_Detached_inv in H. destruct H as [cs [f3 [Hb H]]].
      apply run_f_FOp_inv in H. destruct H as [ms [f4 [Eh H]]]. apply heading_target_post in Eh.
      apply run_f_Append_inv in H. destruct H as [ns' [-> H]].
      apply run_f_Done_inv in H. destruct H as [-> ->]. cbn [add_children].
      assert (Hst' : forallb static_tok (children t) = true) by (apply static_kids; auto; rewrite K; exact I).
      destruct (kids_post (children t) Hall Hst' _ _ _ _ Hb) as [Hno Hsko].
      split.
      + rewrite hr_free_kids, tshape_kids by (rewrite K; exact I).
        eapply nodes_ok_elem; [exact Ea | plain |].
        eapply nodes_ok_flags;
          [eapply nodes_ok_app; [eapply nodes_ok_app; [apply (nodes_ok_msgs true true); exact Hm | exact Hno] |
                                 apply (nodes_ok_msgs true true); exact Eh] | |];
          intro X; rewrite X; rewrite ?andb_true_r; reflexivity.
      + assert (Hsk : sktok t = [SBox CHeading (flat_map sktok (children t))]) by (tk t; rewrite K; reflexivity).
        rewrite Hsk. intros Hy Hd. rewrite has_dropped_elem in Hd by reflexivity.
        rewrite !existsb_app in Hd. apply orb_false_iff in Hd. destruct Hd as [Hd _].
        apply orb_false_iff in Hd. destruct Hd as [_ Hd].
        unfold skel_nodes. cbn [flat_map skel_node].
        replace (nkind_of n_rubric) with NHeading by reflexivity. rewrite app_nil_r.
        change (flat_map (skel_node D) ((msgs ++ cs) ++ ms)) with (skel_nodes D ((msgs ++ cs) ++ ms)).
        destruct Hm as [Hm _]. destruct Eh as [Eh _].
        rewrite !skel_nodes_app, (regmsgs_skel D msgs Hm), (regmsgs_skel D ms Eh), (Hsko Hy Hd), app_nil_r. reflexivity.
  Qed.

  (* a token type without render method: only the warning *)
  Lemma post_no_rule t ctag f ns f' :
    run_f (w <- create_warning w_render ; Append w Done) ctag f = Some (Good (ns, f')) -> post t f ns f'.
  Proof.
    intro H. apply run_f_FOp_inv in H. destruct H as [w [f1 [Ew H]]].
    apply run_f_Append_inv in H. destruct H as [ns' [-> H]].
    apply run_f_Done_inv in H. destruct H as [-> ->].
    split; [eapply warning_nodes_ok; exact Ew|].
    intros Hy Hd. destruct (warning_node_facts _ _ _ _ Ew) as [_ [_ [_ [_ [_ Wd]]]]].
    cbn [existsb] in Hd. rewrite Wd in Hd. discriminate Hd.
  Qed.

  (* ---- definition lists ---- *)
  Definition gflat (gs : list (tok * list tok)) : list tok := flat_map (fun g => fst g :: snd g) gs.
  Definition gbld (g : tok * list tok) : rt * list rt := (bld (fst g), map bld (snd g)).

  Lemma dl_group_spec cs : forall lead groups,
    dl_group (map bld cs) = Good (lead, groups) ->
    exists leadt gst, lead = map bld leadt /\ groups = map gbld gst /\ cs = leadt ++ gflat gst /\
      Forall (fun d => kind_of (ty d) = KDd) leadt /\
      Forall (fun g => kind_of (ty (fst g)) = KDt /\ Forall (fun d => kind_of (ty d) = KDd) (snd g)) gst.
  Proof.
    induction cs as [|c cs IH]; intros lead groups H; cbn [map dl_group] in H.
    - inversion H; subst. exists [], []. repeat split; constructor.
    - destruct (dl_group (map bld cs)) as [[lead' groups']|e] eqn:Er; [|discriminate].
      destruct (IH lead' groups' eq_refl) as [lt [gt [-> [-> [-> [Hl Hg]]]]]].
      rewrite rt_tok_build in H. destruct (kind_of (ty c)) eqn:K; try discriminate; inversion H; subst.
      + exists [], ((c, lt) :: gt). cbn [map gbld gflat flat_map fst snd app]. repeat split; auto.
      + exists (c :: lt), gt. cbn [map app]. repeat split; auto.
  Qed.

  Definition sub_ok (d : tok) : Prop := Forall tok_ok (children d) /\ forallb static_tok (children d) = true.

  Lemma post_dd d ctag f ns f' :
    sub_ok d -> kind_of (ty d) = KDd ->
    run_f (render_dd (bld d)) ctag f = Some (Good (ns, f')) ->
    nodes_ok (tshape d) (hr_free d) f ns f' /\ skel_ok (sktok d) ns.
  Proof.
    intros [Hall Hst] K H. unfold render_dd in H. rewrite rt_kids_build in H.
    apply run_f_FOp_inv in H. destruct H as [o [f1 [Ea H]]].
    apply run_f_Ctx_inv in H. destruct H as [cs [f2 [ns' [Hb [Hd ->]]]]].
    apply run_f_Done_inv in Hd. destruct Hd as [-> ->].
    destruct (kids_post (children d) Hall Hst _ _ _ _ Hb) as [Hno Hsko].
    split.
    - rewrite hr_free_kids, tshape_kids by (rewrite K; exact I). eapply nodes_ok_elem; [exact Ea | plain | exact Hno].
    - assert (Hsk : sktok d = [SBox CDef (flat_map sktok (children d))]) by (tk d; rewrite K; reflexivity).
      rewrite Hsk. apply skel_box; auto.
  Qed.

  Lemma post_dds ds : forall ctag f ns f',
    Forall (fun d => sub_ok d /\ kind_of (ty d) = KDd) ds ->
    run_f (seq_all (map render_dd (map bld ds))) ctag f = Some (Good (ns, f')) ->
    nodes_ok (forallb tshape ds) (forallb hr_free ds) f ns f' /\ skel_ok (flat_map sktok ds) ns.
  Proof.
    induction ds as [|d ds IH]; intros ctag f ns f' Hall H; cbn [map seq_all] in H.
    - inversion H; subst. split; [apply nodes_ok_nil; lia | apply skel_ok_nil].
    - inversion Hall as [|? ? [Hd1 Hd2] Hds]; subst.
      apply run_f_seq_inv in H. destruct H as [n1 [f1 [n2 [H1 [H2 ->]]]]].
      destruct (post_dd d _ _ _ _ Hd1 Hd2 H1) as [A1 A2].
      destruct (IH _ _ _ _ Hds H2) as [B1 B2].
      split; [cbn [forallb]; eapply nodes_ok_app; eauto | cbn [flat_map]; apply skel_ok_app; auto].
  Qed.

  Lemma post_dl_item g ctag f ns f' :
    sub_ok (fst g) -> kind_of (ty (fst g)) = KDt ->
    Forall (fun d => sub_ok d /\ kind_of (ty d) = KDd) (snd g) ->
    run_f (render_dl_item (gbld g)) ctag f = Some (Good (ns, f')) ->
    nodes_ok (forallb tshape (fst g :: snd g)) (forallb hr_free (fst g :: snd g)) f ns f' /\
    skel_ok (flat_map sktok (fst g :: snd g)) ns.
  Proof.
    intros [Hall Hst] K Hds H. unfold render_dl_item, gbld in H. cbn [fst snd] in H. rewrite rt_kids_build in H.
    apply run_f_FOp_inv in H. destruct H as [oi [f1 [Ea H]]].
    apply run_f_FOp_inv in H. destruct H as [ot [f2 [Eb H]]].
    apply run_f_Ctx_inv in H. destruct H as [ics [f3 [ns' [Hb [Hd ->]]]]].
    apply run_f_Done_inv in Hd. destruct Hd as [-> ->].
    apply run_f_Detached_inv in Hb. destruct Hb as [tcs [f4 [Ht Hb]]].
    apply run_f_Append_inv in Hb. destruct Hb as [dns [-> Hb]].
    destruct (kids_post (children (fst g)) Hall Hst _ _ _ _ Ht) as [Tno Tsk].
    destruct (post_dds (snd g) _ _ _ _ Hds Hb) as [Dno Dsk].
    cbn [app].
    assert (Hterm : nodes_ok (tshape (fst g)) (hr_free (fst g)) f1 [Elem ot n_term [] tcs] f4).
    { rewrite hr_free_kids, tshape_kids by (rewrite K; exact I). eapply nodes_ok_elem; [exact Eb | plain | exact Tno]. }
    split.
    - eapply nodes_ok_elem; [exact Ea | plain |]. cbn [forallb].
      change (Elem ot n_term [] tcs :: dns) with ([Elem ot n_term [] tcs] ++ dns).
      eapply nodes_ok_app; eauto.
    - intros Hy Hd. rewrite has_dropped_elem in Hd by reflexivity.
      change (Elem ot n_term [] tcs :: dns) with ([Elem ot n_term [] tcs] ++ dns) in Hd.
      rewrite existsb_app in Hd. apply orb_false_iff in Hd. destruct Hd as [Hd1 Hd2].
      rewrite has_dropped_elem in Hd1 by reflexivity.
      unfold skel_nodes. cbn [flat_map skel_node].
      replace (nkind_of n_definition_list_item) with NTransparent by reflexivity.
      replace (nkind_of n_term) with (NBox CTerm) by reflexivity. rewrite app_nil_r.
      change (flat_map (skel_node D) tcs) with (skel_nodes D tcs).
      change (flat_map (skel_node D) dns) with (skel_nodes D dns).
      rewrite (Tsk Hy Hd1), (Dsk Hy Hd2).
      assert (Hsk : sktok (fst g) = [SBox CTerm (flat_map sktok (children (fst g)))])
        by (destruct g as [d ds]; cbn [fst]; tk d; cbn [fst ty] in K; rewrite K; reflexivity).
      rewrite Hsk. reflexivity.
  Qed.

  Lemma post_dl_items gs : forall ctag f ns f',
    Forall (fun g => sub_ok (fst g) /\ kind_of (ty (fst g)) = KDt /\
                     Forall (fun d => sub_ok d /\ kind_of (ty d) = KDd) (snd g)) gs ->
    run_f (seq_all (map render_dl_item (map gbld gs))) ctag f = Some (Good (ns, f')) ->
    nodes_ok (forallb tshape (gflat gs)) (forallb hr_free (gflat gs)) f ns f' /\ skel_ok (flat_map sktok (gflat gs)) ns.
  Proof.
    induction gs as [|g gs IH]; intros ctag f ns f' Hall H; cbn [map seq_all] in H.
    - inversion H; subst. split; [apply nodes_ok_nil; lia | apply skel_ok_nil].
    - inversion Hall as [|? ? [G1 [G2 G3]] Hgs]; subst.
      apply run_f_seq_inv in H. destruct H as [n1 [f1 [n2 [H1 [H2 ->]]]]].
      destruct (post_dl_item g _ _ _ _ G1 G2 G3 H1) as [A1 A2].
      destruct (IH _ _ _ _ Hgs H2) as [B1 B2].
      unfold gflat. cbn [flat_map]. fold (gflat gs).
      split.
      + rewrite !forallb_app. eapply nodes_ok_app; eauto.
      + rewrite flat_map_app. apply skel_ok_app; auto.
  Qed.

  Lemma sub_ok_of d : all_sub tok_ok d -> static_tok d = true ->
    match kind_of (ty d) with KImage => False | _ => True end -> sub_ok d.
  Proof. intros Ha Hs Hk. split; [apply all_sub_kids_here; exact Ha | apply static_kids; auto]. Qed.

  Lemma post_dl t ctag f ns f' :
    Forall (all_sub tok_ok) (children t) -> static_tok t = true -> kind_of (ty t) = KDl ->
    run_f (render_dl B C OR t (map bld (children t))) ctag f = Some (Good (ns, f')) -> post t f ns f'.
  Proof.
    intros Ha Hst K H. unfold render_dl in H.
    apply run_f_FOp_inv in H. destruct H as [o [f1 [Ea H]]].
    apply run_f_FOp_inv in H. destruct H as [[a msgs] [f2 [Ec H]]].
    apply copy_attributes_post in Ec. destruct Ec as [Hm _].
    destruct (_ && _); [apply run_f_Fail_inv in H; contradiction|].
    destruct (dl_group (map bld (children t))) as [[lead groups]|e] eqn:Eg; [|apply run_f_Fail_inv in H; contradiction].
    destruct lead; [|apply run_f_Fail_inv in H; contradiction].
    destruct (dl_group_spec _ _ _ Eg) as [lt [gt [El [-> [Ecs [Hl Hg]]]]]].
    destruct lt; [|discriminate El]. cbn [app] in Ecs.
    apply run_f_Ctx_inv in H. destruct H as [cs [f3 [ns' [Hb [Hd ->]]]]].
    apply run_f_Done_inv in Hd. destruct Hd as [-> ->].
    assert (Hstk : forallb static_tok (children t) = true) by (apply static_kids; auto; rewrite K; exact I).
    pose proof Ha as Hak.
    assert (Hgs : Forall (fun g => sub_ok (fst g) /\ kind_of (ty (fst g)) = KDt /\
                                   Forall (fun d => sub_ok d /\ kind_of (ty d) = KDd) (snd g)) gt).
    { rewrite Ecs in Hak, Hstk. clear -Hak Hstk Hg.
      induction Hg as [|g gs [Hg1 Hg2] _ IH]; [constructor|].
      unfold gflat in Hak, Hstk. cbn [flat_map] in Hak, Hstk. fold (gflat gs) in Hak, Hstk.
      rewrite forallb_app in Hstk. apply andb_true_iff in Hstk. destruct Hstk as [S1 S2].
      apply Forall_app in Hak. destruct Hak as [A1 A2].
      constructor; [|apply IH; auto].
      cbn [forallb] in S1. apply andb_true_iff in S1. destruct S1 as [S1a S1b].
      inversion A1 as [|? ? A1a A1b]; subst.
      split; [apply sub_ok_of; auto; rewrite Hg1; exact I|]. split; auto.
      clear -A1b S1b Hg2. induction Hg2 as [|d ds Hd _ IHd]; [constructor|].
      cbn [forallb] in S1b. apply andb_true_iff in S1b. destruct S1b. inversion A1b; subst.
      constructor; auto. split; auto. apply sub_ok_of; auto. rewrite Hd. exact I. }
    destruct (post_dl_items gt _ _ _ _ Hgs Hb) as [Gno Gsk].
    split.
    - rewrite hr_free_kids, tshape_kids by (rewrite K; exact I). rewrite Ecs.
      eapply nodes_ok_container; eauto. plain.
    - assert (Hsk : sktok t = [SBox CDl (flat_map sktok (children t))]) by (tk t; rewrite K; reflexivity).
      rewrite Hsk, Ecs. apply skel_box; auto. destruct Hm; auto.
  Qed.

  (* ---- field lists ---- *)
  Lemma post_field n b ctag f ns f' :
    sub_ok n -> kind_of (ty n) = KFieldlistName -> sub_ok b -> kind_of (ty b) = KFieldlistBody ->
    run_f (render_field (bld n) (Some (bld b))) ctag f = Some (Good (ns, f')) ->
    nodes_ok (tshape n && tshape b) (hr_free n && hr_free b) f ns f' /\ skel_ok (sktok n ++ sktok b) ns.
  Proof.
    intros [Hn1 Hn2] Kn [Hb1 Hb2] Kb H. unfold render_field in H. rewrite !rt_kids_build in H.
    apply run_f_FOp_inv in H. destruct H as [of [f1 [Ea H]]].
    apply run_f_FOp_inv in H. destruct H as [on [f2 [Eb H]]].
    apply run_f_Ctx_inv in H. destruct H as [fcs [f3 [ns' [Hf [Hd ->]]]]].
    apply run_f_Done_inv in Hd. destruct Hd as [-> ->].
    apply run_f_Ctx_inv in Hf. destruct Hf as [ncs [f4 [rest [Hn [Hf ->]]]]].
    apply run_f_FOp_inv in Hf. destruct Hf as [ob [f5 [Ec Hf]]].
    apply run_f_Ctx_inv in Hf. destruct Hf as [bcs [f6 [rest' [Hb [Hd ->]]]]].
    apply run_f_Done_inv in Hd. destruct Hd as [-> ->].
    destruct (kids_post (children n) Hn1 Hn2 _ _ _ _ Hn) as [Nno Nsk].
    destruct (kids_post (children b) Hb1 Hb2 _ _ _ _ Hb) as [Bno Bsk].
    cbn [app].
    split.
    - eapply nodes_ok_elem; [exact Ea | plain |].
      change [Elem on n_field_name [] ncs; Elem ob n_field_body [] bcs]
        with ([Elem on n_field_name [] ncs] ++ [Elem ob n_field_body [] bcs]).
      eapply nodes_ok_app.
      + rewrite hr_free_kids, tshape_kids by (rewrite Kn; exact I). eapply nodes_ok_elem; [exact Eb | plain | exact Nno].
      + rewrite hr_free_kids, tshape_kids by (rewrite Kb; exact I). eapply nodes_ok_elem; [exact Ec | plain | exact Bno].
    - intros Hy Hd. rewrite has_dropped_elem in Hd by reflexivity.
      cbn [existsb] in Hd. rewrite orb_false_r in Hd. apply orb_false_iff in Hd. destruct Hd as [Hd1 Hd2].
      assert (Hd1' : existsb has_dropped ncs = false).
      { cbn [has_dropped] in Hd1. replace (str_eqb n_field_name k_system_message) with false in Hd1 by reflexivity. exact Hd1. }
      assert (Hd2' : existsb has_dropped bcs = false).
      { cbn [has_dropped] in Hd2. replace (str_eqb n_field_body k_system_message) with false in Hd2 by reflexivity. exact Hd2. }
      unfold skel_nodes. cbn [flat_map skel_node].
      replace (nkind_of n_field) with NTransparent by reflexivity.
      replace (nkind_of n_field_name) with (NBox CFieldName) by reflexivity.
      replace (nkind_of n_field_body) with (NBox CFieldBody) by reflexivity. rewrite !app_nil_r.
      change (flat_map (skel_node D) ncs) with (skel_nodes D ncs).
      change (flat_map (skel_node D) bcs) with (skel_nodes D bcs).
      rewrite (Nsk Hy Hd1'), (Bsk Hy Hd2').
      assert (Hs1 : sktok n = [SBox CFieldName (flat_map sktok (children n))]) by (tk n; rewrite Kn; reflexivity).
      assert (Hs2 : sktok b = [SBox CFieldBody (flat_map sktok (children b))]) by (tk b; rewrite Kb; reflexivity).
      rewrite Hs1, Hs2. reflexivity.
  Qed.

  Lemma post_field_loop cs : forall ctag f ns f',
    field_static cs = true -> Forall (all_sub tok_ok) cs -> forallb static_tok cs = true ->
    run_f (field_loop (map bld cs)) ctag f = Some (Good (ns, f')) ->
    nodes_ok (forallb tshape cs) (forallb hr_free cs) f ns f' /\ skel_ok (flat_map sktok cs) ns.
  Proof.
    remember (length cs) as len eqn:El. revert cs El.
    induction len as [len IH] using lt_wf_ind. intros cs El ctag f ns f' Hfs Hall Hst H.
    destruct cs as [|n [|b r]]; cbn [field_static] in Hfs; try discriminate.
    - cbn in H. inversion H; subst. split; [apply nodes_ok_nil; lia | apply skel_ok_nil].
    - destruct (kind_of (ty n)) eqn:Kn; try discriminate. destruct (kind_of (ty b)) eqn:Kb; try discriminate.
      cbn [map field_loop] in H. rewrite !rt_tok_build, Kn, Kb in H.
      apply run_f_seq_inv in H. destruct H as [n1 [f1 [n2 [H1 [H2 ->]]]]].
      inversion Hall as [|? ? An Hall']; subst. inversion Hall' as [|? ? Ab Hall'']; subst.
      cbn [forallb] in Hst. apply andb_true_iff in Hst. destruct Hst as [Sn Hst].
      apply andb_true_iff in Hst. destruct Hst as [Sb Sr].
      destruct (post_field n b _ _ _ _ ltac:(apply sub_ok_of; auto; rewrite Kn; exact I) Kn
                           ltac:(apply sub_ok_of; auto; rewrite Kb; exact I) Kb H1) as [A1 A2].
      destruct (IH (length r) ltac:(cbn [length]; lia) r eq_refl _ _ _ _ Hfs Hall'' Sr H2) as [B1 B2].
      split.
      + cbn [forallb]. rewrite !andb_assoc. eapply nodes_ok_app; eauto.
      + cbn [flat_map]. rewrite app_assoc. apply skel_ok_app; auto.
  Qed.

  Lemma post_field_list t ctag f ns f' :
    Forall (all_sub tok_ok) (children t) -> static_tok t = true -> kind_of (ty t) = KFieldList ->
    run_f (render_field_list C OR t (map bld (children t))) ctag f = Some (Good (ns, f')) -> post t f ns f'.
  Proof.
    intros Ha Hst K H. unfold render_field_list in H.
    apply run_f_FOp_inv in H. destruct H as [o [f1 [Ea H]]].
    apply run_f_FOp_inv in H. destruct H as [[a msgs] [f2 [Ec H]]].
    apply copy_attributes_post in Ec. destruct Ec as [Hm _].
    apply run_f_Ctx_inv in H. destruct H as [cs [f3 [ns' [Hb [Hd ->]]]]].
    apply run_f_Done_inv in Hd. destruct Hd as [-> ->].
    assert (Hfs : field_static (children t) = true).
    { pose proof Hst as X. rewrite static_tok_eq, K in X. apply andb_true_iff in X. destruct X as [X _].
      apply andb_true_iff in X. destruct X as [_ X]. exact X. }
    assert (Hstk : forallb static_tok (children t) = true) by (apply static_kids; auto; rewrite K; exact I).
    destruct (post_field_loop (children t) _ _ _ _ Hfs Ha Hstk Hb) as [Gno Gsk].
    split.
    - rewrite hr_free_kids, tshape_kids by (rewrite K; exact I). eapply nodes_ok_container; eauto. plain.
    - assert (Hsk : sktok t = [SBox CFieldList (flat_map sktok (children t))]) by (tk t; rewrite K; reflexivity).
      rewrite Hsk. apply skel_box; auto. destruct Hm; auto.
  Qed.

  (* ---- every token ---- *)
  Theorem build_post : forall t, all_sub tok_ok t.
  Proof.
    induction t as [ty0 tag0 attrs0 content0 markup0 info0 meta0 map0 cs IHcs] using tok_ind'.
    set (t := Tok ty0 tag0 attrs0 content0 markup0 info0 meta0 map0 cs).
    assert (Hsub : all_sub tok_ok t -> all_sub tok_ok t) by auto.
    assert (Hk : Forall tok_ok cs) by (eapply Forall_impl; [|exact IHcs]; apply all_sub_here).
    assert (Main : tok_ok t).
    2:{ constructor; [exact Main | exact IHcs]. }
    intros Hst ctag f ns f' H. rewrite rt_run_build in H. change (children t) with cs in H.
    unfold dispatch in H. change (ty t) with ty0 in H.
    destruct (has_rule B ty0); cbn [negb] in H; [|eapply post_no_rule; exact H].
    assert (Hbox : forall k, sktok t = [SBox k (flat_map sktok cs)] -> sktok t = [SBox k (flat_map sktok (children t))]) by auto.
    destruct (kind_of ty0) eqn:K; try (apply run_f_Fail_inv in H; contradiction).
    - (* paragraph *) unfold render_paragraph in H.
      eapply (post_box_container t k_paragraph [] keys_ci CParagraph); eauto; try plain; try reflexivity.
      + unfold t. cbn [ty]. rewrite K. exact I.
      + unfold t. cbn [skel_tok ty children]. rewrite K. reflexivity.
    - (* inline *) eapply post_inline; eauto.
    - (* text *) eapply post_text; eauto.
    - (* softbreak *) eapply post_softbreak; eauto.
    - (* hardbreak *) eapply post_hardbreak; eauto.
    - (* em *) unfold render_em in H.
      eapply (post_bare t n_emphasis CEm); eauto; try plain; try reflexivity.
      + unfold t. cbn [ty]. rewrite K. exact I.
      + unfold t. cbn [skel_tok ty children]. rewrite K. reflexivity.
    - (* strong *) unfold render_strong in H.
      eapply (post_bare t k_strong CStrong); eauto; try plain; try reflexivity.
      + unfold t. cbn [ty]. rewrite K. exact I.
      + unfold t. cbn [skel_tok ty children]. rewrite K. reflexivity.
    - (* s *) eapply post_s; eauto.
    - (* code_inline *) eapply post_code_inline; eauto.
    - (* code_block *) eapply post_code_block; eauto.
    - (* fence *) eapply post_fence; eauto.
    - (* blockquote *) unfold render_blockquote in H.
      destruct (has_key a_attribution (attrs t)); [apply run_f_Fail_inv in H; contradiction|].
      eapply (post_box_container t n_block_quote [] keys_ci CQuote); eauto; try plain; try reflexivity.
      + unfold t. cbn [ty]. rewrite K. exact I.
      + unfold t. cbn [skel_tok ty children]. rewrite K. reflexivity.
    - (* bullet_list *) eapply post_bullet_list; eauto.
    - (* ordered_list *) eapply post_ordered_list; eauto.
    - (* list_item *) unfold render_list_item in H.
      eapply (post_box_container t k_list_item [] keys_ci CItem); eauto; try plain; try reflexivity.
      + unfold t. cbn [ty]. rewrite K. exact I.
      + unfold t. cbn [skel_tok ty children]. rewrite K. reflexivity.
    - (* hr *) eapply post_hr; eauto.
    - (* heading *) eapply post_heading; eauto.
    - (* link *) eapply post_link; eauto.
    - (* image *) eapply post_image; eauto.
    - (* html_block *) eapply post_html; eauto.
    - (* html_inline *) unfold render_html_inline in H. eapply post_html; eauto.
    - (* table *) eapply post_table; eauto.
    - (* math_inline *) eapply post_math_inline; eauto.
    - (* math_inline_double *) eapply post_math_block; eauto.
    - (* math_single *) eapply post_math_inline; eauto.
    - (* math_block *) eapply post_math_block; eauto.
    - (* math_block_label *) eapply post_math_block_label; eauto.
    - (* amsmath *) eapply post_amsmath; eauto.
    - (* footnote_ref *) eapply post_footnote_ref; eauto.
    - (* footnote_reference *) eapply post_footnote_reference; eauto.
    - (* myst_target *) eapply post_myst_target; eauto.
    - (* myst_block_break *) eapply post_block_break; eauto.
    - (* myst_line_comment *) eapply post_line_comment; eauto.
    - (* dl *) eapply post_dl; eauto.
    - (* field_list *) eapply post_field_list; eauto.
    - (* span *) unfold render_span in H.
      eapply (post_box_container t k_inline [] keys_ci CSpan); eauto; try plain; try reflexivity.
      + unfold t. cbn [ty]. rewrite K. exact I.
      + unfold t. cbn [skel_tok ty children]. rewrite K. reflexivity.
    - (* colon_fence *) unfold render_colon_fence in H.
      change (match o_split OR (o_strip OR (info t)) with w :: _ => w | [] => [] end) with (info_name OR t) in H.
      change (directive_arguments OR (info t)) with (info_arguments OR t) in H.
      destruct (starts_brace (info_name OR t) && ends_brace (info_name OR t)) eqn:Eb;
        [|apply run_f_Fail_inv in H; contradiction].
      eapply (post_dyn_splice t _ [SUnknown ty0]); [| |exact H].
      + unfold dyn_key. change (ty t) with ty0. rewrite K. unfold braced. rewrite Eb. reflexivity.
      + unfold t. cbn [skel_tok ty]. rewrite K. reflexivity.
    - (* myst_role *) unfold render_myst_role in H.
      destruct (assoc a_name (meta t)) as [name|] eqn:En; [|apply run_f_Fail_inv in H; contradiction].
      eapply (post_dyn_splice t _ [SUnknown ty0]); [| |exact H].
      + unfold dyn_key. change (ty t) with ty0. rewrite K, En. reflexivity.
      + unfold t. cbn [skel_tok ty]. rewrite K. reflexivity.
    - (* substitution_inline *)
      eapply (post_dyn_splice t _ [SUnknown ty0]); [| |exact H].
      + unfold dyn_key. change (ty t) with ty0. rewrite K. reflexivity.
      + unfold t. cbn [skel_tok ty]. rewrite K. reflexivity.
    - (* substitution_block *)
      eapply (post_dyn_splice t _ [SUnknown ty0]); [| |exact H].
      + unfold dyn_key. change (ty t) with ty0. rewrite K. reflexivity.
      + unfold t. cbn [skel_tok ty]. rewrite K. reflexivity.
    - (* front_matter *)
      eapply (post_dyn_splice t _ [SUnknown ty0]); [| |exact H].
      + unfold dyn_key. change (ty t) with ty0. rewrite K. reflexivity.
      + unfold t. cbn [skel_tok ty]. rewrite K. reflexivity.
  Qed.
End Main.
