(* The per-render state that is not the tree: allocation counter, warnings, and a model of the
   docutils `document` registries (ids, nameids, nametypes, id_counter, footnote lists) written
   from docutils/nodes.py (set_id, set_name_id_map, set_duplicate_name_id, dupname, the note_ functions).
   The attributes that docutils mutates through object references (names, dupnames, ids, and
   the refuri it inspects) live in a side table keyed by object identity; `decorate` (Render.v)
   merges them into the tree at the end. *)
From Coq Require Import List NArith Bool.
From MV Require Import Base.PyStr.
From MV Require Import Base.Res.
From MV Require Import Doc.Str.
From MV Require Import Doc.Node.
Import ListNotations.
Open Scope N_scope.

Inductive err : Type :=
| EPy (e : exn)          (* a Python exception escapes *)
| ENotModelled           (* construct outside the modelled static subset *)
| EModel.                (* internal inconsistency of the model (never for valid states) *)

Inductive outcome (A : Type) : Type :=
| Good (a : A)
| Bad (e : err).
Arguments Good {A} a.
Arguments Bad {A} e.

Record nrec := mkNrec {
  nr_tag : str; nr_names : list str; nr_dupnames : list str; nr_ids : list str; nr_refuri : option str }.

Record fstate := mkF {
  nxt : N;                               (* next allocation number *)
  warns : list str;                      (* type.subtype of every warning logged, in order *)
  ids : list (str * N);                  (* document.ids : id -> object *)
  nameids : list (str * option str);     (* document.nameids *)
  nametypes : list (str * bool);         (* document.nametypes *)
  idcount : list (str * N);              (* document.id_counter *)
  objs : list (N * nrec);                (* names / dupnames / ids / refuri of registered objects *)
  footnotes : list N;                    (* document.footnotes *)
  autofootnotes : list N;                (* document.autofootnotes *)
  footnote_refs : list (str * list N);   (* document.footnote_refs *)
  autofootnote_refs : list N;            (* document.autofootnote_refs *)
  uuidc : N                              (* number of random labels drawn (Sphinx amsmath) *)
}.

Definition fop (B : Type) := fstate -> outcome (B * fstate).

Definition f_init : fstate :=
  mkF 1 [] [] [] [] [] [] [] [] [] [] 0.

Definition set_nxt (f : fstate) (n : N) : fstate :=
  mkF n (warns f) (ids f) (nameids f) (nametypes f) (idcount f) (objs f) (footnotes f) (autofootnotes f)
      (footnote_refs f) (autofootnote_refs f) (uuidc f).
Definition set_warns (f : fstate) (w : list str) : fstate :=
  mkF (nxt f) w (ids f) (nameids f) (nametypes f) (idcount f) (objs f) (footnotes f) (autofootnotes f)
      (footnote_refs f) (autofootnote_refs f) (uuidc f).
Definition set_ids (f : fstate) (x : list (str * N)) : fstate :=
  mkF (nxt f) (warns f) x (nameids f) (nametypes f) (idcount f) (objs f) (footnotes f) (autofootnotes f)
      (footnote_refs f) (autofootnote_refs f) (uuidc f).
Definition set_nameids (f : fstate) (x : list (str * option str)) : fstate :=
  mkF (nxt f) (warns f) (ids f) x (nametypes f) (idcount f) (objs f) (footnotes f) (autofootnotes f)
      (footnote_refs f) (autofootnote_refs f) (uuidc f).
Definition set_nametypes (f : fstate) (x : list (str * bool)) : fstate :=
  mkF (nxt f) (warns f) (ids f) (nameids f) x (idcount f) (objs f) (footnotes f) (autofootnotes f)
      (footnote_refs f) (autofootnote_refs f) (uuidc f).
Definition set_idcount (f : fstate) (x : list (str * N)) : fstate :=
  mkF (nxt f) (warns f) (ids f) (nameids f) (nametypes f) x (objs f) (footnotes f) (autofootnotes f)
      (footnote_refs f) (autofootnote_refs f) (uuidc f).
Definition set_objs (f : fstate) (x : list (N * nrec)) : fstate :=
  mkF (nxt f) (warns f) (ids f) (nameids f) (nametypes f) (idcount f) x (footnotes f) (autofootnotes f)
      (footnote_refs f) (autofootnote_refs f) (uuidc f).
Definition set_footnotes (f : fstate) (x : list N) : fstate :=
  mkF (nxt f) (warns f) (ids f) (nameids f) (nametypes f) (idcount f) (objs f) x (autofootnotes f)
      (footnote_refs f) (autofootnote_refs f) (uuidc f).
Definition set_autofootnotes (f : fstate) (x : list N) : fstate :=
  mkF (nxt f) (warns f) (ids f) (nameids f) (nametypes f) (idcount f) (objs f) (footnotes f) x
      (footnote_refs f) (autofootnote_refs f) (uuidc f).
Definition set_footnote_refs (f : fstate) (x : list (str * list N)) : fstate :=
  mkF (nxt f) (warns f) (ids f) (nameids f) (nametypes f) (idcount f) (objs f) (footnotes f) (autofootnotes f)
      x (autofootnote_refs f) (uuidc f).
Definition set_autofootnote_refs (f : fstate) (x : list N) : fstate :=
  mkF (nxt f) (warns f) (ids f) (nameids f) (nametypes f) (idcount f) (objs f) (footnotes f) (autofootnotes f)
      (footnote_refs f) x (uuidc f).
Definition set_uuidc (f : fstate) (x : N) : fstate :=
  mkF (nxt f) (warns f) (ids f) (nameids f) (nametypes f) (idcount f) (objs f) (footnotes f) (autofootnotes f)
      (footnote_refs f) (autofootnote_refs f) x.

(* ---- monad of pure state operations ---- *)
Definition fret {A} (a : A) : fop A := fun f => Good (a, f).
Definition fbind {A B} (m : fop A) (k : A -> fop B) : fop B :=
  fun f => match m f with Good (a, f') => k a f' | Bad e => Bad e end.
Definition ffail {A} (e : err) : fop A := fun _ => Bad e.

Notation "x <-- m ;; k" := (fbind m (fun x => k)) (at level 61, m at next level, right associativity).
Notation "' p <-- m ;; k" := (fbind m (fun p => k)) (at level 61, p pattern, m at next level, right associativity).

(* construction of a Python node object: a fresh allocation number *)
Definition alloc : fop N := fun f => Good (nxt f, set_nxt f (N.succ (nxt f))).

Definition log_warning (tag : str) : fop unit := fun f => Good (tt, set_warns f (warns f ++ [tag])).

Definition k_system_message := Eval vm_compute in lit "system_message".
Definition k_level := Eval vm_compute in lit "level".
Definition k_msg := Eval vm_compute in lit "msg".

(* a system_message element (its paragraph/text children are not modelled) *)
Definition mk_sysmsg (level : N) (tag : str) : fop node :=
  o <-- alloc ;; fret (Elem o k_system_message [(k_level, [show level]); (k_msg, [tag])] []).

(* create_warning(...) of myst_parser.warnings_ with nothing suppressed: logs, returns the node *)
Definition create_warning (tag : str) : fop node :=
  _ <-- log_warning tag ;; mk_sysmsg 2 tag.

(* ---- side table ---- *)
Definition empty_rec (tg : str) : nrec := mkNrec tg [] [] [] None.

Definition get_rec (o : N) (tg : str) (f : fstate) : nrec :=
  match nassoc o (objs f) with Some r => r | None => empty_rec tg end.

Definition put_rec (o : N) (r : nrec) : fop unit := fun f => Good (tt, set_objs f (nset o r (objs f))).

(* node["names"].append(name) *)
Definition add_name (o : N) (tg name : str) : fop unit := fun f =>
  let r := get_rec o tg f in
  put_rec o (mkNrec (nr_tag r) (nr_names r ++ [name]) (nr_dupnames r) (nr_ids r) (nr_refuri r)) f.

(* node["names"] / node["names"] = l *)
Definition get_names (o : N) (tg : str) : fop (list str) := fun f => Good (nr_names (get_rec o tg f), f).
Definition set_names (o : N) (tg : str) (l : list str) : fop unit := fun f =>
  let r := get_rec o tg f in
  put_rec o (mkNrec (nr_tag r) l (nr_dupnames r) (nr_ids r) (nr_refuri r)) f.

(* node["refuri"] = uri, for objects that are (or may later be) registered *)
Definition set_refuri (o : N) (tg : str) (uri : str) : fop unit := fun f =>
  let r := get_rec o tg f in
  put_rec o (mkNrec (nr_tag r) (nr_names r) (nr_dupnames r) (nr_ids r) (Some uri)) f.

(* dupname(node, name) *)
Definition dupname (o : N) (name : str) : fop unit := fun f =>
  match nassoc o (objs f) with
  | None => Bad EModel
  | Some r =>
      if mem_str name (nr_names r)
      then put_rec o (mkNrec (nr_tag r) (remove_first name (nr_names r)) (nr_dupnames r ++ [name])
                             (nr_ids r) (nr_refuri r)) f
      else Bad (EPy ValueError)      (* list.remove(x): x not in list *)
  end.

Section Registry.
  Variable make_id : str -> str.        (* docutils.nodes.make_id *)
  Variable auto_id_prefix : str.        (* settings.auto_id_prefix: "%" (docutils default), "id" (Sphinx) *)

  Definition k_dupid := Eval vm_compute in lit "docutils.duplicate-id".
  Definition k_dupexp := Eval vm_compute in lit "docutils.duplicate-explicit-name".
  Definition k_dupimp := Eval vm_compute in lit "docutils.duplicate-implicit-name".
  Definition c_percent : N := 37.
  Definition c_hyphen : N := 45.

  Definition ends_percent (s : str) : bool :=
    match rev s with c :: _ => c =? c_percent | [] => false end.
  Definition drop_last (s : str) : str := rev (match rev s with _ :: r => r | [] => [] end).

  (* for id in node['ids']: self.ids.setdefault(id, node); if self.ids[id] is not node: severe *)
  Fixpoint register_ids (o : N) (l : list str) (msgs : list node) : fop (list node) :=
    match l with
    | [] => fret msgs
    | i :: r => fun f =>
        match assoc i (ids f) with
        | None => register_ids o r msgs (set_ids f (aset i o (ids f)))
        | Some o' => if o' =? o then register_ids o r msgs f
                     else (m <-- mk_sysmsg 4 k_dupid ;; register_ids o r (msgs ++ [m])) f
        end
    end.

  (* the for-loop over node['names'] of set_id: (broke out?, base_id, id) *)
  Fixpoint name_loop (names : list str) (base id : str) (f : fstate) : bool * str * str :=
    match names with
    | [] => (false, base, id)
    | n :: r => let b := make_id n in
                if negb (is_empty b) && negb (has_key b (ids f)) then (true, b, b)
                else name_loop r b b f
    end.

  (* while True: counter += 1; id = prefix + str(counter); if id not in ids: break *)
  Fixpoint counter_loop (fuel : nat) (prefix : str) (c : N) (f : fstate) : outcome (str * N) :=
    match fuel with
    | O => Bad (EPy OutOfFuel)
    | S fuel' => let c' := c + 1 in
                 let i := prefix ++ show c' in
                 if has_key i (ids f) then counter_loop fuel' prefix c' f else Good (i, c')
    end.

  (* document.set_id(node, msgnode=node or None, suggested_prefix='') ; returns (id, messages) *)
  Definition set_id (o : N) (tg : str) : fop (str * list node) := fun f =>
    let r := get_rec o tg f in
    match nr_ids r with
    | i0 :: rest =>
        match register_ids o (nr_ids r) [] f with
        | Good (msgs, f') => Good ((last rest i0, msgs), f')     (* node['ids'][-1] of a non-empty list *)
        | Bad e => Bad e
        end
    | [] =>
        let '(broke, base, i0) := name_loop (nr_names r) [] [] f in
        let fin (i : str) (f1 : fstate) :=
            let r1 := get_rec o tg f1 in
            Good ((i, []), set_ids (set_objs f1 (nset o (mkNrec (nr_tag r1) (nr_names r1) (nr_dupnames r1)
                                                                 (nr_ids r1 ++ [i]) (nr_refuri r1)) (objs f1)))
                                   (aset i o (ids f1))) in
        if broke then fin i0 f
        else
          let prefix :=
              if negb (is_empty base) && ends_percent auto_id_prefix then i0 ++ [c_hyphen]
              else if ends_percent auto_id_prefix
                   then drop_last auto_id_prefix ++ make_id tg ++ [c_hyphen]
                   else auto_id_prefix in
          let c0 := match assoc prefix (idcount f) with Some c => c | None => 0 end in
          match counter_loop (S (length (ids f))) prefix c0 f with
          | Good (i, c') => fin i (set_idcount f (aset prefix c' (idcount f)))
          | Bad e => Bad e
          end
    end.

  Definition lookup_obj (i : str) : fop N := fun f =>
    match assoc i (ids f) with Some o => Good (o, f) | None => Bad (EPy KeyError) end.

  Definition rec_of (o : N) : fop nrec := fun f =>
    match nassoc o (objs f) with Some r => Good (r, f) | None => Bad EModel end.

  (* document.set_duplicate_name_id(node, id, name, msgnode, explicit); returns the messages *)
  Definition set_duplicate_name_id (o : N) (i name : str) (explicit : bool) : fop (list node) := fun f =>
    match assoc name (nameids f), assoc name (nametypes f) with
    | Some old_id, Some old_explicit =>
        let f := set_nametypes f (aset name (old_explicit || explicit) (nametypes f)) in
        (msgs1 <--
          (if explicit then
             if old_explicit then
               level <--
                 (match old_id with
                  | None => fret 2
                  | Some oid' =>
                      oo <-- lookup_obj oid' ;;
                      ro <-- rec_of oo ;;
                      rn <-- rec_of o ;;
                      let level :=
                          match nr_refuri rn with
                          | Some u => match nr_names ro, nr_refuri ro with
                                      | _ :: _, Some u' => if str_eqb u u' then 1 else 2
                                      | _, _ => 2
                                      end
                          | None => 2
                          end in
                      if 1 <? level
                      then _ <-- dupname oo name ;;
                           (fun f => Good (level, set_nameids f (aset name None (nameids f))))
                      else fret level
                  end) ;;
               m <-- mk_sysmsg level k_dupexp ;;
               _ <-- dupname o name ;;
               fret [m]
             else
               _ <-- (fun f => Good (tt, set_nameids f (aset name (Some i) (nameids f)))) ;;
               match old_id with
               | Some oid' => oo <-- lookup_obj oid' ;; _ <-- dupname oo name ;; fret []
               | None => fret []
               end
           else
             _ <-- (match old_id with
                    | Some oid' =>
                        if negb old_explicit
                        then _ <-- (fun f => Good (tt, set_nameids f (aset name None (nameids f)))) ;;
                             oo <-- lookup_obj oid' ;; dupname oo name
                        else fret tt
                    | None => fret tt
                    end) ;;
             _ <-- dupname o name ;; fret []) ;;
         if negb explicit || (negb old_explicit && match old_id with Some _ => true | None => false end)
         then m <-- mk_sysmsg 1 k_dupimp ;; fret (msgs1 ++ [m])
         else fret msgs1) f
    | _, _ => Bad (EPy KeyError)
    end.

  (* document.set_name_id_map: for name in tuple(node['names']) *)
  Fixpoint set_name_id_map (o : N) (i : str) (names : list str) (explicit : bool) (msgs : list node)
    : fop (list node) :=
    match names with
    | [] => fret msgs
    | name :: r => fun f =>
        if has_key name (nameids f)
        then (ms <-- set_duplicate_name_id o i name explicit ;;
              set_name_id_map o i r explicit (msgs ++ ms)) f
        else set_name_id_map o i r explicit msgs
               (set_nametypes (set_nameids f (aset name (Some i) (nameids f)))
                              (aset name explicit (nametypes f)))
    end.

  (* note_explicit_target / note_implicit_target (target, msgnode): messages go to msgnode *)
  Definition note_target (o : N) (tg : str) (explicit : bool) : fop (list node) :=
    '(i, m1) <-- set_id o tg ;;
    r <-- (fun f => Good (get_rec o tg f, f)) ;;
    m2 <-- set_name_id_map o i (nr_names r) explicit [] ;;
    fret (m1 ++ m2).

  (* set_id with msgnode=None: the messages are created (and printed) but attached nowhere *)
  Definition set_id_nomsg (o : N) (tg : str) : fop unit :=
    _ <-- set_id o tg ;; fret tt.

  Definition note_footnote (o : N) (tg : str) : fop unit :=
    _ <-- set_id_nomsg o tg ;; (fun f => Good (tt, set_footnotes f (footnotes f ++ [o]))).
  Definition note_autofootnote (o : N) (tg : str) : fop unit :=
    _ <-- set_id_nomsg o tg ;; (fun f => Good (tt, set_autofootnotes f (autofootnotes f ++ [o]))).
  Definition note_autofootnote_ref (o : N) (tg : str) : fop unit :=
    _ <-- set_id_nomsg o tg ;; (fun f => Good (tt, set_autofootnote_refs f (autofootnote_refs f ++ [o]))).
  Definition note_footnote_ref (o : N) (tg refname : str) : fop unit :=
    _ <-- set_id_nomsg o tg ;;
    (fun f => let old := match assoc refname (footnote_refs f) with Some l => l | None => [] end in
              Good (tt, set_footnote_refs f (aset refname (old ++ [o]) (footnote_refs f)))).
End Registry.
