(* C02 "both back ends produce the same document", beyond the skeleton.

   1. The SPECIFICATION of what is specific to one back end (erase_be): the documented differences between the
      doctree of DocutilsRenderer and that of SphinxRenderer for the same tokens.  Two doctrees agree when they
      are equal, node for node and attribute for attribute, after this erasure (trees_agree).
   2. A THEOREM for the fragment on which no erasure at all is needed: for token forests without back-end
      specific constructs (backend_free) the two renderers are the same program - identical doctree,
      identical warnings.
   3. The executable checks the correspondence evaluates on real token trees (agree_check, xform_check,
      total_check): trees_agree for every forest, and the statements that are measured, not proved. *)
From Coq Require Import List NArith Bool.
From MV Require Import Base.PyStr.
From MV Require Import Doc.Str.
From MV Require Import Doc.Tok.
From MV Require Import Doc.Node.
From MV Require Import Doc.Registry.
From MV Require Import Doc.Prog.
From MV Require Import Gen.Render.
From MV Require Import Doc.Render.
From MV Require Import Doc.RenderProofs.
From MV Require Import Doc.Skel.
From MV Require Import Doc.SkelCheck.
From MV Require Import Doc.WF.
From MV Require Import Doc.Transforms.
From MV Require Import Doc.Api.
From MV Require Import Doc.IdsProofs.
From MV Require Import Doc.TopProofs.
From MV Require Import Doc.Total.
From MV Require Import Doc.PostProofs.
From MV Require Import Doc.Final.
Import ListNotations.
Open Scope N_scope.

(* ------------------------------------------------------------------ 1. the erasure *)
Definition a_dest := Eval vm_compute in lit "dest".
Definition a_docname := Eval vm_compute in lit "docname".
Definition a_number := Eval vm_compute in lit "number".

(* attributes that depend on the back end wherever they occur:
     ids, backrefs, refid   ids generated without a name use settings.auto_id_prefix ("%" docutils, "id" Sphinx)
     docname                Sphinx stamps nodes with the document name
     refdoc / refdomain / reftype / reftarget / reftargetid / refexplicit   pending_xref bookkeeping
     refname / refuri on a link are replaced by the single attribute `dest` (see erase_be) *)
Definition be_attrs : list str :=
  [a_ids; a_backrefs; a_refid; a_docname; a_refdoc; a_refdomain; a_reftype; a_reftarget; a_reftargetid;
   a_refexplicit].

Definition drop_keys (ks : list str) (a : nattrs) : nattrs :=
  filter (fun kv => negb (mem_str (fst kv) ks)) a.

(* classes Sphinx adds to a section when MathJax is configured *)
Definition drop_mathjax_classes (a : nattrs) : nattrs :=
  match assoc a_classes a with
  | Some l =>
      match filter (fun c => negb (str_eqb c v_tex2jax_ignore || str_eqb c v_mathjax_ignore)) l with
      | [] => adel a_classes a
      | l' => aset a_classes l' a
      end
  | None => a
  end.

Definition is_equation_target (a : nattrs) : bool :=
  match assoc a_ids a with
  | Some (i :: _) => startswith i v_equation_
  | _ => false
  end.

(* the title of a link: `reftitle` on a docutils reference, `title` on a Sphinx pending_xref *)
Definition rename_key (k k' : str) (a : nattrs) : nattrs :=
  map (fun kv => if str_eqb (fst kv) k then (k', snd kv) else kv) a.

Section Erase.
  Variable D : str -> str.      (* canonical form of a link destination (normalizeLinkText) *)

  Fixpoint erase_be (n : node) : list node :=
    match n with
    | Text _ s => [Text 0 s]
    | Elem _ tg a cs =>
        let kids := flat_map erase_be cs in
        if str_eqb tg k_system_message then []
          (* warnings differ: `path:` / `project:` links, unknown roles, lexer errors *)
        else if str_eqb tg n_target && is_equation_target a then []
          (* Sphinx puts a target node with the preset id `equation-<label>` in front of a labelled /
             numbered equation *)
        else if str_eqb tg n_literal_block then
          (* docutils: classes [code, <language>, ...] and pygments token inlines; Sphinx: the language
             attribute and the plain text.  Only the text is common, up to one final newline that docutils'
             Lexer drops (how the language is carried: Skel.lang_carried). *)
          [Elem 0 tg [] [Text 0 (strip1nl (flat_map astext cs))]]
        else if str_eqb tg k_math_block then
          (* Sphinx: label / number / docname attributes (and the target above); docutils: the label as a name, and
             `numbered` on a numbered amsmath environment *)
          [Elem 0 tg (drop_keys (a_label :: a_number :: a_numbered :: a_names :: a_dupnames :: be_attrs) a) kids]
        else if str_eqb tg n_pending_xref || str_eqb tg n_download_reference then
          (* a link that is not an external URL: Sphinx wraps the link text in an inline of classes
             [xref, myst] under a pending_xref (resolved later); an empty link gets no text here *)
          let inner := flat_map (fun c => match c with
                                          | Elem _ tg' _ cs' =>
                                              if str_eqb tg' k_inline then flat_map erase_be cs'
                                              else if str_eqb tg' n_literal then []
                                              else erase_be c
                                          | Text _ _ => erase_be c
                                          end) cs in
          [Elem 0 n_reference
                ((a_dest, [D (first_str (assoc a_reftarget a))])
                   :: rename_key a_title a_reftitle (drop_keys (a_classes :: be_attrs) a)) inner]
        else if str_eqb tg n_reference && has_key a_refname a then
          (* ... docutils leaves a reference with refname = the destination *)
          [Elem 0 n_reference
                ((a_dest, [D (first_str (assoc a_refname a))])
                   :: drop_keys (a_refname :: a_classes :: be_attrs) a) kids]
        else if str_eqb tg n_section then
          [Elem 0 tg (drop_mathjax_classes (drop_keys be_attrs a)) kids]
        else [Elem 0 tg (drop_keys be_attrs a) kids]
    end.
End Erase.

Fixpoint node_eqb (a b : node) {struct a} : bool :=
  match a, b with
  | Text _ x, Text _ y => str_eqb x y
  | Elem _ t1 a1 c1, Elem _ t2 a2 c2 =>
      str_eqb t1 t2
      && (fix attrs_eqb (x y : nattrs) : bool :=
            match x, y with
            | [], [] => true
            | (k1, v1) :: x', (k2, v2) :: y' => str_eqb k1 k2 && strs_eqb v1 v2 && attrs_eqb x' y'
            | _, _ => false
            end) a1 a2
      && (fix go (x y : list node) : bool :=
            match x, y with
            | [], [] => true
            | p :: x', q :: y' => node_eqb p q && go x' y'
            | _, _ => false
            end) c1 c2
  | _, _ => false
  end.

Fixpoint nodes_eqb (x y : list node) : bool :=
  match x, y with
  | [], [] => true
  | p :: x', q :: y' => node_eqb p q && nodes_eqb x' y'
  | _, _ => false
  end.

(* attribute order is not significant: sort is avoided by comparing after a canonical insertion order *)
Fixpoint insert_attr (kv : str * list str) (l : nattrs) : nattrs :=
  match l with
  | [] => [kv]
  | kv' :: r => if str_ltb (fst kv) (fst kv') then kv :: l else kv' :: insert_attr kv r
  end.
Fixpoint sort_attrs (n : node) : node :=
  match n with
  | Text o s => Text o s
  | Elem o tg a cs => Elem o tg (fold_right insert_attr [] a) (map sort_attrs cs)
  end.

Definition trees_agree (D : str -> str) (d s : node) : bool :=
  nodes_eqb (map sort_attrs (erase_be D d)) (map sort_attrs (erase_be D s)).

(* ------------------------------------------------------------------ 2. the fragment without erasure *)
(* token kinds whose render method does not look at the back end *)
Definition kind_backend_free (C : cfg) (t : tok) : bool :=
  match kind_of (ty t) with
  | KFence | KCodeBlock => false                       (* create_highlighted_code_block *)
  | KMathBlockLabel | KAmsmath => false                (* add_math_target *)
  | KDl => false                                       (* glossary terms *)
  | KColonFence | KMystRole | KSubstInline | KSubstBlock | KFrontMatter => false   (* the runs differ *)
  | KLink => match c_mode C with Myst => c_all_links_external C | _ => true end
                                                       (* every link is an external URL *)
  | _ => true
  end.

Fixpoint backend_free (C : cfg) (t : tok) : bool :=
  match t with
  | Tok _ _ _ _ _ _ _ _ cs => kind_backend_free C t && forallb (backend_free C) cs
  end.

Lemma backend_free_eq C t :
  backend_free C t = kind_backend_free C t && forallb (backend_free C) (children t).
Proof. destruct t. reflexivity. Qed.

Lemma rules_same : rules_sphinx = rules_docutils \/ forall ty, mem_str ty rules_sphinx = mem_str ty rules_docutils.
Proof. left. vm_compute. reflexivity. Qed.

Lemma has_rule_same ty : has_rule Sphinx ty = has_rule Docutils ty.
Proof. unfold has_rule, is_sphinx. destruct rules_same as [E|E]; [rewrite E; reflexivity | apply E]. Qed.

Lemma link_dispatch_head : exists rest, link_dispatch = LT_force_url :: rest.
Proof. eexists. vm_compute. reflexivity. Qed.

Section Same.
  Variable C : cfg.
  Variable OR : oracles.

  Lemma map_ext_Forall {A B} (f g : A -> B) l : Forall (fun x => f x = g x) l -> map f l = map g l.
  Proof. induction 1; simpl; congruence. Qed.

  Theorem build_backend_free : forall t, backend_free C t = true -> build Sphinx C OR t = build Docutils C OR t.
  Proof.
    induction t as [ty0 tag0 attrs0 content0 markup0 info0 meta0 map0 cs IH] using tok_ind'.
    set (t := Tok ty0 tag0 attrs0 content0 markup0 info0 meta0 map0 cs). intro Hb.
    rewrite backend_free_eq in Hb. apply andb_true_iff in Hb. destruct Hb as [Hk Hc].
    change (children t) with cs in Hc.
    assert (Hks : map (build Sphinx C OR) cs = map (build Docutils C OR) cs).
    { apply map_ext_Forall. rewrite Forall_forall in *. rewrite forallb_forall in Hc. intros c Hin. auto. }
    rewrite !build_eq. change (children t) with cs. rewrite Hks. f_equal.
    unfold dispatch. rewrite has_rule_same. destruct (has_rule Docutils (ty t)); cbn [negb]; [|reflexivity].
    unfold kind_backend_free in Hk.
    destruct (kind_of (ty t)) eqn:K; try discriminate; try reflexivity.
    (* link: the first dispatch test (commonmark / gfm mode or all_links_external) applies *)
    unfold render_link. destruct link_dispatch_head as [rest ->]. cbn [link_dispatch_loop link_test_apply].
    destruct (c_mode C); cbn [orb]; try reflexivity. rewrite Hk. reflexivity.
  Qed.

  (* same program, same oracle, same initial state: the very same document and warnings *)
  Theorem render_backend_free : forall ts,
    forallb (backend_free C) ts = true -> render_doc Sphinx C OR ts = render_doc Docutils C OR ts.
  Proof.
    intros ts H. unfold render_doc, render_state, render_tokens.
    assert (E : map (build Sphinx C OR) ts = map (build Docutils C OR) ts).
    { apply map_ext_Forall. apply Forall_forall. intros t Hin. apply build_backend_free.
      rewrite forallb_forall in H. auto. }
    rewrite E. reflexivity.
  Qed.
End Same.

(* ------------------------------------------------------------------ 3. executable checks (measured statements) *)
Fixpoint label_first (n : node) : bool :=
  match n with
  | Text _ _ => true
  | Elem _ tg _ cs =>
      (if str_eqb tg n_footnote
       then match cs with c :: _ => str_eqb (tag_of c) n_label | [] => false end
       else true)
      && forallb label_first cs
  end.

(* every refid / backrefs value names an id of the document; a link reported as missing (it carries the
   system message) is the documented exception *)
Fixpoint refids_in (ids : list str) (n : node) : bool :=
  match n with
  | Text _ _ => true
  | Elem _ tg a cs =>
      let reported := existsb (fun c => str_eqb (tag_of c) k_system_message) cs in
      (match assoc a_refid a with
       | Some l => reported || forallb (fun i => mem_str i ids) l
       | None => true
       end)
      && (match assoc a_backrefs a with Some l => forallb (fun i => mem_str i ids) l | None => true end)
      && forallb (refids_in ids) cs
  end.
Definition refids_ok (doc : node) : bool := refids_in (all_ids doc) doc.

(* the premise of the totality theorem (Total.render_doc_total) together with the static grammar: on such a forest
   C02_faithful applies to the document the model renders *)
Definition static_total (B : backend) (C : cfg) (OR : oracles) (ts : list tok) : bool :=
  static B C OR ts && total_forest B C OR ts.

(* (premise of the totality statement, the model renders the forest) *)
Definition total_check (B : backend) (C : cfg) (OR : oracles) (ts : list tok) : bool * bool :=
  (static_total B C OR ts, match render_doc B C OR ts with Good _ => true | Bad _ => false end).

(* after the modelled transforms: (footnotes start with their label, refids and backrefs resolve, ids distinct) *)
Definition xform_check (B : backend) (C : cfg) (OR : oracles) (ts : list tok) : outcome (bool * bool * bool) :=
  match render_xform B C OR ts with
  | Good (doc, _) => Good (label_first doc, refids_ok doc, ids_unique doc)
  | Bad e => Bad e
  end.

(* the same tokens under both back ends (each with its own configuration record): equal after erase_be *)
Definition agree_check (CD CS : cfg) (OR : oracles) (ts : list tok) : outcome (bool * bool) :=
  match render_doc Docutils CD OR ts, render_doc Sphinx CS OR ts with
  | Good (d, _), Good (s, _) =>
      (* (the forest is in the static grammar of both back ends - no inv: / path: / project: link ... -, agreement) *)
      Good (static Docutils CD OR ts && static Sphinx CS OR ts, trees_agree (o_nlt OR) d s)
  | Bad e, _ => Bad e
  | _, Bad e => Bad e
  end.

(* C02_faithful without the premise "the model renders the forest": on the narrowed static grammar the forest is
   rendered and the document is its faithful image, or an operation of the registry interface failed *)
Theorem faithful_total : forall (D : str -> str) B C OR ts,
  O_lexer_concat OR -> O_canon D OR -> O_no_files OR ->
  static_forest B C OR ts = true -> total_forest B C OR ts = true ->
  (exists doc ws, render_doc B C OR ts = Good (doc, ws) /\
                  (has_dropped doc = false -> skel_node D doc = skel_toks D B C OR ts)) \/
  (exists e, render_doc B C OR ts = Bad e /\ reg_fail C OR e).
Proof.
  intros D B C OR ts H1 H2 H3 Hst Ht.
  destruct (render_doc_total B C OR ts Ht) as [[doc [ws E]]|R]; [left|right; exact R].
  exists doc, ws. split; [exact E|]. intro Hd. eapply faithful; eauto.
Qed.
