(* Transcription of myst_parser/mdit_to_docutils/base.py (DocutilsRenderer) and sphinx_.py
   (SphinxRenderer) for the static syntax subset, as programs of Doc/Prog.v: one definition per
   render_<type> method, same order of tests.  Executable definitions only; proofs are in
   Refine.v / RenderProofs.v.

   Deviations from a literal transcription (each is an equivalent re-ordering, validated by the
   correspondence check):
   * names / dupnames / ids of nodes are kept in the registry side table (Registry.v) and merged
     into the tree by `decorate`;
   * render_heading sets current_node to the new section right after update_section_level_state
     (Python does it at the end; in between only current_node_context(title_node) uses current_node,
     and it saves/restores it);
   * nodes that Python appends first and fills afterwards through references other than
     current_node (rubric, Sphinx wrap/inner nodes, definition-list items, fields) are written as
     nested contexts; a definition list is pre-grouped into (dt, following dd's) groups. *)
From Coq Require Import List NArith Bool.
From MV Require Import Base.PyStr.
From MV Require Import Base.Res.
From MV Require Import Doc.Str.
From MV Require Import Doc.Tok.
From MV Require Import Doc.Node.
From MV Require Import Doc.Registry.
From MV Require Import Doc.Prog.
From MV Require Import Gen.Render.
Import ListNotations.
Open Scope N_scope.

Inductive backend := Docutils | Sphinx.
Inductive mode := Commonmark | Gfm | Myst.

Record cfg := mkCfg {
  c_mode : mode;
  c_all_links_external : bool;
  c_url_schemes : list str;          (* keys of md_config.url_schemes (all with conversion None) *)
  c_highlight : bool;                (* md_config.highlight_code_blocks *)
  c_mathjax_block : bool;            (* blocks_mathjax_processing: sphinx and dollarmath and update_mathjax *)
  c_highlight_language : str;        (* sphinx: highlight_language used for fences without info *)
  c_html_convert : bool;             (* html_image or html_admonition enabled (not static) *)
  c_auto_id_prefix : str;            (* settings.auto_id_prefix *)
  c_dup_refs : N;                    (* len(md_env["duplicate_refs"]) *)
  c_footnote_sort : bool;
  c_footnote_transition : bool
}.

(* external library functions (oracles); each is exercised by the correspondence check *)
Record oracles := mkO {
  o_split : str -> list str;                         (* str.split() *)
  o_strip : str -> str;                              (* str.strip() *)
  o_norm_name : str -> str;                          (* docutils.nodes.fully_normalize_name *)
  o_make_id : str -> str;                            (* docutils.nodes.make_id *)
  o_isdigit : str -> bool;                           (* str.isdigit() *)
  o_nlt : str -> str;                                (* MarkdownIt.normalizeLinkText *)
  o_lex : str -> str -> option (list (list str * str)); (* docutils Lexer(text, lang, "short"); None = LexerError *)
  o_gfm_filter : str -> str;                         (* html_to_nodes.RE_FLOW substitution (gfm mode) *)
  o_nl : str -> str;                                 (* markdown_it normalizeLink (ResolveAnchorIds) *)
  o_p2d_raw : str -> option str;                     (* sphinx: env.path2doc(env.relfn2path(p)) (no existence check) *)
  o_path2doc : str -> option (option str);           (* sphinx: None no such file; Some None a file that is no
                                                        document; Some (Some d) the document d *)
  o_docjoin : str -> option str;                     (* sphinx: Some d when d = docname_join(docname, p) is in
                                                        env.found_docs *)
  o_access : str -> bool;                            (* sphinx: os.access(abs path of p, R_OK) (False on NUL) *)
  o_split1 : str -> list str;                        (* str.split(maxsplit=1) *)
  o_dyn : list str -> option (list node * list str)  (* the nodes (identity labels ignored) and the MyST warning
                                                        tags a directive / role / substitution / front-matter run
                                                        produces; key: kind :: name :: arguments ... *)
}.

(* ---- literals ---- *)
Definition k_paragraph := Eval vm_compute in lit "paragraph".
Definition k_inline := Eval vm_compute in lit "inline".
Definition k_text := Eval vm_compute in lit "text".
Definition k_softbreak := Eval vm_compute in lit "softbreak".
Definition k_hardbreak := Eval vm_compute in lit "hardbreak".
Definition k_em := Eval vm_compute in lit "em".
Definition k_strong := Eval vm_compute in lit "strong".
Definition k_s := Eval vm_compute in lit "s".
Definition k_code_inline := Eval vm_compute in lit "code_inline".
Definition k_code_block := Eval vm_compute in lit "code_block".
Definition k_fence := Eval vm_compute in lit "fence".
Definition k_blockquote := Eval vm_compute in lit "blockquote".
Definition k_bullet_list := Eval vm_compute in lit "bullet_list".
Definition k_ordered_list := Eval vm_compute in lit "ordered_list".
Definition k_list_item := Eval vm_compute in lit "list_item".
Definition k_hr := Eval vm_compute in lit "hr".
Definition k_heading := Eval vm_compute in lit "heading".
Definition k_link := Eval vm_compute in lit "link".
Definition k_image := Eval vm_compute in lit "image".
Definition k_html_block := Eval vm_compute in lit "html_block".
Definition k_html_inline := Eval vm_compute in lit "html_inline".
Definition k_table := Eval vm_compute in lit "table".
Definition k_math_inline := Eval vm_compute in lit "math_inline".
Definition k_math_inline_double := Eval vm_compute in lit "math_inline_double".
Definition k_math_single := Eval vm_compute in lit "math_single".
Definition k_math_block := Eval vm_compute in lit "math_block".
Definition k_math_block_label := Eval vm_compute in lit "math_block_label".
Definition k_amsmath := Eval vm_compute in lit "amsmath".
Definition k_footnote_ref := Eval vm_compute in lit "footnote_ref".
Definition k_footnote_reference := Eval vm_compute in lit "footnote_reference".
Definition k_myst_target := Eval vm_compute in lit "myst_target".
Definition k_myst_block_break := Eval vm_compute in lit "myst_block_break".
Definition k_myst_line_comment := Eval vm_compute in lit "myst_line_comment".
Definition k_dl := Eval vm_compute in lit "dl".
Definition k_dt := Eval vm_compute in lit "dt".
Definition k_dd := Eval vm_compute in lit "dd".
Definition k_field_list := Eval vm_compute in lit "field_list".
Definition k_fieldlist_name := Eval vm_compute in lit "fieldlist_name".
Definition k_fieldlist_body := Eval vm_compute in lit "fieldlist_body".
Definition k_span := Eval vm_compute in lit "span".
Definition k_thead := Eval vm_compute in lit "thead".
Definition k_tbody := Eval vm_compute in lit "tbody".
Definition k_tr := Eval vm_compute in lit "tr".
Definition k_th := Eval vm_compute in lit "th".
Definition k_td := Eval vm_compute in lit "td".
Definition k_colon_fence := Eval vm_compute in lit "colon_fence".
Definition k_myst_role := Eval vm_compute in lit "myst_role".
Definition k_substitution_inline := Eval vm_compute in lit "substitution_inline".
Definition k_substitution_block := Eval vm_compute in lit "substitution_block".
Definition k_front_matter := Eval vm_compute in lit "front_matter".

(* docutils tag names / attribute names *)
Definition n_document := Eval vm_compute in lit "document".
Definition n_section := Eval vm_compute in lit "section".
Definition n_title := Eval vm_compute in lit "title".
Definition n_rubric := Eval vm_compute in lit "rubric".
Definition n_emphasis := Eval vm_compute in lit "emphasis".
Definition n_block_quote := Eval vm_compute in lit "block_quote".
Definition n_enumerated_list := Eval vm_compute in lit "enumerated_list".
Definition n_transition := Eval vm_compute in lit "transition".
Definition n_literal := Eval vm_compute in lit "literal".
Definition n_literal_block := Eval vm_compute in lit "literal_block".
Definition n_raw := Eval vm_compute in lit "raw".
Definition n_reference := Eval vm_compute in lit "reference".
Definition n_pending_xref := Eval vm_compute in lit "pending_xref".
Definition n_download_reference := Eval vm_compute in lit "download_reference".
Definition n_tgroup := Eval vm_compute in lit "tgroup".
Definition n_colspec := Eval vm_compute in lit "colspec".
Definition n_thead := Eval vm_compute in lit "thead".
Definition n_tbody := Eval vm_compute in lit "tbody".
Definition n_row := Eval vm_compute in lit "row".
Definition n_entry := Eval vm_compute in lit "entry".
Definition n_math := Eval vm_compute in lit "math".
Definition n_target := Eval vm_compute in lit "target".
Definition n_footnote := Eval vm_compute in lit "footnote".
Definition n_label := Eval vm_compute in lit "label".
Definition n_comment := Eval vm_compute in lit "comment".
Definition n_definition_list := Eval vm_compute in lit "definition_list".
Definition n_definition_list_item := Eval vm_compute in lit "definition_list_item".
Definition n_term := Eval vm_compute in lit "term".
Definition n_definition := Eval vm_compute in lit "definition".
Definition n_field := Eval vm_compute in lit "field".
Definition n_field_name := Eval vm_compute in lit "field_name".
Definition n_field_body := Eval vm_compute in lit "field_body".

Definition a_classes := Eval vm_compute in lit "classes".
Definition a_class := Eval vm_compute in lit "class".
Definition a_id := Eval vm_compute in lit "id".
Definition a_bullet := Eval vm_compute in lit "bullet".
Definition a_enumtype := Eval vm_compute in lit "enumtype".
Definition a_prefix := Eval vm_compute in lit "prefix".
Definition a_suffix := Eval vm_compute in lit "suffix".
Definition a_start := Eval vm_compute in lit "start".
Definition a_style := Eval vm_compute in lit "style".
Definition a_format := Eval vm_compute in lit "format".
Definition a_language := Eval vm_compute in lit "language".
Definition a_lexer := Eval vm_compute in lit "lexer".
Definition a_l := Eval vm_compute in lit "l".
Definition a_level := Eval vm_compute in lit "level".
Definition a_href := Eval vm_compute in lit "href".
Definition a_title := Eval vm_compute in lit "title".
Definition a_reftitle := Eval vm_compute in lit "reftitle".
Definition a_target := Eval vm_compute in lit "target".
Definition a_rel := Eval vm_compute in lit "rel".
Definition a_refuri := Eval vm_compute in lit "refuri".
Definition a_refname := Eval vm_compute in lit "refname".
Definition a_id_link := Eval vm_compute in lit "id_link".
Definition a_src := Eval vm_compute in lit "src".
Definition a_uri := Eval vm_compute in lit "uri".
Definition a_alt := Eval vm_compute in lit "alt".
Definition a_width := Eval vm_compute in lit "width".
Definition a_height := Eval vm_compute in lit "height".
Definition a_align := Eval vm_compute in lit "align".
Definition a_w := Eval vm_compute in lit "w".
Definition a_h := Eval vm_compute in lit "h".
Definition a_a := Eval vm_compute in lit "a".
Definition a_cols := Eval vm_compute in lit "cols".
Definition a_colwidth := Eval vm_compute in lit "colwidth".
Definition a_nowrap := Eval vm_compute in lit "nowrap".
Definition a_numbered := Eval vm_compute in lit "numbered".
Definition a_label := Eval vm_compute in lit "label".
Definition a_auto := Eval vm_compute in lit "auto".
Definition a_attribution := Eval vm_compute in lit "attribution".
Definition a_lineno_start := Eval vm_compute in lit "lineno-start".
Definition a_emphasize_lines := Eval vm_compute in lit "emphasize-lines".
Definition a_refdoc := Eval vm_compute in lit "refdoc".
Definition a_refdomain := Eval vm_compute in lit "refdomain".
Definition a_reftype := Eval vm_compute in lit "reftype".
Definition a_reftarget := Eval vm_compute in lit "reftarget".
Definition a_reftargetid := Eval vm_compute in lit "reftargetid".
Definition a_refexplicit := Eval vm_compute in lit "refexplicit".

Definition v_true := Eval vm_compute in lit "True".
Definition v_false := Eval vm_compute in lit "False".
Definition v_none := Eval vm_compute in lit "None".
Definition v_one := Eval vm_compute in lit "1".
Definition v_html := Eval vm_compute in lit "html".
Definition v_code := Eval vm_compute in lit "code".
Definition v_none_lang := Eval vm_compute in lit "none".
Definition v_external := Eval vm_compute in lit "external".
Definition v_auto := Eval vm_compute in lit "auto".
Definition v_colwidths_auto := Eval vm_compute in lit "colwidths-auto".
Definition v_amsmath := Eval vm_compute in lit "amsmath".
Definition v_block_break := Eval vm_compute in lit "block_break".
Definition v_simple := Eval vm_compute in lit "simple".
Definition v_myst := Eval vm_compute in lit "myst".
Definition v_glossary := Eval vm_compute in lit "glossary".
Definition v_xref := Eval vm_compute in lit "xref".
Definition v_download := Eval vm_compute in lit "download".
Definition v_doc := Eval vm_compute in lit "doc".
Definition v_index := Eval vm_compute in lit "index".
Definition v_tex2jax_ignore := Eval vm_compute in lit "tex2jax_ignore".
Definition v_mathjax_ignore := Eval vm_compute in lit "mathjax_ignore".
Definition v_star := Eval vm_compute in lit "*".
Definition v_eval_rst := Eval vm_compute in lit "{eval-rst}".
Definition v_inv := Eval vm_compute in lit "inv".
Definition v_path := Eval vm_compute in lit "path".
Definition v_project := Eval vm_compute in lit "project".
Definition v_path_colon := Eval vm_compute in lit "path:".
Definition v_project_colon := Eval vm_compute in lit "project:".
Definition v_equation_ := Eval vm_compute in lit "equation-".
Definition v_uuid_ := Eval vm_compute in lit "amsmath-index-".
Definition v_directive := Eval vm_compute in lit "directive".
Definition v_sphinx := Eval vm_compute in lit "sphinx".
Definition v_docutils := Eval vm_compute in lit "docutils".
Definition v_role := Eval vm_compute in lit "role".
Definition v_substitution := Eval vm_compute in lit "substitution".
Definition v_colons := Eval vm_compute in lit ":::".
Definition v_scheme_sep := Eval vm_compute in lit "://".
Definition a_name := Eval vm_compute in lit "name".
Definition a_names := Eval vm_compute in lit "names".
Definition a_dupnames := Eval vm_compute in lit "dupnames".
Definition a_ids := Eval vm_compute in lit "ids".

(* warning tags (type.subtype) *)
Definition w_render := Eval vm_compute in lit "myst.render".
Definition w_strikethrough := Eval vm_compute in lit "myst.strikethrough".
Definition w_header := Eval vm_compute in lit "myst.header".
Definition w_not_supported := Eval vm_compute in lit "myst.not_supported".
Definition w_xref_missing := Eval vm_compute in lit "myst.xref_missing".
Definition w_ref_footnote := Eval vm_compute in lit "ref.footnote".
Definition w_duplicate_def := Eval vm_compute in lit "myst.duplicate_def".
Definition w_lexer := Eval vm_compute in lit "docutils.lexer".
Definition w_dup_equation := Eval vm_compute in lit "sphinx.duplicate-equation".

Inductive kind :=
| KParagraph | KInline | KText | KSoftbreak | KHardbreak | KEm | KStrong | KS | KCodeInline | KCodeBlock
| KFence | KBlockquote | KBulletList | KOrderedList | KListItem | KHr | KHeading | KLink | KImage
| KHtmlBlock | KHtmlInline | KTable | KMathInline | KMathInlineDouble | KMathSingle | KMathBlock
| KMathBlockLabel | KAmsmath | KFootnoteRef | KFootnoteReference | KMystTarget | KMystBlockBreak
| KMystLineComment | KDl | KDt | KDd | KFieldList | KFieldlistName | KFieldlistBody | KSpan
| KThead | KTbody | KTr | KTh | KTd
| KColonFence | KMystRole | KSubstInline | KSubstBlock | KFrontMatter | KOther.

Definition kind_table : list (str * kind) :=
  [(k_paragraph, KParagraph); (k_inline, KInline); (k_text, KText); (k_softbreak, KSoftbreak);
   (k_hardbreak, KHardbreak); (k_em, KEm); (k_strong, KStrong); (k_s, KS); (k_code_inline, KCodeInline);
   (k_code_block, KCodeBlock); (k_fence, KFence); (k_blockquote, KBlockquote); (k_bullet_list, KBulletList);
   (k_ordered_list, KOrderedList); (k_list_item, KListItem); (k_hr, KHr); (k_heading, KHeading);
   (k_link, KLink); (k_image, KImage); (k_html_block, KHtmlBlock); (k_html_inline, KHtmlInline);
   (k_table, KTable); (k_math_inline, KMathInline); (k_math_inline_double, KMathInlineDouble);
   (k_math_single, KMathSingle); (k_math_block, KMathBlock); (k_math_block_label, KMathBlockLabel);
   (k_amsmath, KAmsmath); (k_footnote_ref, KFootnoteRef); (k_footnote_reference, KFootnoteReference);
   (k_myst_target, KMystTarget); (k_myst_block_break, KMystBlockBreak);
   (k_myst_line_comment, KMystLineComment); (k_dl, KDl); (k_dt, KDt); (k_dd, KDd);
   (k_field_list, KFieldList); (k_fieldlist_name, KFieldlistName); (k_fieldlist_body, KFieldlistBody);
   (k_span, KSpan); (k_thead, KThead); (k_tbody, KTbody); (k_tr, KTr); (k_th, KTh); (k_td, KTd);
   (k_colon_fence, KColonFence); (k_myst_role, KMystRole); (k_substitution_inline, KSubstInline);
   (k_substitution_block, KSubstBlock); (k_front_matter, KFrontMatter)].

Definition kind_of (ty : str) : kind :=
  match assoc ty kind_table with Some k => k | None => KOther end.

(* a token together with the program that renders it and those of its children *)
Inductive rt : Type := RT (t : tok) (run : prog) (kids : list rt).
Definition rt_tok (r : rt) : tok := match r with RT t _ _ => t end.
Definition rt_run (r : rt) : prog := match r with RT _ p _ => p end.
Definition rt_kids (r : rt) : list rt := match r with RT _ _ k => k end.

(* render_children *)
Definition render_children (ks : list rt) : prog := seq_all (map rt_run ks).

Definition is_section_tag (tg : str) : bool := str_eqb tg n_document || str_eqb tg n_section.

Definition add_classes (a : nattrs) (l : list str) : nattrs :=
  aset a_classes ((match assoc a_classes a with Some old => old | None => [] end) ++ l) a.

Definition classes_of (a : nattrs) : list str :=
  match assoc a_classes a with Some l => l | None => [] end.

Definition bool_str (b : bool) : str := if b then v_true else v_false.

(* clean_astext(node): text of the node without raw nodes, system messages and image alts *)
Fixpoint astext_clean (n : node) : option str :=
  match n with
  | Text _ s => Some s
  | Elem _ tg _ cs =>
      if str_eqb tg n_raw then Some []
      else if str_eqb tg k_system_message then Some []     (* removed like raw nodes (since 921a88b) *)
      else (fix go (l : list node) : option str :=
              match l with
              | [] => Some []
              | c :: r => match astext_clean c, go r with
                          | Some a, Some b => Some (a ++ b)
                          | _, _ => None
                          end
              end) cs
  end.

(* int(token.tag[1]) for h1..h9 *)
Definition heading_level (tg : str) : option N :=
  match tg with
  | _ :: d :: _ => if (48 <=? d) && (d <=? 57) then Some (d - 48) else None
  | _ => None
  end.

(* ---- dynamic syntax (directives, roles, substitutions, front matter): the nodes such a run produces are an
   oracle; the renderer gives them to the current node (self.current_node += nodes).  The oracle's nodes are
   new Python objects: the model numbers them in document order with fresh allocation numbers. ---- *)
Fixpoint relabel (n : node) (c : N) : node * N :=
  match n with
  | Text _ s => (Text c s, N.succ c)
  | Elem _ tg a cs =>
      let '(cs', c') :=
          (fix go (l : list node) (c : N) : list node * N :=
             match l with
             | [] => ([], c)
             | x :: r => let '(x', c1) := relabel x c in
                         let '(r', c2) := go r c1 in (x' :: r', c2)
             end) cs (N.succ c) in
      (Elem c tg a cs', c')
  end.

Fixpoint relabel_list (l : list node) (c : N) : list node * N :=
  match l with
  | [] => ([], c)
  | x :: r => let '(x', c1) := relabel x c in
              let '(r', c2) := relabel_list r c1 in (x' :: r', c2)
  end.

Definition relabel_all (ns : list node) : fop (list node) := fun f =>
  let '(ns', c) := relabel_list ns (nxt f) in Good (ns', set_nxt f c).

Fixpoint log_warnings (ws : list str) : fop unit :=
  match ws with
  | [] => fret tt
  | w :: r => _ <-- log_warning w ;; log_warnings r
  end.

(* the part of the dynamic syntax the model covers: the run leaves the document registries alone (no names / ids
   on the nodes) and returns no section, transition, or table structure *)
Fixpoint dyn_node_ok (n : node) : bool :=
  match n with
  | Text _ _ => true
  | Elem _ tg a cs =>
      negb (str_eqb tg n_section) && negb (str_eqb tg n_transition) && negb (str_eqb tg n_tgroup)
      && negb (str_eqb tg n_document)
      && negb (has_key a_names a || has_key a_dupnames a || has_key a_ids a)
      && forallb dyn_node_ok cs
  end.

Fixpoint contains_sub (s p : str) : bool :=
  startswith s p || match s with [] => false | _ :: r => contains_sub r p end.

Section Render.
  Variable B : backend.
  Variable C : cfg.
  Variable OR : oracles.

  Definition is_sphinx : bool := match B with Sphinx => true | Docutils => false end.
  Definition has_rule (ty : str) : bool := mem_str ty (if is_sphinx then rules_sphinx else rules_docutils).

  Definition note_target' := note_target (o_make_id OR) (c_auto_id_prefix C).

  (* TextElement(rawsource, text): a Text child only for non-empty text *)
  Definition new_text_elem (tg : str) (a : nattrs) (text : str) (k : node -> prog) : prog :=
    o <- alloc ;
    if is_empty text then k (Elem o tg a [])
    else (ot <- alloc ; k (Elem o tg a [Text ot text])).

  Definition append_text (s : str) (k : prog) : prog :=
    o <- alloc ; Append (Text o s) k.

  (* copy_attributes(token, node, keys, aliases=...): returns the attribute dict and the system
     messages docutils appended to the node (note_explicit_target(node, node)) *)
  Fixpoint copy_loop (o : N) (tg : str) (keys : list str) (aliases : list (str * str)) (conv : list str)
           (l : list (str * str)) (a : nattrs) (msgs : list node) : fop (nattrs * list node) :=
    match l with
    | [] => fret (a, msgs)
    | (k0, v) :: r =>
        let k := match assoc k0 aliases with Some k' => k' | None => k0 end in
        if negb (mem_str k keys) then copy_loop o tg keys aliases conv r a msgs
        else if str_eqb k a_class then copy_loop o tg keys aliases conv r (add_classes a (o_split OR v)) msgs
        else if str_eqb k a_id then
          _ <-- add_name o tg (o_norm_name OR v) ;;
          ms <-- note_target' o tg true ;;
          copy_loop o tg keys aliases conv r a (msgs ++ ms)
        else if mem_str k conv then ffail ENotModelled
        else copy_loop o tg keys aliases conv r (aset k [v] a) msgs
    end.

  Definition copy_attributes (t : tok) (o : N) (tg : str) (keys : list str) (aliases : list (str * str))
             (a : nattrs) : fop (nattrs * list node) :=
    copy_loop o tg keys aliases [] (attrs t) a [].

  Definition keys_ci : list str := [a_class; a_id].

  (* a container: node(); copy_attributes(class, id); with current_node_context(node, append=True): children *)
  Definition container (t : tok) (ks : list rt) (tg : str) (a0 : nattrs) (keys : list str) : prog :=
    o <- alloc ;
    '(a, msgs) <- copy_attributes t o tg keys [] a0 ;
    Ctx o tg a msgs (render_children ks) (fun _ => Done).

  Definition render_paragraph (t : tok) (ks : list rt) : prog := container t ks k_paragraph [] keys_ci.
  Definition render_inline (t : tok) (ks : list rt) : prog := render_children ks.
  Definition render_text (t : tok) (ks : list rt) : prog := append_text (content t) Done.

  Definition render_bullet_list (t : tok) (ks : list rt) : prog :=
    container t ks k_bullet_list (if is_empty (markup t) then [] else [(a_bullet, [markup t])]) keys_ci.

  Definition render_ordered_list (t : tok) (ks : list rt) : prog :=
    let style :=
        match attr_get t a_style with
        | Some s => match assoc s olist_style_map with Some e => e | None => olist_default_style end
        | None => olist_default_style
        end in
    container t ks n_enumerated_list
              [(a_enumtype, [style]); (a_prefix, [[]]); (a_suffix, [markup t])] [a_class; a_id; a_start].

  Definition render_list_item (t : tok) (ks : list rt) : prog := container t ks k_list_item [] keys_ci.

  Definition render_em (t : tok) (ks : list rt) : prog :=
    o <- alloc ; Ctx o n_emphasis [] [] (render_children ks) (fun _ => Done).

  Definition render_softbreak (t : tok) (ks : list rt) : prog := append_text [10] Done.

  Fixpoint append_raws (l : list (str * str)) (k : prog) : prog :=
    match l with
    | [] => k
    | (fmt, txt) :: r => new_text_elem n_raw [(a_format, [fmt])] txt (fun n => Append n (append_raws r k))
    end.

  Definition render_hardbreak (t : tok) (ks : list rt) : prog := append_raws hardbreak_raws Done.

  Definition render_strong (t : tok) (ks : list rt) : prog :=
    o <- alloc ; Ctx o k_strong [] [] (render_children ks) (fun _ => Done).

  Definition render_blockquote (t : tok) (ks : list rt) : prog :=
    if has_key a_attribution (attrs t) then Fail ENotModelled
    else container t ks n_block_quote [] keys_ci.

  Definition render_hr (t : tok) (ks : list rt) : prog :=
    o <- alloc ; Append (Elem o n_transition [] []) Done.

  Definition render_code_inline (t : tok) (ks : list rt) : prog :=
    new_text_elem n_literal [] (content t) (fun n =>
      '(a, msgs) <- copy_attributes t (oid_of n) n_literal [a_class; a_id; a_language]
                                    [(a_lexer, a_language); (a_l, a_language)] [] ;
      let a := if has_key a_language a && negb (mem_str v_code (classes_of a)) then add_classes a [v_code] else a in
      Append (Elem (oid_of n) n_literal a (kids_of n ++ msgs)) Done).

  (* for classes, value in lex_tokens: inline(value, value, classes=classes) or Text(value) *)
  Fixpoint lex_nodes (l : list (list str * str)) (acc : list node) (k : list node -> prog) : prog :=
    match l with
    | [] => k acc
    | (cls, v) :: r =>
        match cls with
        | [] => o <- alloc ; lex_nodes r (acc ++ [Text o v]) k
        | _ => new_text_elem k_inline [(a_classes, cls)] v (fun n => lex_nodes r (acc ++ [n]) k)
        end
    end.

  (* create_highlighted_code_block(text, lexer_name) without line numbers / emphasis *)
  Definition create_highlighted_code_block (text : str) (lexer : option str) (k : node -> prog) : prog :=
    if is_sphinx then
      new_text_elem n_literal_block
        [(a_language, [match lexer with Some l => if is_empty l then v_none_lang else l | None => v_none_lang end])]
        text k
    else
      o <- alloc ;
      let lang := match lexer with Some l => l | None => [] end in
      let cls := v_code :: (if is_empty lang then [] else [lang]) in
      let fin (toks : list (list str * str)) :=
          lex_nodes toks [] (fun cs => k (Elem o n_literal_block [(a_classes, cls)] cs)) in
      if c_highlight C then
        match o_lex OR lang text with
        | Some toks => fin toks
        | None => _ <- log_warning w_lexer ; fin [([], text)]
        end
      else fin [([], text)].

  Definition code_attrs_static (t : tok) : bool :=
    negb (has_key a_lineno_start (attrs t)) && negb (has_key a_emphasize_lines (attrs t)).

  Definition render_code_block (t : tok) (ks : list rt) : prog :=
    if negb (code_attrs_static t) then Fail ENotModelled else
    let finish (lexer : option str) :=
        create_highlighted_code_block (content t) lexer (fun n =>
          '(a, msgs) <- copy_attributes t (oid_of n) n_literal_block keys_ci [] (attrs_of n) ;
          Append (Elem (oid_of n) n_literal_block a (kids_of n ++ msgs)) Done) in
    if is_empty (info t) then finish None
    else match o_split OR (info t) with
         | [] => Fail (EPy IndexError)
         | w :: _ => finish (Some w)
         end.

  Definition starts_brace (s : str) : bool := match s with c :: _ => c =? 123 | [] => false end.
  Definition ends_brace (s : str) : bool := match rev s with c :: _ => c =? 125 | [] => false end.

  (* self.current_node += <the nodes of the run> *)
  Definition dyn_full_key (key : list str) : list str := (if is_sphinx then v_sphinx else v_docutils) :: key.

  Definition dyn_splice (key : list str) : prog :=
    match o_dyn OR (dyn_full_key key) with
    | None => Fail ENotModelled
    | Some (ns, ws) =>
        if forallb dyn_node_ok ns then
          _ <- log_warnings ws ;
          ns' <- relabel_all ns ;
          append_all ns' Done
        else Fail ENotModelled
    end.

  Definition strip_braces (s : str) : str := drop_last (drop 1 s).       (* name[1:-1] *)
  (* parts = info.strip().split(maxsplit=1); parts[1] if len(parts) > 1 else "" *)
  Definition directive_arguments (info : str) : str :=
    match o_split1 OR (o_strip OR info) with _ :: a :: _ => a | _ => [] end.

  Definition render_fence (t : tok) (ks : list rt) : prog :=
    if negb (code_attrs_static t) then Fail ENotModelled else
    let name := match o_split OR (o_strip OR (info t)) with w :: _ => w | [] => [] end in
    let is_myst := match c_mode C with Myst => true | _ => false end in
    if is_myst && str_eqb name v_eval_rst then Fail ENotModelled
    else if is_myst && starts_brace name && ends_brace name then
      dyn_splice [v_directive; strip_braces name; directive_arguments (info t); content t]
    else
      let name := if is_empty name && is_sphinx then c_highlight_language C else name in
      create_highlighted_code_block (content t) (Some name) (fun n =>
        '(a, msgs) <- copy_attributes t (oid_of n) n_literal_block keys_ci [] (attrs_of n) ;
        Append (Elem (oid_of n) n_literal_block a (kids_of n ++ msgs)) Done).

  (* generate_heading_target with heading_anchors = 0: the name from the title text is registered as an
     implicit target; names already on the node (id attribute) are set aside during the registration *)
  Definition heading_target (o : N) (tg : str) (title : node) : fop (list node) :=
    match astext_clean title with
    | None => ffail ENotModelled
    | Some txt =>
        explicit_names <-- get_names o tg ;;
        _ <-- set_names o tg [o_norm_name OR txt] ;;
        ms <-- note_target' o tg false ;;
        now <-- get_names o tg ;;
        _ <-- set_names o tg (explicit_names ++ now) ;;
        fret ms
    end.

  Definition render_heading (t : tok) (ks : list rt) : prog :=
    match heading_level (tag t) with
    | None => Fail (EPy ValueError)
    | Some level =>
        CurTag (fun ct =>
          if negb (is_section_tag ct) then
            (* rubric *)
            o <- alloc ;
            '(a, msgs) <- copy_attributes t o n_rubric keys_ci [] [(a_level, [show level])] ;
            Detached o n_rubric a msgs (render_children ks) (fun r =>
              ms <- heading_target o n_rubric r ;
              Append (add_children r ms) Done)
          else
            o <- alloc ;
            ot <- alloc ;          (* the title node: created and added to the section first *)
            '(a, msgs) <- copy_attributes t o n_section keys_ci [] [] ;
            let a := if (level =? 1) && c_mathjax_block C
                     then add_classes a [v_tex2jax_ignore; v_mathjax_ignore] else a in
            LevelParent level (fun pl =>
              match pl with
              | None => Fail (EPy ValueError)
              | Some pl =>
                  let open :=
                      OpenSection level (Elem o n_section a [])
                        (Ctx ot n_title [] [] (render_children ks) (fun title =>
                           ms <- heading_target o n_section title ;
                           append_all (msgs ++ ms) Done)) in
                  if (pl <? level) && negb (pl + 1 =? level)
                  then (w <- create_warning w_header ; Append w open)
                  else open
              end))
    end.

  (* ---- links ---- *)
  Definition href_of (t : tok) : str := match attr_get t a_href with Some h => h | None => [] end.

  Definition link_keys_url : list str := [a_class; a_id; a_reftitle; a_target; a_rel].
  Definition link_keys : list str := [a_class; a_id; a_reftitle].
  Definition link_aliases : list (str * str) := [(a_title, a_reftitle)].

  Definition render_link_url (t : tok) (ks : list rt) : prog :=
    o <- alloc ;
    '(a, msgs) <- copy_attributes t o n_reference link_keys_url link_aliases [] ;
    let uri := href_of t in
    _ <- set_refuri o n_reference uri ;
    Ctx o n_reference (aset a_refuri [uri] a) msgs (render_children ks) (fun _ => Done).

  Definition render_link_anchor (t : tok) (ks : list rt) (target : str) : prog :=
    o <- alloc ;
    let uri := o_nlt OR target in
    _ <- set_refuri o n_reference uri ;
    '(a, msgs) <- copy_attributes t o n_reference link_keys link_aliases
                                  [(a_id_link, [v_true]); (a_refuri, [uri])] ;
    if str_eqb (info t) v_auto then Append (Elem o n_reference a msgs) Done
    else Ctx o n_reference a msgs (render_children ks) (fun _ => Done).

  Definition explicit_link (t : tok) (ks : list rt) : bool :=
    negb (str_eqb (info t) v_auto) && match ks with [] => false | _ => true end.

  (* before the first "#" / after it *)
  Fixpoint split_hash (s acc : str) : str * option str :=
    match s with
    | [] => (rev acc, None)
    | c :: r => if c =? 35 then (rev acc, Some r) else split_hash r (c :: acc)
    end.

  (* SphinxRenderer._process_wrap_node *)
  Definition process_wrap_node (t : tok) (ks : list rt) (o : N) (tg : str) (a0 : nattrs)
             (classes : list str) (path_dest : str) : prog :=
    '(a, msgs) <- copy_attributes t o tg [a_class; a_id; a_title] [] a0 ;
    if explicit_link t ks then
      oi <- alloc ;
      Detached oi k_inline [(a_classes, classes)] [] (render_children ks) (fun inner =>
        Append (Elem o tg a (msgs ++ [inner])) Done)
    else if str_eqb tg n_download_reference then
      new_text_elem n_literal [(a_classes, classes)] path_dest (fun inner =>
        Append (Elem o tg a (msgs ++ [inner])) Done)
    else
      oi <- alloc ;
      Append (Elem o tg a (msgs ++ [Elem oi k_inline [(a_classes, classes)] []])) Done.

  Definition xref_attrs (t : tok) (ks : list rt) : nattrs :=
    [(a_refdoc, [v_index]); (a_reftype, [v_myst]); (a_refexplicit, [bool_str (explicit_link t ks)])].

  Definition ostr (x : option str) : str := match x with Some s => s | None => v_none end.

  Definition render_link_unknown (t : tok) (ks : list rt) : prog :=
    if is_sphinx then
      let destination := o_nlt OR (href_of t) in
      let '(path_dest, path_id) := split_hash destination [] in
      o <- alloc ;
      match o_path2doc OR path_dest with
      | Some (Some docname) =>
          process_wrap_node t ks o n_pending_xref
            ((a_refdomain, [v_doc]) :: (a_reftarget, [docname]) :: (a_reftargetid, [ostr path_id]) :: xref_attrs t ks)
            [v_xref; v_myst] path_dest
      | Some None =>
          process_wrap_node t ks o n_download_reference
            ((a_refdomain, [v_none]) :: (a_reftarget, [path_dest]) :: xref_attrs t ks)
            [v_xref; v_download; v_myst] path_dest
      | None =>
          match (match path_id with Some _ => o_docjoin OR path_dest | None => None end) with
          | Some docname =>
              (* a document referenced without its extension, with a heading anchor *)
              process_wrap_node t ks o n_pending_xref
                ((a_refdomain, [v_doc]) :: (a_reftarget, [docname]) :: (a_reftargetid, [ostr path_id])
                                        :: xref_attrs t ks)
                [v_xref; v_myst] path_dest
          | None =>
              process_wrap_node t ks o n_pending_xref
                ((a_refdomain, [v_none]) :: (a_reftarget, [destination]) :: xref_attrs t ks)
                [v_xref; v_myst] path_dest
          end
      end
    else
      o <- alloc ;
      '(a, msgs) <- copy_attributes t o n_reference link_keys link_aliases [] ;
      Ctx o n_reference (aset a_refname [href_of t] a) msgs (render_children ks) (fun _ => Done).

  Definition render_link_path (t : tok) (ks : list rt) : prog :=
    if is_sphinx then
      let d0 := o_nlt OR (href_of t) in
      let destination := if startswith d0 v_path_colon then drop 5 d0 else d0 in
      if negb (contains_sub destination v_scheme_sep) && negb (o_access OR destination) then
        w <- create_warning w_xref_missing ;
        Append w (render_link_url t ks)
      else
      o <- alloc ;
      process_wrap_node t ks o n_download_reference
        ((a_refdomain, [v_none]) :: (a_reftarget, [destination]) :: xref_attrs t ks)
        [v_xref; v_download; v_myst] destination
    else
      w <- create_warning w_not_supported ;
      Append w (render_link_url t ks).

  Definition render_link_project (t : tok) (ks : list rt) : prog :=
    let d0 := href_of t in
    let destination := if startswith d0 v_project_colon then drop 8 d0 else d0 in
    if startswith destination [35] then render_link_anchor t ks destination
    else if is_sphinx then
      let destination := o_nlt OR destination in
      let '(path_dest, path_id) := split_hash destination [] in
      match o_p2d_raw OR path_dest with
      | Some docname =>
          o <- alloc ;
          process_wrap_node t ks o n_pending_xref
            ((a_refdomain, [v_doc]) :: (a_reftarget, [docname]) :: (a_reftargetid, [ostr path_id]) :: xref_attrs t ks)
            [v_xref; v_myst] destination
      | None =>
          w <- create_warning w_xref_missing ;
          Append w (render_link_url t ks)
      end
    else
      w <- create_warning w_not_supported ;
      Append w (render_link_url t ks).

  (* one dispatch test of render_link; None = the test does not apply *)
  Definition link_test_apply (lt : link_test) (t : tok) (ks : list rt) : option prog :=
    let href := href_of t in
    let scheme := scheme_of href in
    match lt with
    | LT_force_url =>
        if (match c_mode C with Myst => false | _ => true end) || c_all_links_external C
        then Some (render_link_url t ks) else None
    | LT_class_external =>
        match attr_get t a_class with
        | Some c => if mem_str v_external (o_split OR c) then Some (render_link_url t ks) else None
        | None => None
        end
    | LT_anchor => if startswith href [35] then Some (render_link_anchor t ks href) else None
    | LT_url_scheme =>
        match scheme with
        | Some s => if mem_str s (c_url_schemes C) then Some (render_link_url t ks) else None
        | None => None
        end
    | LT_inv => match scheme with
                | Some s => if str_eqb s v_inv then Some (Fail ENotModelled) else None
                | None => None end
    | LT_path => match scheme with
                 | Some s => if str_eqb s v_path then Some (render_link_path t ks) else None
                 | None => None end
    | LT_project => match scheme with
                    | Some s => if str_eqb s v_project then Some (render_link_project t ks) else None
                    | None => None end
    | LT_auto => if str_eqb (info t) v_auto then Some (render_link_url t ks) else None
    end.

  Fixpoint link_dispatch_loop (l : list link_test) (t : tok) (ks : list rt) : prog :=
    match l with
    | [] => render_link_unknown t ks
    | lt :: r => match link_test_apply lt t ks with
                 | Some p => p
                 | None => link_dispatch_loop r t ks
                 end
    end.

  Definition render_link (t : tok) (ks : list rt) : prog := link_dispatch_loop link_dispatch t ks.

  (* renderInlineAsText: the text leaves, and a soft break as "\n" *)
  Fixpoint inline_as_text (r : rt) : str :=
    match r with
    | RT t _ kids =>
        match kind_of (ty t) with
        | KText => content t
        | KSoftbreak => [10]
        | _ => flat_map inline_as_text kids
        end
    end.

  Definition render_image (t : tok) (ks : list rt) : prog :=
    if existsb (fun k => has_key k (attrs t)) [a_width; a_height; a_align; a_w; a_h; a_a] then Fail ENotModelled else
    o <- alloc ;
    let destination := match attr_get t a_src with Some s => s | None => [] end in
    let a0 := [(a_uri, [destination]); (a_alt, [flat_map inline_as_text ks])] in
    '(a, msgs) <- copy_attributes t o k_image [a_class; a_id; a_title] [] a0 ;
    Append (Elem o k_image a msgs) Done.

  (* html_to_nodes with neither html_image nor html_admonition: default_html *)
  Definition render_html_block (t : tok) (ks : list rt) : prog :=
    if c_html_convert C then Fail ENotModelled else
    match map_ t with
    | None => Fail (EPy ValueError)            (* token_line(token) without default *)
    | Some _ =>
        let text := match c_mode C with Gfm => o_gfm_filter OR (content t) | _ => content t end in
        new_text_elem n_raw [(a_format, [v_html])] text (fun n => Append n Done)
    end.
  Definition render_html_inline := render_html_block.

  (* ---- tables ---- *)
  Definition render_table_cell (r : rt) : prog :=
    oe <- alloc ;
    op <- alloc ;
    let cls := match attr_get (rt_tok r) a_style with
               | Some s => match assoc s table_align with Some c => [(a_classes, [c])] | None => [] end
               | None => []
               end in
    Ctx oe n_entry cls []
        (Ctx op k_paragraph [] [] (render_children (rt_kids r)) (fun _ => Done))
        (fun _ => Done).

  Definition render_table_row (r : rt) : prog :=
    o <- alloc ;
    Ctx o n_row [] [] (seq_all (map render_table_cell (rt_kids r))) (fun _ => Done).

  Fixpoint colspecs (n : nat) (w : N) (k : prog) : prog :=
    match n with
    | O => k
    | S n' => o <- alloc ; Append (Elem o n_colspec [(a_colwidth, [show w])] []) (colspecs n' w k)
    end.

  Definition render_table (t : tok) (ks : list rt) : prog :=
    match ks with
    | [] => Fail (EPy AssertionError)
    | header :: rest =>
        match rt_kids header with
        | [] => Fail (EPy AssertionError)
        | header_row :: _ =>
            match rt_kids header_row with
            | [] => Fail (EPy AssertionError)
            | cells =>
                let maxcols := length cells in
                o <- alloc ;
                '(a, msgs) <- copy_attributes t o k_table keys_ci [] [(a_classes, [v_colwidths_auto])] ;
                Ctx o k_table a msgs
                    (og <- alloc ;
                     Ctx og n_tgroup [(a_cols, [show (N.of_nat maxcols)])] []
                         (colspecs maxcols (100 / N.of_nat maxcols)
                            (oh <- alloc ;
                             Ctx oh n_thead [] [] (render_table_row header_row) (fun _ =>
                               match rest with
                               | [] => Done
                               | body :: _ =>
                                   ob <- alloc ;
                                   Ctx ob n_tbody [] [] (seq_all (map render_table_row (rt_kids body)))
                                       (fun _ => Done)
                               end)))
                         (fun _ => Done))
                    (fun _ => Done)
            end
        end
    end.

  Definition render_s (t : tok) (ks : list rt) : prog :=
    w <- create_warning w_strikethrough ;
    Append w
      (match s_raws with
       | [r1; r2] => append_raws [r1] (seq (render_children ks) (append_raws [r2] Done))
       | _ => Fail ENotModelled
       end).

  (* ---- math ---- *)
  Definition render_math_inline (t : tok) (ks : list rt) : prog :=
    new_text_elem n_math [] (content t) (fun n => Append n Done).
  Definition math_block_attrs : nattrs := [(a_nowrap, [v_false])].
  Definition render_math_block (t : tok) (ks : list rt) : prog :=
    new_text_elem k_math_block math_block_attrs (content t) (fun n => Append n Done).

  (* nodes.target('', '', ids=[...]): an object created with ids that no registry handed out *)
  Definition preset_ids (ot : N) (l : list str) : fop unit := fun f => put_rec ot (mkNrec n_target [] [] l None) f.
  (* self._generated_labels += 1 *)
  Definition next_uuid : fop N := fun f => Good (uuidc f + 1, set_uuidc f (uuidc f + 1)).

  (* SphinxRenderer.add_math_target: equation target with a preset id *)
  Definition add_math_target (label : str) (k : node -> prog) : prog :=
    ot <- alloc ;
    let node_id := o_make_id OR (v_equation_ ++ label) in
    _ <- preset_ids ot [node_id] ;
    _ <- set_id_nomsg (o_make_id OR) (c_auto_id_prefix C) ot n_target ;
    k (Elem ot n_target [] []).

  Definition render_math_block_label (t : tok) (ks : list rt) : prog :=
    if is_sphinx then
      new_text_elem k_math_block ((a_label, [info t]) :: math_block_attrs) (content t) (fun n =>
        add_math_target (info t) (fun tgt => Append tgt (Append n Done)))
    else
      new_text_elem k_math_block math_block_attrs (content t) (fun n =>
        _ <- add_name (oid_of n) k_math_block (o_norm_name OR (info t)) ;
        ms <- note_target' (oid_of n) k_math_block true ;
        Append (add_children n ms) Done).

  Definition render_amsmath (t : tok) (ks : list rt) : prog :=
    match assoc a_numbered (meta t) with
    | None => Fail (EPy KeyError)
    | Some numbered =>
        let unnumbered := str_eqb numbered v_star in
        let a0 := [(a_nowrap, [v_true]); (a_classes, [v_amsmath])] in
        if is_sphinx then
          if unnumbered then new_text_elem k_math_block a0 (content t) (fun n => Append n Done)
          else
            c <- next_uuid ;
            let label := v_uuid_ ++ show c in
            new_text_elem k_math_block ((a_label, [label]) :: a0) (content t) (fun n =>
              add_math_target label (fun tgt => Append tgt (Append n Done)))
        else
          new_text_elem k_math_block (if unnumbered then a0 else (a_numbered, [v_true]) :: a0) (content t)
                        (fun n => Append n Done)
    end.

  (* ---- footnotes ---- *)
  Definition render_footnote_ref (t : tok) (ks : list rt) : prog :=
    match assoc a_label (meta t) with
    | None => Fail (EPy KeyError)
    | Some target =>
        o <- alloc ;
        let tg := k_footnote_reference in
        if o_isdigit OR target then
          ot <- alloc ;
          _ <- note_footnote_ref (o_make_id OR) (c_auto_id_prefix C) o tg target ;
          Append (Elem o tg [(a_refname, [target])] [Text ot target]) Done
        else
          _ <- note_autofootnote_ref (o_make_id OR) (c_auto_id_prefix C) o tg ;
          _ <- note_footnote_ref (o_make_id OR) (c_auto_id_prefix C) o tg target ;
          Append (Elem o tg [(a_auto, [v_one]); (a_refname, [target])] []) Done
    end.

  (* an earlier footnote definition (document.footnotes and document.autofootnotes) has the label among its
     names or dupnames *)
  Definition footnote_defined (target : str) (f : fstate) : bool :=
    existsb (fun o => match nassoc o (objs f) with
                      | Some r => mem_str target (nr_names r) || mem_str target (nr_dupnames r)
                      | None => false
                      end) (footnotes f ++ autofootnotes f).

  Definition is_footnote_defined (target : str) : fop bool := fun f => Good (footnote_defined target f, f).

  Definition render_footnote_reference (t : tok) (ks : list rt) : prog :=
    match assoc a_label (meta t) with
    | None => Fail (EPy KeyError)
    | Some target =>
        dup <- is_footnote_defined target ;
        if (dup : bool) then (w <- create_warning w_ref_footnote ; Append w Done)
        else
          o <- alloc ;
          _ <- add_name o n_footnote target ;
          if o_isdigit OR target then
            new_text_elem n_label [] target (fun lbl =>
              _ <- note_footnote (o_make_id OR) (c_auto_id_prefix C) o n_footnote ;
              ms <- note_target' o n_footnote true ;
              Ctx o n_footnote [] (lbl :: ms) (render_children ks) (fun _ => Done))
          else
            _ <- note_autofootnote (o_make_id OR) (c_auto_id_prefix C) o n_footnote ;
            ms <- note_target' o n_footnote true ;
            Ctx o n_footnote [(a_auto, [v_one])] ms (render_children ks) (fun _ => Done)
    end.

  Definition render_myst_block_break (t : tok) (ks : list rt) : prog :=
    new_text_elem n_comment [(a_classes, [v_block_break])] (content t) (fun n => Append n Done).

  Definition render_myst_target (t : tok) (ks : list rt) : prog :=
    o <- alloc ;
    _ <- add_name o n_target (o_norm_name OR (content t)) ;
    ms <- note_target' o n_target true ;
    append_all ms (Append (Elem o n_target [] []) Done).

  Definition render_myst_line_comment (t : tok) (ks : list rt) : prog :=
    new_text_elem n_comment [] (o_strip OR (content t)) (fun n => Append n Done).

  (* ---- definition lists ---- *)
  Fixpoint dl_group (ks : list rt) : outcome (list rt * list (rt * list rt)) :=
    match ks with
    | [] => Good ([], [])
    | r :: rest =>
        match dl_group rest with
        | Bad e => Bad e
        | Good (lead, groups) =>
            match kind_of (ty (rt_tok r)) with
            | KDt => Good ([], (r, lead) :: groups)
            | KDd => Good (r :: lead, groups)
            | _ => Bad ENotModelled
            end
        end
    end.

  Definition render_dd (r : rt) : prog :=
    o <- alloc ;
    Ctx o n_definition [] [] (render_children (rt_kids r)) (fun _ => Done).

  Definition render_dl_item (g : rt * list rt) : prog :=
    oi <- alloc ;
    ot <- alloc ;
    Ctx oi n_definition_list_item [] []
        (Detached ot n_term [] [] (render_children (rt_kids (fst g))) (fun term =>
           Append term (seq_all (map render_dd (snd g)))))
        (fun _ => Done).

  Definition render_dl (t : tok) (ks : list rt) : prog :=
    o <- alloc ;
    '(a, msgs) <- copy_attributes t o n_definition_list keys_ci [] [(a_classes, [v_simple; v_myst])] ;
    if mem_str v_glossary (classes_of a) && is_sphinx then Fail ENotModelled else
    match dl_group ks with
    | Bad e => Fail e
    | Good (_ :: _, _) => Fail (EPy AttributeError)     (* dd before any dt: current_node_context(None) *)
    | Good ([], groups) =>
        Ctx o n_definition_list a msgs (seq_all (map render_dl_item groups)) (fun _ => Done)
    end.

  (* ---- field lists ---- *)
  Definition render_field (name : rt) (body : option rt) : prog :=
    of <- alloc ;
    on <- alloc ;
    Ctx of n_field [] []
        (Ctx on n_field_name [] [] (render_children (rt_kids name)) (fun _ =>
           ob <- alloc ;
           Ctx ob n_field_body [] []
               (match body with Some b => render_children (rt_kids b) | None => Done end)
               (fun _ => Done)))
        (fun _ => Done).

  Fixpoint field_loop (ks : list rt) : prog :=
    match ks with
    | [] => Done
    | n :: r =>
        match kind_of (ty (rt_tok n)) with
        | KFieldlistName =>
            match r with
            | b :: r' =>
                match kind_of (ty (rt_tok b)) with
                | KFieldlistBody => seq (render_field n (Some b)) (field_loop r')
                | _ => seq (render_field n None) (field_loop r)
                end
            | [] => render_field n None
            end
        | _ => Fail ENotModelled
        end
    end.

  Definition render_field_list (t : tok) (ks : list rt) : prog :=
    o <- alloc ;
    '(a, msgs) <- copy_attributes t o k_field_list keys_ci [] [(a_classes, [v_myst])] ;
    Ctx o k_field_list a msgs (field_loop ks) (fun _ => Done).

  Definition render_span (t : tok) (ks : list rt) : prog := container t ks k_inline [] keys_ci.

  (* render_colon_fence: a directive (the div form needs a nested parse and is not modelled) *)
  Definition render_colon_fence (t : tok) (ks : list rt) : prog :=
    let name := match o_split OR (o_strip OR (info t)) with w :: _ => w | [] => [] end in
    if starts_brace name && ends_brace name then
      dyn_splice [v_directive; strip_braces name; directive_arguments (info t);
                  if startswith (content t) v_colons then 10 :: content t else content t]
    else Fail ENotModelled.

  Definition render_myst_role (t : tok) (ks : list rt) : prog :=
    match assoc a_name (meta t) with
    | Some name => dyn_splice [v_role; name; content t]
    | None => Fail (EPy KeyError)
    end.

  (* self.rules[f"render_{type}"](token) or the "No render method" warning *)
  Definition dispatch (t : tok) (ks : list rt) : prog :=
    if negb (has_rule (ty t)) then (w <- create_warning w_render ; Append w Done)
    else
      match kind_of (ty t) with
      | KParagraph => render_paragraph t ks
      | KInline => render_inline t ks
      | KText => render_text t ks
      | KSoftbreak => render_softbreak t ks
      | KHardbreak => render_hardbreak t ks
      | KEm => render_em t ks
      | KStrong => render_strong t ks
      | KS => render_s t ks
      | KCodeInline => render_code_inline t ks
      | KCodeBlock => render_code_block t ks
      | KFence => render_fence t ks
      | KBlockquote => render_blockquote t ks
      | KBulletList => render_bullet_list t ks
      | KOrderedList => render_ordered_list t ks
      | KListItem => render_list_item t ks
      | KHr => render_hr t ks
      | KHeading => render_heading t ks
      | KLink => render_link t ks
      | KImage => render_image t ks
      | KHtmlBlock => render_html_block t ks
      | KHtmlInline => render_html_inline t ks
      | KTable => render_table t ks
      | KMathInline => render_math_inline t ks
      | KMathSingle => render_math_inline t ks
      | KMathInlineDouble => render_math_block t ks
      | KMathBlock => render_math_block t ks
      | KMathBlockLabel => render_math_block_label t ks
      | KAmsmath => render_amsmath t ks
      | KFootnoteRef => render_footnote_ref t ks
      | KFootnoteReference => render_footnote_reference t ks
      | KMystTarget => render_myst_target t ks
      | KMystBlockBreak => render_myst_block_break t ks
      | KMystLineComment => render_myst_line_comment t ks
      | KDl => render_dl t ks
      | KFieldList => render_field_list t ks
      | KSpan => render_span t ks
      | KColonFence => render_colon_fence t ks
      | KMystRole => render_myst_role t ks
      | KSubstInline => dyn_splice [v_substitution; v_true; content t]
      | KSubstBlock => dyn_splice [v_substitution; v_false; content t]
      | KFrontMatter => dyn_splice [k_front_matter; content t]
      | KDt | KDd | KFieldlistName | KFieldlistBody | KThead | KTbody | KTr | KTh | KTd | KOther => Fail ENotModelled
      end.

  Fixpoint build (t : tok) : rt :=
    match t with
    | Tok a b c d e f g h cs =>
        let ks := (fix go (l : list tok) : list rt :=
                     match l with [] => [] | x :: r => build x :: go r end) cs in
        RT t (dispatch t ks) ks
    end.

  (* _render_tokens: the children of the root, then _render_finalise's duplicate-reference warnings
     (appended to the document itself) *)
  Definition render_tokens (ts : list tok) : prog := render_children (map build ts).

  Fixpoint dup_ref_warnings (n : nat) (acc : list node) : fop (list node) :=
    match n with
    | O => fret acc
    | S n' => w <-- create_warning w_duplicate_def ;; dup_ref_warnings n' (acc ++ [w])
    end.

  Definition s_init : istate :=
    mkI (Elem 0 n_document [] []) [] [(0, [])] f_init.

  Definition render_state (ts : list tok) : outcome istate :=
    match run_i (render_tokens ts) s_init with
    | Bad e => Bad e
    | Good s =>
        match dup_ref_warnings (N.to_nat (c_dup_refs C)) [] (fs s) with
        | Bad e => Bad e
        | Good (ws, f') => Good (mkI (app_at [] ws (tree s)) (cur s) (lvl s) f')
        end
    end.
End Render.

(* merge the side table (names, dupnames, ids) into the tree: what the Python objects show *)
(* names, dupnames and ids of a node are the ones its object carries (the side table), whatever the attribute
   list built by the renderer says *)
Definition strip_key (k : str) (a : nattrs) : nattrs := filter (fun kv => negb (str_eqb (fst kv) k)) a.
Definition strip_reg (a : nattrs) : nattrs := strip_key a_ids (strip_key a_dupnames (strip_key a_names a)).

Definition deco_attrs (objs : list (N * nrec)) (o : N) (a0 : nattrs) : nattrs :=
  let a := strip_reg a0 in
  match nassoc o objs with
  | None => a
  | Some r =>
      a ++ (match nr_names r with [] => [] | l => [(a_names, l)] end)
        ++ (match nr_dupnames r with [] => [] | l => [(a_dupnames, l)] end)
        ++ (match nr_ids r with [] => [] | l => [(a_ids, l)] end)
  end.

Fixpoint decorate (objs : list (N * nrec)) (n : node) : node :=
  match n with
  | Text o s => Text o s
  | Elem o tg a cs => Elem o tg (deco_attrs objs o a) (map (decorate objs) cs)
  end.

Definition render_doc (B : backend) (C : cfg) (O : oracles) (ts : list tok) : outcome (node * list str) :=
  match render_state B C O ts with
  | Bad e => Bad e
  | Good s => Good (decorate (objs (fs s)) (tree s), warns (fs s))
  end.
