(* C03 "refid values resolve", for the reference kinds the renderer creates, composed from the models of the
   two transforms that write refid attributes:
     - footnote references: docutils Footnotes after SortFootnotes  (Refs/Foot.v, theorem refs_point_to_defs of
       the C11 builder);
     - '#anchor' links: ResolveAnchorIds  (Refs/Anchors.v, theorems build_explicit_spec and resolution_order of
       the C09 builder).
   Nothing is re-modelled here; the statements below are corollaries in the vocabulary of C03 ("every refid
   written names something that exists").  Doc/Transforms.v models the same two transforms on the identity
   labelled tree; its agreement with the implementation is checked by the C03 correspondence (stage xform). *)
From Coq Require Import List NArith Bool.
From MV Require Import Base.PyStr.
From MV Require Import Base.Res.
From MV Require Import Refs.RUtil.
From MV Require Import Refs.Foot.
From MV Require Import Refs.FootProofs.
From MV Require Import Refs.Anchors.
From MV Require Import Refs.AnchorsProofs.
Import ListNotations.

(* ---- footnote references ---- *)
(* after the footnote transforms a footnote reference carries a refid only if a footnote definition with
   that id (in the Foot model: its label) is among the kept definitions *)
Theorem footnote_refid_resolves :
  forall (isdigit : str -> bool) (int_of : str -> option N) (fx : Foot.fstate -> res Foot.fstate),
  (forall s, fx s = docutils_footnotes s) ->
  forall fs ft d r, run isdigit int_of fx fs ft d = Ok r ->
  forall o l, In o (x_refs r) -> ro_refid o = Some l ->
  exists f, In f (x_foots r) /\ lbl f = l /\ In (ro_idx o) (fo_backrefs f).
Proof.
  intros isdigit int_of fx Hfx fs ft d r Hrun o l Ho Hl.
  destruct (refs_point_to_defs isdigit int_of fx Hfx fs ft d r Hrun) as [_ [_ [H3 H4]]].
  destruct (existsb (fun f => str_eqb (lbl f) (ro_label o)) (x_foots r)) eqn:E.
  - apply existsb_exists in E. destruct E as [f [Hf Ef]]. apply str_eqb_eq in Ef.
    destruct (H3 o f Ho Hf Ef) as [Hr [_ Hb]]. exists f. split; [exact Hf|]. split; [congruence | exact Hb].
  - assert (Hnone : forall f, In f (x_foots r) -> lbl f <> ro_label o).
    { intros f Hf Ef. assert (X : existsb (fun f => str_eqb (lbl f) (ro_label o)) (x_foots r) = true).
      { apply existsb_exists. exists f. split; [exact Hf | apply str_eqb_eq; exact Ef]. }
      rewrite E in X. discriminate. }
    rewrite (H4 o Ho Hnone) in Hl. discriminate.
Qed.

(* ---- '#anchor' links ---- *)
(* an entry of the explicit table names an id registered in document.ids - or, for an indirect target
   ('target' node with a refid), the first name of the node that target points to (this is what the code
   writes; it is a name, not an id: Doc/Transforms.v leaves the case outside the model) *)
Theorem explicit_refid_registered :
  forall lr rg ex name lid title,
  NoDup (map fst (nametypes rg)) ->
  build_explicit lr rg = Ok ex ->
  dget ex name = Some (lid, title) ->
  (exists node, dget (ids rg) lid = Some node) \/
  (exists labelid t rid node rest,
      dget (nameids rg) name = Some (Some labelid) /\ dget (ids rg) labelid = Some t /\
      n_kind t = KTarget /\ n_refid t = Some rid /\ dget (ids rg) rid = Some node /\ n_names node = lid :: rest).
Proof.
  intros lr rg ex name lid title Hnd Hb He.
  rewrite (build_explicit_spec lr rg ex Hnd Hb name) in He.
  destruct (dget (nametypes rg) name) as [[|]|]; try discriminate.
  unfold entry in He.
  destruct (dget (nameids rg) name) as [[labelid|]|] eqn:En; try discriminate.
  unfold denoted in He.
  destruct (dget (ids rg) labelid) as [t|] eqn:Et; try discriminate.
  destruct (n_kind t) eqn:Ek; destruct (n_refid t) as [rid|] eqn:Er; cbn [bind] in He;
    try (destruct (skipped lr t); inversion He; subst; left; exists t; exact Et).
  destruct (dget (ids rg) rid) as [node|] eqn:En2; try discriminate.
  destruct (n_names node) as [|nm rest] eqn:Enm; try discriminate. cbn [bind] in He.
  destruct (skipped lr node); inversion He; subst.
  right. exists labelid, t, rid, node, rest. repeat split; auto.
Qed.

(* a link resolved against the explicit table gets that entry's id as refid, silently *)
Theorem anchor_refid_resolves :
  forall nl sphinx suppressed slug_hash lr rg ex slugs r lid title,
  NoDup (map fst (nametypes rg)) ->
  build_explicit lr rg = Ok ex ->
  dget ex (r_frag r) = Some (lid, title) ->
  o_refid (resolve_one nl sphinx suppressed slug_hash ex slugs r) = Some lid /\
  o_warn (resolve_one nl sphinx suppressed slug_hash ex slugs r) = [] /\
  ((exists node, dget (ids rg) lid = Some node) \/
   (exists labelid t rid node rest,
      dget (nameids rg) (r_frag r) = Some (Some labelid) /\ dget (ids rg) labelid = Some t /\
      n_kind t = KTarget /\ n_refid t = Some rid /\ dget (ids rg) rid = Some node /\ n_names node = lid :: rest)).
Proof.
  intros nl sphinx suppressed slug_hash lr rg ex slugs r lid title Hnd Hb He.
  destruct (resolution_order nl sphinx suppressed slug_hash ex slugs r) as [H1 _].
  destruct (H1 lid title He) as [A [B _]]. split; [exact A|]. split; [exact B|].
  eapply explicit_refid_registered; eauto.
Qed.

(* a link that neither table resolves is the only one whose refid may dangle, and it is reported: under
   docutils exactly one myst.xref_missing warning, under Sphinx a pending_xref without refid *)
Theorem anchor_refid_dangles_only_reported :
  forall nl sphinx suppressed slug_hash ex slugs r,
  dget ex (r_frag r) = None -> dget slugs (r_frag r) = None ->
  let o := resolve_one nl sphinx suppressed slug_hash ex slugs r in
  (sphinx = true -> o_refid o = None /\ o_pending o = true) /\
  (sphinx = false -> suppressed = false -> o_msg o = true /\ length (o_warn o) = 1%nat).
Proof.
  intros nl sphinx suppressed slug_hash ex slugs r He Hs o. subst o. split.
  - intros ->. destruct (missing_sphinx nl suppressed slug_hash ex slugs r He Hs) as [A [_ [B _]]]. auto.
  - intros -> ->. destruct (missing_docutils nl slug_hash ex slugs r He Hs) as [A [_ [_ [B _]]]].
    split; [exact B | rewrite A; reflexivity].
Qed.
