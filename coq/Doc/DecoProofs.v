(* Merging the registry side table (names, dupnames, ids) into the tree changes none of the
   observations of C02 / C03: they read other attributes only. *)
From Coq Require Import List NArith Bool Lia.
From MV Require Import Base.PyStr.
From MV Require Import Doc.Str.
From MV Require Import Doc.Node.
From MV Require Import Doc.Registry.
From MV Require Import Doc.Render.
From MV Require Import Doc.Skel.
From MV Require Import Doc.WF.
From MV Require Import Doc.OpsProofs.
From MV Require Import Doc.Post.
Import ListNotations.
Open Scope N_scope.

Lemma assoc_app {V} k (a b : list (str * V)) :
  assoc k (a ++ b) = match assoc k a with Some v => Some v | None => assoc k b end.
Proof. induction a as [|[k' v'] a IH]; simpl; auto. destruct (str_eqb k k'); auto. Qed.

Lemma assoc_strip_other k k' (a : nattrs) : k <> k' -> assoc k (strip_key k' a) = assoc k a.
Proof.
  intro H. unfold strip_key. induction a as [|[k0 v0] a IH]; [reflexivity|]. cbn [filter fst].
  destruct (str_eqb k0 k') eqn:E; cbn [negb].
  - apply str_eqb_eq in E. subst k0. cbn [assoc]. apply str_eqb_neq in H. rewrite H. exact IH.
  - cbn [assoc]. rewrite IH. reflexivity.
Qed.

Lemma assoc_strip_same k (a : nattrs) : assoc k (strip_key k a) = None.
Proof.
  unfold strip_key. induction a as [|[k0 v0] a IH]; [reflexivity|]. cbn [filter fst].
  destruct (str_eqb k0 k) eqn:E; cbn [negb]; [exact IH|].
  cbn [assoc]. replace (str_eqb k k0) with false; [exact IH|].
  symmetry. apply str_eqb_neq. intro X. subst k0. rewrite str_eqb_refl in E. discriminate.
Qed.

Lemma assoc_strip_reg k a : k <> a_names -> k <> a_dupnames -> k <> a_ids -> assoc k (strip_reg a) = assoc k a.
Proof. intros H1 H2 H3. unfold strip_reg. rewrite !assoc_strip_other; auto. Qed.

Lemma assoc_ids_strip_reg a : assoc a_ids (strip_reg a) = None.
Proof. unfold strip_reg. apply assoc_strip_same. Qed.

Lemma deco_assoc objs o a k :
  k <> a_names -> k <> a_dupnames -> k <> a_ids -> assoc k (deco_attrs objs o a) = assoc k a.
Proof.
  intros H1 H2 H3. unfold deco_attrs. destruct (nassoc o objs) as [r|]; [|apply assoc_strip_reg; auto].
  rewrite !assoc_app, assoc_strip_reg by auto. destruct (assoc k a); [reflexivity|].
  assert (E1 : str_eqb k a_names = false) by (apply str_eqb_neq; exact H1).
  assert (E2 : str_eqb k a_dupnames = false) by (apply str_eqb_neq; exact H2).
  assert (E3 : str_eqb k a_ids = false) by (apply str_eqb_neq; exact H3).
  destruct (nr_names r); destruct (nr_dupnames r); destruct (nr_ids r); simpl; rewrite ?E1, ?E2, ?E3; reflexivity.
Qed.

Lemma oids_decorate objs n : oids (decorate objs n) = oids n.
Proof.
  induction n as [o s|o tg a cs IH] using node_ind'; cbn [decorate oids]; auto. f_equal.
  induction IH as [|c cs Hc _ IHc]; cbn [map flat_map]; auto. rewrite Hc, IHc. reflexivity.
Qed.

Lemma tag_of_decorate objs n : tag_of (decorate objs n) = tag_of n.
Proof. destruct n; reflexivity. Qed.

Lemma astext_decorate objs n : astext (decorate objs n) = astext n.
Proof.
  induction n as [o s|o tg a cs IH] using node_ind'; cbn [decorate astext]; auto.
  induction IH as [|c cs Hc _ IHc]; cbn [map flat_map]; auto. rewrite Hc, IHc. reflexivity.
Qed.

Lemma flat_map_astext_decorate objs cs : flat_map astext (map (decorate objs) cs) = flat_map astext cs.
Proof. induction cs as [|c cs IH]; cbn [map flat_map]; auto. rewrite astext_decorate, IH. reflexivity. Qed.

Lemma forallb_map_ext {A} (f g : A -> bool) (h : A -> A) l :
  Forall (fun x => f (h x) = g x) l -> forallb f (map h l) = forallb g l.
Proof. intro H. induction H as [|x l Hx _ IH]; cbn [map forallb]; auto. rewrite Hx, IH. reflexivity. Qed.

Lemma existsb_map_ext {A} (f g : A -> bool) (h : A -> A) l :
  Forall (fun x => f (h x) = g x) l -> existsb f (map h l) = existsb g l.
Proof. intro H. induction H as [|x l Hx _ IH]; cbn [map existsb]; auto. rewrite Hx, IH. reflexivity. Qed.

Lemma sections_ok_decorate objs n : forall pt, sections_ok pt (decorate objs n) = sections_ok pt n.
Proof.
  induction n as [o s|o tg a cs IH] using node_ind'; intro pt; cbn [decorate sections_ok]; auto.
  f_equal.
  - destruct (str_eqb tg n_section); auto. f_equal. destruct cs as [|c cs']; cbn [map]; auto.
    rewrite tag_of_decorate. reflexivity.
  - apply forallb_map_ext. eapply Forall_impl; [|exact IH]. intros c Hc. apply Hc.
Qed.

Lemma transitions_ok_decorate objs n : forall pt, transitions_ok pt (decorate objs n) = transitions_ok pt n.
Proof.
  induction n as [o s|o tg a cs IH] using node_ind'; intro pt; cbn [decorate transitions_ok]; auto.
  f_equal. apply forallb_map_ext. eapply Forall_impl; [|exact IH]. intros c Hc. apply Hc.
Qed.

Lemma count_tag_decorate objs tg cs : count_tag tg (map (decorate objs) cs) = count_tag tg cs.
Proof.
  unfold count_tag. induction cs as [|c cs IH]; cbn [map filter]; auto. rewrite tag_of_decorate.
  destruct (str_eqb (tag_of c) tg); cbn [length]; rewrite IH; reflexivity.
Qed.

Lemma kids_of_decorate objs n : kids_of (decorate objs n) = map (decorate objs) (kids_of n).
Proof. destruct n; reflexivity. Qed.

Lemma rows_ok_decorate objs n : rows_ok (decorate objs n) = rows_ok n.
Proof.
  induction n as [o s|o tg a cs IH] using node_ind'; cbn [decorate rows_ok]; auto.
  f_equal.
  - destruct (str_eqb tg n_tgroup); auto. unfold tgroup_ok. rewrite count_tag_decorate.
    rewrite deco_assoc by discriminate. f_equal.
    apply forallb_map_ext. apply Forall_forall. intros sec _. rewrite tag_of_decorate.
    destruct (_ || _); auto. rewrite kids_of_decorate. apply forallb_map_ext. apply Forall_forall. intros r _.
    unfold row_ok. rewrite tag_of_decorate, kids_of_decorate, count_tag_decorate. reflexivity.
  - apply forallb_map_ext. exact IH.
Qed.

Lemma has_dropped_decorate objs n : has_dropped (decorate objs n) = has_dropped n.
Proof.
  induction n as [o s|o tg a cs IH] using node_ind'; cbn [decorate has_dropped]; auto.
  f_equal.
  - unfold is_dropped_msg. rewrite deco_assoc by discriminate. reflexivity.
  - apply existsb_map_ext. exact IH.
Qed.

Section SkelDeco.
  Variable D : str -> str.

  Lemma skel_node_decorate objs n : skel_node D (decorate objs n) = skel_node D n.
  Proof.
    induction n as [o s|o tg a cs IH] using node_ind'; cbn [decorate skel_node]; auto.
    assert (Hk : flat_map (skel_node D) (map (decorate objs) cs) = flat_map (skel_node D) cs).
    { clear -IH. induction IH as [|c cs Hc _ IHc]; cbn [map flat_map]; auto. rewrite Hc, IHc. reflexivity. }
    rewrite Hk, flat_map_astext_decorate.
    unfold code_lang_of, link_dest_of, classes_of.
    rewrite !deco_assoc by discriminate.
    destruct (nkind_of tg) eqn:K; try reflexivity.
    (* pending_xref: the inner node's children *)
    f_equal. f_equal. clear Hk. induction IH as [|c cs Hc _ IHc]; cbn [map flat_map]; auto.
    rewrite IHc. f_equal. destruct c as [oc sc|oc tgc ac csc]; auto.
    cbn [decorate].
    destruct (nkind_of tgc) eqn:Kc; try exact Hc; try reflexivity.
    match goal with kk : ckind |- _ => destruct kk; try exact Hc end.
    cbn [decorate skel_node] in Hc. rewrite Kc in Hc. inversion Hc. reflexivity.
  Qed.
End SkelDeco.
