(* The model-side operations that the source translation of transforms.py (gen/c11_src.py ->
   Gen/FootSrc.v) maps Python constructs to.  This file IS the domain mapping: it is trusted to say
   what the docutils node / registry operations mean on the model types of Foot.v. *)
From Coq Require Import List NArith Bool.
From MV Require Import Base.PyStr Base.Res Refs.RUtil Gen.Transforms Refs.Foot.
Import ListNotations.
Open Scope N_scope.

Definition nonempty_l {A} (l : list A) : bool := match l with [] => false | _ => true end.  (* bool(list) *)
(* L[0]; only emitted where a guard `if L ...` excludes the IndexError (checked by the translator) *)
Definition hd_str (l : list str) : str := match l with x :: _ => x | [] => [] end.
(* L.index(x); only emitted under the guard `x in L` *)
Definition py_index (x : str) (l : list str) : nat := match index_of x l with Some i => i | None => O end.

(* a footnote_reference made by render_footnote_ref always has a refname when SortFootnotes runs *)
Definition rf_has_refname (r : rf) : bool := true.
(* node["names"] of a footnote built by render_footnote_reference: exactly its label *)
Definition fn_names (f : fn) : list str := [f_label f].

Definition set_autofootnotes (g : regs) (l : list fn) : regs :=
  {| g_nameids := g_nameids g; g_autofootnotes := l; g_footnotes := g_footnotes g;
     g_autofootnote_refs := g_autofootnote_refs g; g_footnote_refs := g_footnote_refs g;
     g_allrefs := g_allrefs g; g_nrefs := g_nrefs g; g_warn := g_warn g |}.

(* after docutils' Footnotes transform a footnote is an [fout] *)
Definition s_symbol (s : fstate) : list fout := [].         (* document.symbol_footnotes: rST only *)
Definition fo_names (f : fout) : list str := [f_label (fo_fn f)].
Definition fo_dupnames (f : fout) : list str := [].
Definition lbl_of (f : fout) : str := f_label (fo_fn f).
Definition fo_label_node (f : fout) : str := fo_display f.   (* footnote.children[0]: the label node *)
Definition fo_display_of (label : str) : str := label.      (* label.astext() *)

Definition set_warn (s : fstate) (w : list warn) : fstate :=
  {| s_regs := s_regs s; s_manual := s_manual s; s_auto := s_auto s; s_layout := s_layout s; s_warn := w |}.
Definition set_layout (s : fstate) (ly : list ltop) : fstate :=
  {| s_regs := s_regs s; s_manual := s_manual s; s_auto := s_auto s; s_layout := ly; s_warn := s_warn s |}.

(* footnote.parent.remove(footnote): the footnote (identified by its label) leaves its parent, wherever that is *)
Fixpoint remove_label (l : str) (n : ltop) : list ltop :=
  match n with
  | LFoot l' => if str_eqb l l' then [] else [n]
  | LBox its => [LBox (flat_map (remove_label l) its)]
  | other => [other]
  end.
Definition remove_foot (f : fout) (ly : list ltop) : list ltop := flat_map (remove_label (lbl_of f)) ly.

(* ---- base.py: render_footnote_ref / render_footnote_reference (docutils document.note_* registries) ---- *)
Definition fn_dupnames (f : fn) : list str := [].     (* footnotes built by MyST never get dupnames: duplicates are dropped *)
(* nodes.footnote_reference(..): the next reference of the document, not yet marked auto *)
Definition new_ref (g : regs) (target : str) : rf := {| r_idx := g_nrefs g; r_label := target; r_auto := false |}.
Definition ref_set_auto (r : rf) : rf := {| r_idx := r_idx r; r_label := r_label r; r_auto := true |}.
Definition ref_set_refname (r : rf) (target : str) : rf := {| r_idx := r_idx r; r_label := target; r_auto := r_auto r |}.
Definition note_autofootnote_ref (g : regs) (r : rf) : regs :=
  {| g_nameids := g_nameids g; g_autofootnotes := g_autofootnotes g; g_footnotes := g_footnotes g;
     g_autofootnote_refs := g_autofootnote_refs g ++ [r]; g_footnote_refs := g_footnote_refs g;
     g_allrefs := g_allrefs g; g_nrefs := g_nrefs g; g_warn := g_warn g |}.
Definition note_footnote_ref (g : regs) (r : rf) : regs :=
  {| g_nameids := g_nameids g; g_autofootnotes := g_autofootnotes g; g_footnotes := g_footnotes g;
     g_autofootnote_refs := g_autofootnote_refs g; g_footnote_refs := dappend (g_footnote_refs g) (r_label r) r;
     g_allrefs := g_allrefs g; g_nrefs := g_nrefs g; g_warn := g_warn g |}.
Definition append_ref (g : regs) (r : rf) : regs :=
  {| g_nameids := g_nameids g; g_autofootnotes := g_autofootnotes g; g_footnotes := g_footnotes g;
     g_autofootnote_refs := g_autofootnote_refs g; g_footnote_refs := g_footnote_refs g;
     g_allrefs := g_allrefs g ++ [r]; g_nrefs := S (g_nrefs g); g_warn := g_warn g |}.
(* nodes.footnote(): no name yet *)
Definition new_fn (body : N) : fn := {| f_label := []; f_auto := false; f_body := body |}.
Definition fn_add_name (f : fn) (target : str) : fn := {| f_label := target; f_auto := f_auto f; f_body := f_body f |}.
Definition fn_set_auto (f : fn) : fn := {| f_label := f_label f; f_auto := true; f_body := f_body f |}.
Definition note_footnote (g : regs) (f : fn) : regs :=
  {| g_nameids := g_nameids g; g_autofootnotes := g_autofootnotes g; g_footnotes := g_footnotes g ++ [f];
     g_autofootnote_refs := g_autofootnote_refs g; g_footnote_refs := g_footnote_refs g;
     g_allrefs := g_allrefs g; g_nrefs := g_nrefs g; g_warn := g_warn g |}.
Definition note_autofootnote (g : regs) (f : fn) : regs :=
  {| g_nameids := g_nameids g; g_autofootnotes := g_autofootnotes g ++ [f]; g_footnotes := g_footnotes g;
     g_autofootnote_refs := g_autofootnote_refs g; g_footnote_refs := g_footnote_refs g;
     g_allrefs := g_allrefs g; g_nrefs := g_nrefs g; g_warn := g_warn g |}.
Definition note_explicit_target (g : regs) (f : fn) : regs :=
  {| g_nameids := g_nameids g ++ [f_label f]; g_autofootnotes := g_autofootnotes g; g_footnotes := g_footnotes g;
     g_autofootnote_refs := g_autofootnote_refs g; g_footnote_refs := g_footnote_refs g;
     g_allrefs := g_allrefs g; g_nrefs := g_nrefs g; g_warn := g_warn g |}.
Definition add_warn (g : regs) (w : warn) : regs :=
  {| g_nameids := g_nameids g; g_autofootnotes := g_autofootnotes g; g_footnotes := g_footnotes g;
     g_autofootnote_refs := g_autofootnote_refs g; g_footnote_refs := g_footnote_refs g;
     g_allrefs := g_allrefs g; g_nrefs := g_nrefs g; g_warn := g_warn g ++ [w] |}.
