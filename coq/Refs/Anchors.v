(* Model of myst_parser/mdit_to_docutils/transforms.py : ResolveAnchorIds.apply
   (the transform that resolves [text](#target) / [](#target) / <project:#target>).
   Executable definitions only; proofs are in AnchorsProofs.v.

   The state the transform sees (all produced earlier by the renderer and docutils):
     document.nametypes : name -> bool     (True = explicit target name)
     document.nameids   : name -> id | None
     document.ids       : id -> node
     document.myst_slugs: slug -> (line, section id, title text)
     the reference nodes with id_link=True, in document order (findall)            *)
From Coq Require Import List NArith Bool.
From MV Require Import Base.PyStr Base.Res Refs.RUtil.
Import ListNotations.
Open Scope N_scope.

(* the isinstance() tests made on a registered node *)
Inductive kind : Type :=
| KTarget          (* nodes.target *)
| KCaptionTitle    (* nodes.caption | nodes.title *)
| KDefFieldList    (* nodes.definition_list | nodes.field_list *)
| KFieldDLI        (* nodes.field | nodes.definition_list_item *)
| KTermFieldName   (* nodes.term | nodes.field_name *)
| KOther.

(* what the transform reads of a docutils node: tagname, class, 'refid', "refuri" in node,
   node["names"], clean_astext(node), children *)
Inductive dnode : Type :=
| DN (tag : str) (k : kind) (refid : option str) (has_refuri : bool)
     (names : list str) (astext : str) (children : list dnode).

Definition n_tag (n : dnode) := let 'DN t _ _ _ _ _ _ := n in t.
Definition n_kind (n : dnode) := let 'DN _ k _ _ _ _ _ := n in k.
Definition n_refid (n : dnode) := let 'DN _ _ r _ _ _ _ := n in r.
Definition n_has_refuri (n : dnode) := let 'DN _ _ _ u _ _ _ := n in u.
Definition n_names (n : dnode) := let 'DN _ _ _ _ ns _ _ := n in ns.
Definition n_astext (n : dnode) := let 'DN _ _ _ _ _ t _ := n in t.
Definition n_children (n : dnode) := let 'DN _ _ _ _ _ _ c := n in c.

Definition kind_eqb (a b : kind) : bool :=
  match a, b with
  | KTarget, KTarget | KCaptionTitle, KCaptionTitle | KDefFieldList, KDefFieldList
  | KFieldDLI, KFieldDLI | KTermFieldName, KTermFieldName | KOther, KOther => true
  | _, _ => false
  end.

Definition s_rubric   : str := [114;117;98;114;105;99].              (* "rubric" *)
Definition s_footnote : str := [102;111;111;116;110;111;116;101].    (* "footnote" *)
Definition s_desc_    : str := [100;101;115;99;95].                  (* "desc_" *)
Definition s_hash     : str := [35].                                 (* "#" *)

Record registries := {
  nametypes : list (str * bool);
  nameids   : list (str * option str);
  ids       : list (str * dnode) }.

(* first child that is a caption or title:  for subnode in node: if isinstance(...): break *)
Fixpoint first_caption_title (cs : list dnode) : option dnode :=
  match cs with
  | [] => None
  | c :: cs' => if kind_eqb (n_kind c) KCaptionTitle then Some c else first_caption_title cs'
  end.

(* node[0] when node.children is non-empty *)
Definition descend (want : kind) (n : dnode) : dnode :=
  if kind_eqb (n_kind n) want then
    match n_children n with c :: _ => c | [] => n end
  else n.

(* the three "implicit_title" blocks *)
Definition implicit_title_of (node : dnode) : option str :=
  if str_eqb (n_tag node) s_rubric then Some (n_astext node) else
  match first_caption_title (n_children node) with
  | Some c => Some (n_astext c)
  | None =>
      let node1 := descend KDefFieldList node in
      let node2 := descend KFieldDLI node1 in
      if kind_eqb (n_kind node2) KTermFieldName then Some (n_astext node2) else None
  end.

Definition explicit_t := list (str * (str * option str)).

(* the nodes that never become link targets: footnotes, external hyperlink *targets* (a target
   node with a refuri) and object descriptions.  [legacy_refuri] = the code before the fix:
   commit, which skipped every node with a refuri, also a link carrying an id attribute *)
Definition skipped (legacy_refuri : bool) (n : dnode) : bool :=
  str_eqb (n_tag n) s_footnote
  || (n_has_refuri n && (legacy_refuri || kind_eqb (n_kind n) KTarget))
  || startswith (n_tag n) s_desc_.

(* one iteration of  for name, is_explicit in self.document.nametypes.items()  *)
Definition explicit_step (legacy_refuri : bool) (rg : registries) (acc : explicit_t) (name : str) (is_explicit : bool)
  : res explicit_t :=
  if negb is_explicit then Ok acc else
  match dget (nameids rg) name with
  | None => Raise KeyError                               (* self.document.nameids[name] *)
  | Some None => Ok acc                                  (* labelid is None: continue *)
  | Some (Some labelid) =>
      match dget (ids rg) labelid with
      | None => Raise KeyError                           (* self.document.ids[labelid] *)
      | Some node =>
          do nl <- (match n_kind node, n_refid node with
                    | KTarget, Some rid =>               (* indirect hyperlink targets *)
                        match dget (ids rg) rid with
                        | None => Raise TypeError        (* None["names"] *)
                        | Some node2 =>
                            match n_names node2 with
                            | [] => Raise IndexError
                            | nm :: _ => Ok (node2, nm)
                            end
                        end
                    | _, _ => Ok (node, labelid)
                    end);
          let '(node', labelid') := nl in
          if skipped legacy_refuri node'
          then Ok acc
          else Ok (dset acc name (labelid', implicit_title_of node'))
      end
  end.

Fixpoint build_explicit_from (lr : bool) (rg : registries) (nts : list (str * bool)) (acc : explicit_t)
  : res explicit_t :=
  match nts with
  | [] => Ok acc
  | (name, ie) :: nts' =>
      do acc' <- explicit_step lr rg acc name ie; build_explicit_from lr rg nts' acc'
  end.

Definition build_explicit (legacy_refuri : bool) (rg : registries) : res explicit_t :=
  build_explicit_from legacy_refuri rg (nametypes rg) [].

(* ---- the reference loop ---- *)

Record ref := {
  r_frag : str;            (* refnode["refuri"][1:] *)
  r_has_text : bool;       (* bool(refnode.children) before the transform *)
  r_line : option N }.     (* refnode.line *)

Record warning := { w_line : option N; w_target : str }.   (* one myst.xref_missing *)

Record rout := {
  o_frag : str;            (* which link this is *)
  o_refid : option str;    (* refnode["refid"] after the transform (None: pending_xref) *)
  o_fill : option str;     (* text of the inline node appended, if any *)
  o_warn : list warning;   (* warnings logged for this link *)
  o_msg : bool;            (* a system_message child was appended *)
  o_pending : bool;        (* replaced by a pending_xref (Sphinx) *)
  o_pline : option N }.    (* the line the pending_xref carries (pending.line = refnode.line) *)

Definition slugs_t := list (str * (option N * str * str)).   (* slug -> (line, id, title) *)

Definition nonempty (s : str) : bool := match s with [] => false | _ => true end.

Section Resolve.
  (* markdown_it.common.normalize_url.normalizeLink: external, only passed through *)
  Variable normalizeLink : str -> str.
  Variable sphinx : bool.          (* hasattr(document.settings, "env") *)
  Variable suppressed : bool.      (* myst.xref_missing listed in suppress_warnings *)
  (* [slug_hash]: the slug branch falls back to "#target" for an empty title, as the explicit
     branch does (the fix: commit); false = the code as it was before *)
  Variable slug_hash : bool.

  Definition resolve_one (explicit : explicit_t) (slugs : slugs_t) (r : ref) : rout :=
    let target := r_frag r in
    match dget explicit target with
    | Some (ref_id, title) =>
        let fill :=
          if negb (r_has_text r) then
            match title with
            | Some t => if nonempty t then Some t else Some (s_hash ++ target)
            | None => Some (s_hash ++ target)
            end
          else None in
        {| o_frag := target; o_refid := Some ref_id; o_fill := fill; o_warn := [];
           o_msg := false; o_pending := false; o_pline := None |}
    | None =>
        match dget slugs target with
        | Some (_, sect_id, title) =>
            let fill :=
              if negb (r_has_text r) then
                if nonempty title then Some title
                else if slug_hash then Some (s_hash ++ target) else None
              else None in
            {| o_frag := target; o_refid := Some sect_id; o_fill := fill; o_warn := [];
               o_msg := false; o_pending := false; o_pline := None |}
        | None =>
            if sphinx then
              {| o_frag := target; o_refid := None; o_fill := None; o_warn := [];
                 o_msg := false; o_pending := true; o_pline := r_line r |}
            else
              (* create_warning(..., line=refnode.line, append_to=refnode) returns None and
                 appends nothing when suppressed; otherwise the system_message becomes a
                 child, so "if not refnode.children" below is false *)
              let has_children := r_has_text r || negb suppressed in
              {| o_frag := target; o_refid := Some (normalizeLink target);
                 o_fill := if has_children then None else Some (s_hash ++ target);
                 o_warn := if suppressed then []
                           else [{| w_line := r_line r; w_target := target |}];
                 o_msg := negb suppressed; o_pending := false; o_pline := None |}
        end
    end.

  Variable legacy_refuri : bool.

  Definition apply (rg : registries) (slugs : slugs_t) (refs : list ref) : res (list rout) :=
    do explicit <- build_explicit legacy_refuri rg;
    Ok (map (resolve_one explicit slugs) refs).
End Resolve.

Definition warnings_of (outs : list rout) : list warning := flat_map o_warn outs.
