(* Proofs about the footnote pipeline model (Foot.v). *)
From Coq Require Import List NArith ZArith Bool Lia Permutation Sorted.
From MV Require Import Base.PyStr Base.Res Refs.RUtil Refs.RUtilProofs Gen.Transforms Refs.Foot.
Import ListNotations.
Open Scope N_scope.

(* ================================================================ generic list facts *)

Lemma mem_str_app s a b : mem_str s (a ++ b) = mem_str s a || mem_str s b.
Proof. induction a as [|x a IH]; simpl; auto. rewrite IH. apply orb_assoc. Qed.

Lemma mem_str_false_notin s l : mem_str s l = false <-> ~ In s l.
Proof.
  split; intro H.
  - intro Hin. apply mem_str_In in Hin. congruence.
  - destruct (mem_str s l) eqn:E; auto. apply mem_str_In in E. contradiction.
Qed.

Lemma str_eqb_sym a b : str_eqb a b = str_eqb b a.
Proof.
  destruct (str_eqb a b) eqn:E.
  - apply str_eqb_eq in E. subst. symmetry. apply str_eqb_refl.
  - symmetry. apply str_eqb_neq. apply str_eqb_neq in E. congruence.
Qed.

Lemma NoDup_snoc {A} (l : list A) x : NoDup l -> ~ In x l -> NoDup (l ++ [x]).
Proof.
  intros Hnd Hx. induction Hnd as [|y l Hy Hnd IH]; simpl.
  - constructor; auto. constructor.
  - constructor.
    + intro Hin. apply in_app_or in Hin as [Hin|[Hin|[]]]; auto.
      subst. apply Hx. left. reflexivity.
    + apply IH. intro. apply Hx. right. assumption.
Qed.

(* x occurs before y in l *)
Definition before {A} (x y : A) (l : list A) : Prop :=
  exists l1 l2 l3, l = l1 ++ x :: l2 ++ y :: l3.

Lemma before_or {A} (x y : A) l : In x l -> In y l -> x <> y -> before x y l \/ before y x l.
Proof.
  intros Hx Hy Hne. apply in_split in Hx as [l1 [l2 ->]].
  apply in_app_or in Hy as [Hy|[Hy|Hy]].
  - right. apply in_split in Hy as [m1 [m2 ->]]. exists m1, m2, l2.
    rewrite <- app_assoc. reflexivity.
  - congruence.
  - left. apply in_split in Hy as [m1 [m2 ->]]. exists l1, m1, m2. reflexivity.
Qed.

Lemma sorted_before {A} (R : A -> A -> Prop) x y l :
  StronglySorted R l -> before x y l -> R x y.
Proof.
  intros Hs [l1 [l2 [l3 ->]]].
  induction l1 as [|a l1 IH]; simpl in Hs.
  - inversion Hs; subst. rewrite Forall_forall in H2. apply H2.
    apply in_or_app. right. left. reflexivity.
  - inversion Hs; subst. auto.
Qed.

Ltac rsimpl := cbn [g_nameids g_autofootnotes g_footnotes g_autofootnote_refs g_footnote_refs
                     g_allrefs g_nrefs g_warn fst snd].

(* ================================================================ the model *)
Section FootProofs.
  Variable isdigit : str -> bool.
  Variable int_of : str -> option N.

  Notation render_footnote_ref := (render_footnote_ref isdigit).
  Notation render_footnote_reference := (render_footnote_reference isdigit).
  Notation render_refs := (render_refs isdigit).
  Notation render_inner := (render_inner isdigit).
  Notation render_inners := (render_inners isdigit).
  Notation render_top := (render_top isdigit).
  Notation render_doc := (render_doc isdigit).

  (* ---------------------------------------------------------------- registries: invariant *)
  Record wf (g : regs) : Prop := {
    wf_nodup : NoDup (g_nameids g);
    wf_labels : Permutation (map f_label (g_autofootnotes g ++ g_footnotes g)) (g_nameids g);
    wf_auto : Forall (fun f => f_auto f = true /\ isdigit (f_label f) = false) (g_autofootnotes g);
    wf_manual : Forall (fun f => f_auto f = false /\ isdigit (f_label f) = true) (g_footnotes g);
    wf_idx : map r_idx (g_allrefs g) = seq 0 (g_nrefs g);
    wf_frefs : forall l, refs_of (g_footnote_refs g) l
                         = filter (fun r => str_eqb (r_label r) l) (g_allrefs g);
    wf_arefs : g_autofootnote_refs g = filter r_auto (g_allrefs g);
    wf_rauto : Forall (fun r => r_auto r = negb (isdigit (r_label r))) (g_allrefs g) }.

  Lemma wf_regs0 : wf regs0.
  Proof.
    constructor; simpl; auto; try constructor.
  Qed.

  Lemma refs_of_dappend d k (r : rf) l :
    refs_of (dappend d k r) l = if str_eqb k l then refs_of d l ++ [r] else refs_of d l.
  Proof.
    unfold refs_of, dappend.
    destruct (str_eqb k l) eqn:E.
    - apply str_eqb_eq in E. subst l. rewrite dget_dset_same.
      destruct (dget d k); reflexivity.
    - rewrite dget_dset_other; auto. apply str_eqb_neq. exact E.
  Qed.

  Lemma wf_ref g l : wf g -> wf (render_footnote_ref g l).
  Proof.
    intros [H1 H2 H3 H4 H5 H6 H7 H8]. unfold Foot.render_footnote_ref. constructor; rsimpl; auto.
    - rewrite seq_S, map_app, H5. reflexivity.
    - intro l'. rewrite refs_of_dappend, filter_app, H6. simpl.
      rewrite (str_eqb_sym l l').
      destruct (str_eqb l' l) eqn:E; simpl.
      + reflexivity.
      + rewrite app_nil_r. reflexivity.
    - rewrite filter_app, H7. simpl.
      destruct (negb (isdigit l)); simpl; auto. rewrite app_nil_r. reflexivity.
    - apply Forall_app. split; auto.
  Qed.

  Lemma wf_refs ls : forall g, wf g -> wf (render_refs g ls).
  Proof.
    unfold Foot.render_refs. induction ls as [|l ls IH]; intros g Hg; simpl; auto.
    apply IH. apply wf_ref. exact Hg.
  Qed.

  Lemma wf_def g l b : wf g -> wf (fst (render_footnote_reference g l b)).
  Proof.
    intros [H1 H2 H3 H4 H5 H6 H7 H8]. unfold Foot.render_footnote_reference.
    destruct (mem_str l (g_nameids g)) eqn:E; simpl.
    - constructor; simpl; auto.
    - apply mem_str_false_notin in E.
      constructor; simpl; auto.
      + apply NoDup_snoc; auto.
      + destruct (negb (isdigit l)) eqn:Ed.
        * rewrite map_app, map_app in *. simpl.
          eapply perm_trans; [|apply Permutation_app_tail; exact H2].
          rewrite <- !app_assoc. apply Permutation_app_head. simpl.
          apply Permutation_cons_append.
        * rewrite app_assoc, map_app. simpl.
          apply Permutation_app_tail. exact H2.
      + destruct (negb (isdigit l)) eqn:Ed; auto.
        apply Forall_app. split; auto. constructor; auto. simpl.
        apply negb_true_iff in Ed. auto.
      + destruct (negb (isdigit l)) eqn:Ed; auto.
        apply Forall_app. split; auto. constructor; auto. simpl.
        apply negb_false_iff in Ed. auto.
  Qed.

  (* ---------------------------------------------------------------- what the renderer keeps *)

  (* the definitions of a document in document order *)
  Definition inner_defs (i : inner) : list (str * N) :=
    match i with IDef l b _ => [(l, b)] | IRefs _ => [] end.
  Definition top_defs (t : top) : list (str * N) :=
    match t with TDef l b _ => [(l, b)] | TBox its => flat_map inner_defs its | TRefs _ => [] end.
  Definition all_defs (d : doc) : list (str * N) := flat_map top_defs d.

  (* the first definition of every label (given the labels already seen) ... *)
  Fixpoint firsts (seen : list str) (ds : list (str * N)) : list (str * N) :=
    match ds with
    | [] => []
    | (l, b) :: ds' =>
        if mem_str l seen then firsts seen ds' else (l, b) :: firsts (seen ++ [l]) ds'
    end.

  (* ... and the labels of the later ones, in order *)
  Fixpoint dupls (seen : list str) (ds : list (str * N)) : list str :=
    match ds with
    | [] => []
    | (l, b) :: ds' =>
        if mem_str l seen then l :: dupls seen ds' else dupls (seen ++ [l]) ds'
    end.

  Lemma firsts_app a : forall seen b,
    firsts seen (a ++ b) = firsts seen a ++ firsts (seen ++ map fst (firsts seen a)) b.
  Proof.
    induction a as [|[l b0] a IH]; intros seen b; simpl.
    - rewrite app_nil_r. reflexivity.
    - destruct (mem_str l seen); simpl.
      + apply IH.
      + rewrite IH. rewrite <- app_assoc. reflexivity.
  Qed.

  Lemma dupls_app a : forall seen b,
    dupls seen (a ++ b) = dupls seen a ++ dupls (seen ++ map fst (firsts seen a)) b.
  Proof.
    induction a as [|[l b0] a IH]; intros seen b; simpl.
    - rewrite app_nil_r. reflexivity.
    - destruct (mem_str l seen); simpl.
      + rewrite IH. reflexivity.
      + rewrite IH. rewrite <- app_assoc. reflexivity.
  Qed.

  Definition pairs (g : regs) : list (str * N) :=
    map (fun f => (f_label f, f_body f)) (g_autofootnotes g ++ g_footnotes g).

  Definition lin_foots (n : lin) : list str := match n with LIFoot l => [l] | _ => [] end.
  Definition ltop_foots (n : ltop) : list str :=
    match n with LFoot l => [l] | LBox its => flat_map lin_foots its | _ => [] end.
  Definition layout_foots (ly : list ltop) : list str := flat_map ltop_foots ly.

  Definition step_ok (g g' : regs) (ds : list (str * N)) (foots : list str) : Prop :=
    (wf g -> wf g') /\
    g_nameids g' = g_nameids g ++ map fst (firsts (g_nameids g) ds) /\
    Permutation (pairs g') (pairs g ++ firsts (g_nameids g) ds) /\
    g_warn g' = g_warn g ++ map WDup (dupls (g_nameids g) ds) /\
    foots = map fst (firsts (g_nameids g) ds).

  Lemma step_ok_trans g g1 g2 ds1 ds2 f1 f2 :
    step_ok g g1 ds1 f1 -> step_ok g1 g2 ds2 f2 -> step_ok g g2 (ds1 ++ ds2) (f1 ++ f2).
  Proof.
    intros [A1 [A2 [A3 [A4 A5]]]] [B1 [B2 [B3 [B4 B5]]]].
    unfold step_ok. rewrite firsts_app, dupls_app, <- A2.
    split; [auto|]. split; [|split; [|split]].
    - rewrite B2, A2, map_app, app_assoc. reflexivity.
    - eapply perm_trans; [exact B3|]. rewrite app_assoc.
      apply Permutation_app_tail. exact A3.
    - rewrite B4, A4, map_app, app_assoc. reflexivity.
    - rewrite map_app, A5, B5. reflexivity.
  Qed.

  Lemma render_ref_same g l :
    g_nameids (render_footnote_ref g l) = g_nameids g /\
    g_autofootnotes (render_footnote_ref g l) = g_autofootnotes g /\
    g_footnotes (render_footnote_ref g l) = g_footnotes g /\
    g_warn (render_footnote_ref g l) = g_warn g.
  Proof. unfold Foot.render_footnote_ref. rsimpl. auto. Qed.

  Lemma render_refs_same ls : forall g,
    g_nameids (render_refs g ls) = g_nameids g /\
    g_autofootnotes (render_refs g ls) = g_autofootnotes g /\
    g_footnotes (render_refs g ls) = g_footnotes g /\
    g_warn (render_refs g ls) = g_warn g.
  Proof.
    unfold Foot.render_refs. induction ls as [|l ls IH]; intro g; simpl; auto.
    destruct (IH (render_footnote_ref g l)) as [A [B [C D]]].
    destruct (render_ref_same g l) as [A' [B' [C' D']]].
    rewrite A, B, C, D. auto.
  Qed.

  Lemma step_ok_refs g ls : step_ok g (render_refs g ls) [] [].
  Proof.
    destruct (render_refs_same ls g) as [A [B [C D]]].
    unfold step_ok, pairs. rewrite A, B, C, D. simpl. rewrite !app_nil_r.
    split; [apply wf_refs|]. auto.
  Qed.

  Lemma step_ok_def g l b :
    step_ok g (fst (render_footnote_reference g l b)) [(l, b)]
            (if snd (render_footnote_reference g l b) then [l] else []).
  Proof.
    unfold step_ok. split; [apply wf_def|].
    unfold Foot.render_footnote_reference, pairs. simpl.
    destruct (mem_str l (g_nameids g)) eqn:E; rsimpl.
    - rewrite !app_nil_r. auto.
    - split; [reflexivity|]. split; [|simpl; rewrite app_nil_r; auto]. destruct (negb (isdigit l)).
      + rewrite <- app_assoc, !map_app. simpl. rewrite <- app_assoc.
        apply Permutation_app_head. apply Permutation_cons_append.
      + rewrite app_assoc, map_app. reflexivity.
  Qed.

  Lemma step_ok_inner g i :
    step_ok g (fst (render_inner g i)) (inner_defs i) (lin_foots (snd (render_inner g i))).
  Proof.
    destruct i as [ls|l b rs]; simpl.
    - apply step_ok_refs.
    - pose proof (step_ok_def g l b) as Hd.
      destruct (render_footnote_reference g l b) as [g1 kept] eqn:E. simpl in Hd.
      destruct kept; simpl.
      + replace [(l, b)] with ([(l, b)] ++ []) by reflexivity.
        replace [l] with ([l] ++ []) by reflexivity.
        eapply step_ok_trans; [exact Hd|apply step_ok_refs].
      + exact Hd.
  Qed.

  Lemma step_ok_inners its : forall g,
    step_ok g (fst (render_inners g its)) (flat_map inner_defs its)
            (flat_map lin_foots (snd (render_inners g its))).
  Proof.
    induction its as [|i its IH]; intro g; simpl.
    - unfold step_ok, pairs. simpl. rewrite !app_nil_r. auto.
    - pose proof (step_ok_inner g i) as Hi.
      destruct (render_inner g i) as [g1 n] eqn:E1. simpl in Hi.
      pose proof (IH g1) as Hr.
      destruct (render_inners g1 its) as [g2 ns] eqn:E2. simpl in *.
      eapply step_ok_trans; eauto.
  Qed.

  Lemma step_ok_top g t :
    step_ok g (fst (render_top g t)) (top_defs t) (ltop_foots (snd (render_top g t))).
  Proof.
    destruct t as [ls|l b rs|its]; simpl.
    - apply step_ok_refs.
    - pose proof (step_ok_def g l b) as Hd.
      destruct (render_footnote_reference g l b) as [g1 kept] eqn:E. simpl in Hd.
      destruct kept; simpl.
      + replace [(l, b)] with ([(l, b)] ++ []) by reflexivity.
        replace [l] with ([l] ++ []) by reflexivity.
        eapply step_ok_trans; [exact Hd|apply step_ok_refs].
      + exact Hd.
    - pose proof (step_ok_inners its g) as Hi.
      destruct (render_inners g its) as [g1 ns] eqn:E. simpl in *. exact Hi.
  Qed.

  Lemma step_ok_doc d : forall g,
    step_ok g (fst (render_doc g d)) (all_defs d) (layout_foots (snd (render_doc g d))).
  Proof.
    induction d as [|t d IH]; intro g; simpl.
    - unfold step_ok, pairs. simpl. rewrite !app_nil_r. auto.
    - pose proof (step_ok_top g t) as Ht.
      destruct (render_top g t) as [g1 n] eqn:E1. simpl in Ht.
      pose proof (IH g1) as Hr.
      destruct (render_doc g1 d) as [g2 ns] eqn:E2. simpl in *.
      unfold all_defs, layout_foots in *. simpl.
      eapply step_ok_trans; eauto.
  Qed.
End FootProofs.
