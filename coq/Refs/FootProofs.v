(* Proofs about the footnote pipeline model (Foot.v). *)
From Coq Require Import List NArith ZArith Bool Lia Permutation Sorted.
From MV Require Import Base.PyStr Base.Res Refs.RUtil Refs.RUtilProofs Gen.Transforms Refs.Foot.
Import ListNotations.
Open Scope N_scope.

(* ================================================================ generic list facts *)

Lemma mem_str_app s a b : mem_str s (a ++ b) = mem_str s a || mem_str s b.
Proof. induction a as [|x a IH]; simpl; auto. rewrite IH. apply orb_assoc. Qed.

Lemma mem_str_false_notin s l : mem_str s l = false <-> ~ In s l.
Proof.
  split; intro H.
  - intro Hin. apply mem_str_In in Hin. congruence.
  - destruct (mem_str s l) eqn:E; auto. apply mem_str_In in E. contradiction.
Qed.

Lemma str_eqb_sym a b : str_eqb a b = str_eqb b a.
Proof.
  destruct (str_eqb a b) eqn:E.
  - apply str_eqb_eq in E. subst. symmetry. apply str_eqb_refl.
  - symmetry. apply str_eqb_neq. apply str_eqb_neq in E. congruence.
Qed.

Lemma NoDup_snoc {A} (l : list A) x : NoDup l -> ~ In x l -> NoDup (l ++ [x]).
Proof.
  intros Hnd Hx. induction Hnd as [|y l Hy Hnd IH]; simpl.
  - constructor; auto. constructor.
  - constructor.
    + intro Hin. apply in_app_or in Hin as [Hin|[Hin|[]]]; auto.
      subst. apply Hx. left. reflexivity.
    + apply IH. intro. apply Hx. right. assumption.
Qed.

Lemma filter_len_le {A} (f : A -> bool) l : (length (filter f l) <= length l)%nat.
Proof. induction l as [|x l IH]; simpl; auto. destruct (f x); simpl; lia. Qed.

Lemma NoDup_app_intro {A} (a b : list A) :
  NoDup a -> NoDup b -> (forall x, In x a -> ~ In x b) -> NoDup (a ++ b).
Proof.
  intros Ha Hb Hd. induction Ha as [|x a Hx Ha IH]; simpl; auto.
  constructor.
  - intro Hin. apply in_app_or in Hin as [Hin|Hin]; [contradiction|].
    apply (Hd x); [left; reflexivity|exact Hin].
  - apply IH. intros y Hy. apply Hd. right. exact Hy.
Qed.

Lemma NoDup_app_r {A} (a b : list A) : NoDup (a ++ b) -> NoDup b.
Proof. induction a as [|x a IH]; simpl; auto. intro H. inversion H; auto. Qed.

Lemma flat_map_ext_in {A B} (f g : A -> list B) l :
  (forall x, In x l -> f x = g x) -> flat_map f l = flat_map g l.
Proof.
  induction l as [|x l IH]; simpl; auto. intro H. rewrite H by auto. rewrite IH; auto.
Qed.

Lemma filter_ext_in' {A} (f g : A -> bool) l :
  (forall x, In x l -> f x = g x) -> filter f l = filter g l.
Proof.
  induction l as [|x l IH]; simpl; auto. intro H. rewrite H by auto. rewrite IH; auto.
Qed.

Lemma nat_leb_total a b : Nat.leb a b = true \/ Nat.leb b a = true.
Proof. destruct (Nat.leb a b) eqn:E; auto. right. apply Nat.leb_le. apply Nat.leb_gt in E. lia. Qed.

Lemma nat_leb_trans a b c : Nat.leb a b = true -> Nat.leb b c = true -> Nat.leb a c = true.
Proof. rewrite !Nat.leb_le. lia. Qed.

Lemma filter_map_comm {A B} (g : A -> B) (p : B -> bool) l :
  filter p (map g l) = map g (filter (fun x => p (g x)) l).
Proof.
  induction l as [|x l IH]; simpl; auto. destruct (p (g x)); simpl; rewrite IH; reflexivity.
Qed.

(* x occurs before y in l *)
Definition before {A} (x y : A) (l : list A) : Prop :=
  exists l1 l2 l3, l = l1 ++ x :: l2 ++ y :: l3.

Lemma before_or {A} (x y : A) l : In x l -> In y l -> x <> y -> before x y l \/ before y x l.
Proof.
  intros Hx Hy Hne. apply in_split in Hx as [l1 [l2 ->]].
  apply in_app_or in Hy as [Hy|[Hy|Hy]].
  - right. apply in_split in Hy as [m1 [m2 ->]]. exists m1, m2, l2.
    rewrite <- app_assoc. reflexivity.
  - congruence.
  - left. apply in_split in Hy as [m1 [m2 ->]]. exists l1, m1, m2. reflexivity.
Qed.

Lemma sorted_before {A} (R : A -> A -> Prop) x y l :
  StronglySorted R l -> before x y l -> R x y.
Proof.
  intros Hs [l1 [l2 [l3 ->]]].
  induction l1 as [|a l1 IH]; simpl in Hs.
  - inversion Hs; subst. rewrite Forall_forall in H2. apply H2.
    apply in_or_app. right. left. reflexivity.
  - inversion Hs; subst. auto.
Qed.

Section blk_induction.
  Variable P : blk -> Prop.
  Hypothesis HR : forall ls, P (BRefs ls).
  Hypothesis HD : forall l b rs, P (BDef l b rs).
  Hypothesis HB : forall its, Forall P its -> P (BBox its).
  Fixpoint blk_ind' (b : blk) : P b :=
    match b with
    | BRefs ls => HR ls
    | BDef l body rs => HD l body rs
    | BBox its =>
        HB its ((fix go (its : list blk) : Forall P its :=
                   match its with
                   | [] => Forall_nil P
                   | i :: r => Forall_cons i (blk_ind' i) (go r)
                   end) its)
    end.
End blk_induction.

Section ltop_induction.
  Variable P : ltop -> Prop.
  Hypothesis H1 : P LOther.
  Hypothesis H2 : P LMsg.
  Hypothesis H3 : forall l, P (LFoot l).
  Hypothesis H4 : forall its, Forall P its -> P (LBox its).
  Hypothesis H5 : P LTrans.
  Fixpoint ltop_ind' (n : ltop) : P n :=
    match n with
    | LOther => H1 | LMsg => H2 | LFoot l => H3 l | LTrans => H5
    | LBox its =>
        H4 its ((fix go (its : list ltop) : Forall P its :=
                   match its with
                   | [] => Forall_nil P
                   | i :: r => Forall_cons i (ltop_ind' i) (go r)
                   end) its)
    end.
End ltop_induction.

Ltac rsimpl := cbn [g_nameids g_autofootnotes g_footnotes g_autofootnote_refs g_footnote_refs
                     g_allrefs g_nrefs g_warn fst snd].

Lemma before_map {A B} (g : A -> B) x y l : before x y l -> before (g x) (g y) (map g l).
Proof.
  intros [l1 [l2 [l3 ->]]]. exists (map g l1), (map g l2), (map g l3).
  rewrite map_app. simpl. rewrite map_app. reflexivity.
Qed.

(* ================================================================ the model *)
Section FootProofs.
  Variable isdigit : str -> bool.
  Variable int_of : str -> option N.
  Variable footnotes_xform : fstate -> res fstate.
  Hypothesis O_footnotes_xform : forall s, footnotes_xform s = docutils_footnotes s.

  Notation render_footnote_ref := (render_footnote_ref isdigit).
  Notation render_footnote_reference := (render_footnote_reference isdigit).
  Notation render_refs := (render_refs isdigit).
  Notation render_blk := (render_blk isdigit).
  Notation render_doc := (render_doc isdigit).

  (* ---------------------------------------------------------------- registries: invariant *)
  Record wf (g : regs) : Prop := {
    wf_nodup : NoDup (g_nameids g);
    wf_labels : Permutation (map f_label (g_autofootnotes g ++ g_footnotes g)) (g_nameids g);
    wf_auto : Forall (fun f => f_auto f = true /\ isdigit (f_label f) = false) (g_autofootnotes g);
    wf_manual : Forall (fun f => f_auto f = false /\ isdigit (f_label f) = true) (g_footnotes g);
    wf_idx : map r_idx (g_allrefs g) = seq 0 (g_nrefs g);
    wf_frefs : forall l, refs_of (g_footnote_refs g) l
                         = filter (fun r => str_eqb (r_label r) l) (g_allrefs g);
    wf_arefs : g_autofootnote_refs g = filter r_auto (g_allrefs g);
    wf_rauto : Forall (fun r => r_auto r = negb (isdigit (r_label r))) (g_allrefs g) }.

  Lemma wf_regs0 : wf regs0.
  Proof.
    constructor; simpl; auto; try constructor.
  Qed.

  Definition defined (g : regs) (l : str) : bool :=
    existsb (fun f => str_eqb l (f_label f)) (g_footnotes g ++ g_autofootnotes g).

  Lemma defined_nameids g l : wf g -> defined g l = mem_str l (g_nameids g).
  Proof.
    intros W. unfold defined.
    destruct (mem_str l (g_nameids g)) eqn:E.
    - apply mem_str_In in E. apply existsb_exists.
      apply (Permutation_in _ (Permutation_sym (wf_labels _ W))) in E.
      apply in_map_iff in E as [f [Hf Hin]]. exists f. split.
      + apply in_app_or in Hin. apply in_or_app. tauto.
      + subst l. apply str_eqb_refl.
    - destruct (existsb _ _) eqn:E2; auto. apply existsb_exists in E2 as [f [Hin Hf]].
      apply str_eqb_eq in Hf. subst l. apply mem_str_false_notin in E. exfalso. apply E.
      apply (Permutation_in _ (wf_labels _ W)). apply in_map.
      apply in_app_or in Hin. apply in_or_app. tauto.
  Qed.

  Lemma refs_of_dappend d k (r : rf) l :
    refs_of (dappend d k r) l = if str_eqb k l then refs_of d l ++ [r] else refs_of d l.
  Proof.
    unfold refs_of, dappend.
    destruct (str_eqb k l) eqn:E.
    - apply str_eqb_eq in E. subst l. rewrite dget_dset_same.
      destruct (dget d k); reflexivity.
    - rewrite dget_dset_other; auto. apply str_eqb_neq. exact E.
  Qed.

  Lemma wf_ref g l : wf g -> wf (render_footnote_ref g l).
  Proof.
    intros [H1 H2 H3 H4 H5 H6 H7 H8]. unfold Foot.render_footnote_ref. constructor; rsimpl; auto.
    - rewrite seq_S, map_app, H5. reflexivity.
    - intro l'. rewrite refs_of_dappend, filter_app, H6. simpl.
      rewrite (str_eqb_sym l l').
      destruct (str_eqb l' l) eqn:E; simpl.
      + reflexivity.
      + rewrite app_nil_r. reflexivity.
    - rewrite filter_app, H7. simpl.
      destruct (negb (isdigit l)); simpl; auto. rewrite app_nil_r. reflexivity.
    - apply Forall_app. split; auto.
  Qed.

  Lemma wf_refs ls : forall g, wf g -> wf (render_refs g ls).
  Proof.
    unfold Foot.render_refs. induction ls as [|l ls IH]; intros g Hg; simpl; auto.
    apply IH. apply wf_ref. exact Hg.
  Qed.

  Lemma wf_def g l b : wf g -> wf (fst (render_footnote_reference g l b)).
  Proof.
    intros W. pose proof (defined_nameids g l W) as Hdef. unfold defined in Hdef.
    destruct W as [H1 H2 H3 H4 H5 H6 H7 H8]. unfold Foot.render_footnote_reference. rewrite Hdef.
    destruct (mem_str l (g_nameids g)) eqn:E; simpl.
    - constructor; simpl; auto.
    - apply mem_str_false_notin in E.
      constructor; simpl; auto.
      + apply NoDup_snoc; auto.
      + destruct (negb (isdigit l)) eqn:Ed.
        * rewrite map_app, map_app in *. simpl.
          eapply perm_trans; [|apply Permutation_app_tail; exact H2].
          rewrite <- !app_assoc. apply Permutation_app_head. simpl.
          apply Permutation_cons_append.
        * rewrite app_assoc, map_app. simpl.
          apply Permutation_app_tail. exact H2.
      + destruct (negb (isdigit l)) eqn:Ed; auto.
        apply Forall_app. split; auto. constructor; auto. simpl.
        apply negb_true_iff in Ed. auto.
      + destruct (negb (isdigit l)) eqn:Ed; auto.
        apply Forall_app. split; auto. constructor; auto. simpl.
        apply negb_false_iff in Ed. auto.
  Qed.

  (* ---------------------------------------------------------------- what the renderer keeps *)

  (* the definitions of a document in document order *)
  Fixpoint blk_defs (b : blk) : list (str * N) :=
    match b with BDef l body _ => [(l, body)] | BBox its => flat_map blk_defs its | BRefs _ => [] end.
  Definition all_defs (d : doc) : list (str * N) := flat_map blk_defs d.

  (* the first definition of every label (given the labels already seen) ... *)
  Fixpoint firsts (seen : list str) (ds : list (str * N)) : list (str * N) :=
    match ds with
    | [] => []
    | (l, b) :: ds' =>
        if mem_str l seen then firsts seen ds' else (l, b) :: firsts (seen ++ [l]) ds'
    end.

  (* ... and the labels of the later ones, in order *)
  Fixpoint dupls (seen : list str) (ds : list (str * N)) : list str :=
    match ds with
    | [] => []
    | (l, b) :: ds' =>
        if mem_str l seen then l :: dupls seen ds' else dupls (seen ++ [l]) ds'
    end.

  Lemma firsts_app a : forall seen b,
    firsts seen (a ++ b) = firsts seen a ++ firsts (seen ++ map fst (firsts seen a)) b.
  Proof.
    induction a as [|[l b0] a IH]; intros seen b; simpl.
    - rewrite app_nil_r. reflexivity.
    - destruct (mem_str l seen); simpl.
      + apply IH.
      + rewrite IH. rewrite <- app_assoc. reflexivity.
  Qed.

  Lemma dupls_app a : forall seen b,
    dupls seen (a ++ b) = dupls seen a ++ dupls (seen ++ map fst (firsts seen a)) b.
  Proof.
    induction a as [|[l b0] a IH]; intros seen b; simpl.
    - rewrite app_nil_r. reflexivity.
    - destruct (mem_str l seen); simpl.
      + rewrite IH. reflexivity.
      + rewrite IH. rewrite <- app_assoc. reflexivity.
  Qed.

  Definition pairs (g : regs) : list (str * N) :=
    map (fun f => (f_label f, f_body f)) (g_autofootnotes g ++ g_footnotes g).

  Fixpoint ltop_foots (n : ltop) : list str :=
    match n with LFoot l => [l] | LBox its => flat_map ltop_foots its | _ => [] end.
  Definition layout_foots (ly : list ltop) : list str := flat_map ltop_foots ly.

  Definition step_res (g g' : regs) (ds : list (str * N)) (foots : list str) : Prop :=
    wf g' /\
    g_nameids g' = g_nameids g ++ map fst (firsts (g_nameids g) ds) /\
    Permutation (pairs g') (pairs g ++ firsts (g_nameids g) ds) /\
    g_warn g' = g_warn g ++ map WDup (dupls (g_nameids g) ds) /\
    foots = map fst (firsts (g_nameids g) ds).

  Definition step_ok (g g' : regs) (ds : list (str * N)) (foots : list str) : Prop :=
    wf g -> step_res g g' ds foots.

  Lemma step_ok_trans g g1 g2 ds1 ds2 f1 f2 :
    step_ok g g1 ds1 f1 -> step_ok g1 g2 ds2 f2 -> step_ok g g2 (ds1 ++ ds2) (f1 ++ f2).
  Proof.
    intros HA HB W. destruct (HA W) as [A1 [A2 [A3 [A4 A5]]]]. destruct (HB A1) as [B1 [B2 [B3 [B4 B5]]]].
    unfold step_res. rewrite firsts_app, dupls_app, <- A2.
    split; [auto|]. split; [|split; [|split]].
    - rewrite B2, A2, map_app, app_assoc. reflexivity.
    - eapply perm_trans; [exact B3|]. rewrite app_assoc.
      apply Permutation_app_tail. exact A3.
    - rewrite B4, A4, map_app, app_assoc. reflexivity.
    - rewrite map_app, A5, B5. reflexivity.
  Qed.

  Lemma render_ref_same g l :
    g_nameids (render_footnote_ref g l) = g_nameids g /\
    g_autofootnotes (render_footnote_ref g l) = g_autofootnotes g /\
    g_footnotes (render_footnote_ref g l) = g_footnotes g /\
    g_warn (render_footnote_ref g l) = g_warn g.
  Proof. unfold Foot.render_footnote_ref. rsimpl. auto. Qed.

  Lemma render_refs_same ls : forall g,
    g_nameids (render_refs g ls) = g_nameids g /\
    g_autofootnotes (render_refs g ls) = g_autofootnotes g /\
    g_footnotes (render_refs g ls) = g_footnotes g /\
    g_warn (render_refs g ls) = g_warn g.
  Proof.
    unfold Foot.render_refs. induction ls as [|l ls IH]; intro g; simpl; auto.
    destruct (IH (render_footnote_ref g l)) as [A [B [C D]]].
    destruct (render_ref_same g l) as [A' [B' [C' D']]].
    rewrite A, B, C, D. auto.
  Qed.

  Lemma step_ok_refs g ls : step_ok g (render_refs g ls) [] [].
  Proof.
    destruct (render_refs_same ls g) as [A [B [C D]]].
    intro W. unfold step_res, pairs. rewrite A, B, C, D. simpl. rewrite !app_nil_r.
    split; [apply wf_refs; exact W|]. auto.
  Qed.

  Lemma step_ok_def g l b :
    step_ok g (fst (render_footnote_reference g l b)) [(l, b)]
            (if snd (render_footnote_reference g l b) then [l] else []).
  Proof.
    intro W. unfold step_res. split; [apply wf_def; exact W|].
    pose proof (defined_nameids g l W) as Hdef. unfold defined in Hdef.
    unfold Foot.render_footnote_reference, pairs. rewrite Hdef. simpl.
    destruct (mem_str l (g_nameids g)) eqn:E; rsimpl.
    - rewrite !app_nil_r. auto.
    - split; [reflexivity|]. split; [|simpl; rewrite app_nil_r; auto]. destruct (negb (isdigit l)).
      + rewrite <- app_assoc, !map_app. simpl. rewrite <- app_assoc.
        apply Permutation_app_head. apply Permutation_cons_append.
      + rewrite app_assoc, map_app. reflexivity.
  Qed.

  (* the container case of render_blk is render_doc on its items *)
  Lemma render_box its : forall g,
    render_blk g (BBox its) = (let '(g1, ns) := render_doc g its in (g1, LBox ns)).
  Proof.
    induction its as [|i its IH]; intro g; [reflexivity|].
    specialize (IH (fst (render_blk g i))).
    cbn [Foot.render_blk Foot.render_doc] in *.
    destruct (render_blk g i) as [g1 n]. cbn [fst] in IH.
    match type of IH with (let '(_, _) := ?go in _) = _ => destruct go as [g2 ns] end.
    destruct (render_doc g1 its) as [g2' ns']. inversion IH; subst. reflexivity.
  Qed.

  Lemma step_ok_doc_of (P : blk -> Prop) d :
    (forall b, In b d -> forall g, step_ok g (fst (render_blk g b)) (blk_defs b) (ltop_foots (snd (render_blk g b)))) ->
    forall g, step_ok g (fst (render_doc g d)) (all_defs d) (layout_foots (snd (render_doc g d))).
  Proof.
    induction d as [|t d IH]; intros Hb g; simpl.
    - intro W. unfold step_res, pairs. simpl. rewrite !app_nil_r. auto.
    - pose proof (Hb t (or_introl eq_refl) g) as Ht.
      destruct (render_blk g t) as [g1 n] eqn:E1. simpl in Ht.
      pose proof (IH (fun b Hin => Hb b (or_intror Hin)) g1) as Hr.
      destruct (render_doc g1 d) as [g2 ns] eqn:E2. simpl in *.
      unfold all_defs, layout_foots in *. simpl.
      eapply step_ok_trans; eauto.
  Qed.

  Lemma step_ok_blk b : forall g,
    step_ok g (fst (render_blk g b)) (blk_defs b) (ltop_foots (snd (render_blk g b))).
  Proof.
    induction b as [ls|l body rs|its IH] using blk_ind'; intro g.
    - simpl. apply step_ok_refs.
    - simpl. pose proof (step_ok_def g l body) as Hd.
      destruct (render_footnote_reference g l body) as [g1 kept] eqn:E. simpl in Hd.
      destruct kept; simpl.
      + replace [(l, body)] with ([(l, body)] ++ []) by reflexivity.
        replace [l] with ([l] ++ []) by reflexivity.
        eapply step_ok_trans; [exact Hd|apply step_ok_refs].
      + exact Hd.
    - rewrite render_box.
      assert (Hd : forall g, step_ok g (fst (render_doc g its)) (all_defs its) (layout_foots (snd (render_doc g its)))).
      { apply (step_ok_doc_of (fun _ => True)). rewrite Forall_forall in IH. exact IH. }
      specialize (Hd g). destruct (render_doc g its) as [g1 ns]. simpl in *. exact Hd.
  Qed.

  Lemma step_ok_doc d : forall g,
    step_ok g (fst (render_doc g d)) (all_defs d) (layout_foots (snd (render_doc g d))).
  Proof. apply (step_ok_doc_of (fun _ => True)). intros b _. apply step_ok_blk. Qed.

  (* ---------------------------------------------------------------- SortFootnotes *)
  Lemma wf_sort fs g : wf g -> wf (sort_footnotes false fs g).
  Proof.
    intros [H1 H2 H3 H4 H5 H6 H7 H8]. unfold sort_footnotes.
    destruct (negb fs); [constructor; auto|].
    constructor; rsimpl; auto.
    - eapply perm_trans; [|exact H2]. rewrite !map_app.
      apply Permutation_app_tail. apply Permutation_map. apply Permutation_sym, isort_perm.
    - eapply Permutation_Forall; [apply isort_perm|exact H3].
  Qed.

  Lemma sort_same fs g :
    g_nameids (sort_footnotes false fs g) = g_nameids g /\
    g_footnotes (sort_footnotes false fs g) = g_footnotes g /\
    g_autofootnote_refs (sort_footnotes false fs g) = g_autofootnote_refs g /\
    g_footnote_refs (sort_footnotes false fs g) = g_footnote_refs g /\
    g_allrefs (sort_footnotes false fs g) = g_allrefs g /\
    g_warn (sort_footnotes false fs g) = g_warn g /\
    Permutation (g_autofootnotes g) (g_autofootnotes (sort_footnotes false fs g)).
  Proof.
    unfold sort_footnotes. destruct (negb fs); rsimpl; repeat split; auto.
    apply isort_perm.
  Qed.

  (* ---------------------------------------------------------------- docutils: numbering *)
  Lemma next_label_ok ids : forall fuel n label num nxt,
    next_label ids fuel n = Ok (label, num, nxt) ->
    label = show num /\ n <= num /\ nxt = num + 1 /\ mem_str label ids = false.
  Proof.
    induction fuel as [|f IH]; intros n label num nxt H; simpl in H; [discriminate|].
    destruct (mem_str (show n) ids) eqn:E.
    - apply IH in H as [A [B [C D]]]. repeat split; auto. lia.
    - inversion H; subst. repeat split; auto. lia.
  Qed.

  Lemma next_label_ext ids ids' : forall fuel n,
    (forall k, n <= k -> mem_str (show k) ids = mem_str (show k) ids') ->
    next_label ids fuel n = next_label ids' fuel n.
  Proof.
    induction fuel as [|f IH]; intros n H; simpl; auto.
    rewrite <- (H n) by lia.
    destruct (mem_str (show n) ids); auto.
    apply IH. intros k Hk. apply H. lia.
  Qed.

  Definition remove_str (x : str) (l : list str) : list str :=
    filter (fun s => negb (str_eqb s x)) l.

  Lemma mem_remove_other x y l : y <> x -> mem_str y (remove_str x l) = mem_str y l.
  Proof.
    intro Hne. induction l as [|z l IH]; simpl; auto.
    destruct (str_eqb z x) eqn:E; simpl.
    - apply str_eqb_eq in E. subst z.
      assert (Hf : str_eqb y x = false) by (apply str_eqb_neq; exact Hne).
      rewrite Hf. simpl. exact IH.
    - rewrite IH. reflexivity.
  Qed.

  Lemma remove_length x l : mem_str x l = true -> (length (remove_str x l) < length l)%nat.
  Proof.
    induction l as [|z l IH]; simpl; [discriminate|].
    destruct (str_eqb x z) eqn:E; simpl.
    - intros _. apply str_eqb_eq in E. subst z. rewrite str_eqb_refl. simpl.
      pose proof (filter_len_le (fun s => negb (str_eqb s x)) l). unfold remove_str. lia.
    - intro H. rewrite str_eqb_sym in E. rewrite E. simpl. apply IH in H. lia.
  Qed.

  Lemma next_label_total : forall fuel ids n,
    (length ids < fuel)%nat -> exists r, next_label ids fuel n = Ok r.
  Proof.
    induction fuel as [|f IH]; intros ids n Hlen; [lia|]. simpl.
    destruct (mem_str (show n) ids) eqn:E; [|eauto].
    rewrite (next_label_ext ids (remove_str (show n) ids)).
    - apply IH. apply remove_length in E. lia.
    - intros k Hk. symmetry. apply mem_remove_other.
      intro Heq. apply show_inj in Heq. lia.
  Qed.

  Definition numv (o : fout) : N := match fo_num o with Some k => k | None => 0 end.

  Lemma number_footnotes_spec g : forall fns start outs,
    number_footnotes g fns start = Ok outs ->
    map fo_fn outs = fns /\
    Forall (fun o => fo_num o = Some (numv o) /\ fo_display o = show (numv o) /\ start <= numv o /\
                     mem_str (fo_display o) (g_nameids g) = false /\
                     fo_backrefs o = map r_idx (refs_of (g_footnote_refs g) (f_label (fo_fn o)))) outs /\
    StronglySorted (fun a b => numv a < numv b) outs.
  Proof.
    induction fns as [|f fns IH]; intros start outs H; cbn [number_footnotes] in H.
    - inversion H; subst. repeat split; constructor.
    - destruct (next_label (g_nameids g) (S (length (g_nameids g))) start) as [[[label num] nxt]|e] eqn:En;
        cbn [bind] in H; [|discriminate].
      destruct (number_footnotes g fns nxt) as [rest|e] eqn:Er; cbn [bind] in H; [|discriminate].
      inversion H; subst outs. clear H.
      apply next_label_ok in En as [A [B [C D]]]. subst label nxt.
      destruct (IH _ _ Er) as [I1 [I2 I3]].
      split; [simpl; rewrite I1; reflexivity|]. split.
      + constructor.
        * unfold numv. simpl. repeat split; auto.
        * eapply Forall_impl; [|exact I2]. intros o [P1 [P2 [P3 [P4 P5]]]].
          repeat split; auto. lia.
      + constructor; auto.
        eapply Forall_impl; [|exact I2]. intros o [P1 [P2 [P3 _]]].
        unfold numv at 1. simpl. lia.
  Qed.

  Lemma number_footnotes_total g : forall fns start, exists outs, number_footnotes g fns start = Ok outs.
  Proof.
    induction fns as [|f fns IH]; intro start; cbn [number_footnotes]; [eauto|].
    destruct (next_label_total (S (length (g_nameids g))) (g_nameids g) start) as [[[label num] nxt] En]; [lia|].
    rewrite En. cbn [bind]. destruct (IH nxt) as [rest Er]. rewrite Er. cbn [bind]. eauto.
  Qed.

  (* ---------------------------------------------------------------- the pipeline *)
  Lemma pipeline_order :
    pipeline = [XSortFootnotes; XFootnotes; XUnreferencedFootnotesDetector; XCollectFootnotes; XResolveAnchorIds].
  Proof. vm_compute. reflexivity. Qed.

  Notation run := (run isdigit int_of footnotes_xform).

  (* the stages of a run, spelled out *)
  Definition stage_state (g0 g1 : regs) (ly : list ltop) (autos : list fout) : fstate :=
    {| s_regs := g1; s_manual := resolve_footnotes g1; s_auto := autos; s_layout := ly;
       s_warn := g_warn g0 ++ too_many g1 |}.

  Lemma run_spec fs ft d r :
    run fs ft d = Ok r ->
    exists g0 ly autos,
      render_doc regs0 d = (g0, ly) /\
      let g1 := sort_footnotes false fs g0 in
      number_footnotes g1 (g_autofootnotes g1) 1 = Ok autos /\
      let s4 := collect_footnotes int_of fs ft (unreferenced (stage_state g0 g1 ly autos)) in
      r = {| x_refs := map (ref_out (resolve_footnotes g1 ++ autos)) (g_allrefs g1);
             x_foots := resolve_footnotes g1 ++ autos;
             x_layout := s_layout s4; x_warn := s_warn s4 |}.
  Proof.
    unfold Foot.run, run_with. rewrite pipeline_order.
    destruct (render_doc regs0 d) as [g0 ly] eqn:Er.
    cbn [apply_all apply_xform bind s_regs s_manual s_auto s_layout s_warn].
    rewrite O_footnotes_xform.
    unfold docutils_footnotes. cbn [s_regs s_manual s_auto s_layout s_warn].
    destruct (number_footnotes (sort_footnotes false fs g0) (g_autofootnotes (sort_footnotes false fs g0)) 1)
      as [autos|e] eqn:En; cbn [bind]; [|discriminate].
    intro H. exists g0, ly, autos. split; [reflexivity|]. split; [exact En|].
    inversion H. subst r. clear H.
    assert (Hs : forall s, s_manual (collect_footnotes int_of fs ft s) = s_manual s /\
                           s_auto (collect_footnotes int_of fs ft s) = s_auto s /\
                           s_regs (collect_footnotes int_of fs ft s) = s_regs s /\
                           s_warn (collect_footnotes int_of fs ft s) = s_warn s).
    { intro s. unfold collect_footnotes. destruct (negb fs); simpl; auto. }
    change {| s_regs := sort_footnotes false fs g0; s_manual := resolve_footnotes (sort_footnotes false fs g0);
              s_auto := autos; s_layout := ly; s_warn := g_warn g0 ++ too_many (sort_footnotes false fs g0) |}
      with (stage_state g0 (sort_footnotes false fs g0) ly autos).
    destruct (Hs (unreferenced (stage_state g0 (sort_footnotes false fs g0) ly autos))) as [A [B [C D]]].
    rewrite A, B, C. reflexivity.
  Qed.

  Lemma run_total fs ft d : exists r, run fs ft d = Ok r.
  Proof.
    unfold Foot.run, run_with. rewrite pipeline_order.
    destruct (render_doc regs0 d) as [g0 ly] eqn:Er.
    cbn [apply_all apply_xform bind s_regs s_manual s_auto s_layout s_warn].
    rewrite O_footnotes_xform.
    unfold docutils_footnotes. cbn [s_regs].
    destruct (number_footnotes_total (sort_footnotes false fs g0) (g_autofootnotes (sort_footnotes false fs g0)) 1) as [autos En].
    rewrite En. cbn [bind]. eauto.
  Qed.

  (* ---------------------------------------------------------------- looking a footnote up by label *)
  Definition lbl (f : fout) : str := f_label (fo_fn f).

  Lemma find_fout_Some l fs f : find_fout l fs = Some f -> In f fs /\ lbl f = l.
  Proof.
    induction fs as [|x fs IH]; simpl; [discriminate|].
    destruct (str_eqb l (f_label (fo_fn x))) eqn:E.
    - intro H. inversion H; subst. apply str_eqb_eq in E. split; auto.
    - intro H. apply IH in H as [A B]. auto.
  Qed.

  Lemma find_fout_None l fs : (forall f, In f fs -> lbl f <> l) -> find_fout l fs = None.
  Proof.
    induction fs as [|x fs IH]; simpl; auto. intro H.
    destruct (str_eqb l (f_label (fo_fn x))) eqn:E.
    - apply str_eqb_eq in E. exfalso. apply (H x); auto.
    - apply IH. intros f Hf. apply H. auto.
  Qed.

  Lemma find_fout_In fs : NoDup (map lbl fs) -> forall f, In f fs -> find_fout (lbl f) fs = Some f.
  Proof.
    induction fs as [|x fs IH]; simpl; intros Hnd f Hf; [contradiction|].
    inversion Hnd as [|? ? Hx Hnd']; subst.
    destruct Hf as [->|Hf].
    - unfold lbl. rewrite str_eqb_refl. reflexivity.
    - destruct (str_eqb (lbl f) (f_label (fo_fn x))) eqn:E.
      + apply str_eqb_eq in E. exfalso. apply Hx. fold (lbl x) in E. rewrite <- E.
        apply in_map. exact Hf.
      + apply IH; auto.
  Qed.

  (* ---------------------------------------------------------------- facts about one run *)
  Record facts (fs : bool) (d : doc) (r : result) (g0 g1 : regs) (ly : list ltop) (autos : list fout) : Prop := {
    fa_render : render_doc regs0 d = (g0, ly);
    fa_g1 : g1 = sort_footnotes false fs g0;
    fa_wf0 : wf g0;
    fa_wf1 : wf g1;
    fa_step : step_res regs0 g0 (all_defs d) (layout_foots ly);
    fa_num : number_footnotes g1 (g_autofootnotes g1) 1 = Ok autos;
    fa_foots : x_foots r = resolve_footnotes g1 ++ autos;
    fa_refs : x_refs r = map (ref_out (resolve_footnotes g1 ++ autos)) (g_allrefs g1) }.

  Lemma run_facts fs ft d r :
    run fs ft d = Ok r ->
    exists g0 g1 ly autos, facts fs d r g0 g1 ly autos /\
      let s4 := collect_footnotes int_of fs ft (unreferenced (stage_state g0 g1 ly autos)) in
      x_layout r = s_layout s4 /\ x_warn r = s_warn s4.
  Proof.
    intro H. apply run_spec in H. cbv zeta in H. destruct H as [g0 [ly [autos [Hr [Hn Hres]]]]].
    exists g0, (sort_footnotes false fs g0), ly, autos. cbv zeta.
    pose proof (step_ok_doc d regs0) as Hs. rewrite Hr in Hs. simpl in Hs.
    specialize (Hs wf_regs0).
    assert (Hw0 : wf g0) by (destruct Hs as [Hs _]; exact Hs).
    subst r. split; [|split; reflexivity].
    constructor; auto. apply wf_sort. exact Hw0.
  Qed.

  Lemma foots_fns fs d r g0 g1 ly autos :
    facts fs d r g0 g1 ly autos ->
    map fo_fn (x_foots r) = g_footnotes g1 ++ g_autofootnotes g1.
  Proof.
    intros F. rewrite (fa_foots _ _ _ _ _ _ _ F), map_app.
    destruct (number_footnotes_spec _ _ _ _ (fa_num _ _ _ _ _ _ _ F)) as [A _]. rewrite A.
    unfold resolve_footnotes. rewrite map_map. simpl. rewrite map_id. reflexivity.
  Qed.

  Lemma foots_labels_perm fs d r g0 g1 ly autos :
    facts fs d r g0 g1 ly autos -> Permutation (map lbl (x_foots r)) (g_nameids g1).
  Proof.
    intro F. pose proof (foots_fns _ _ _ _ _ _ _ F) as Hf.
    unfold lbl. rewrite <- map_map, Hf.
    eapply perm_trans; [|apply (wf_labels _ (fa_wf1 _ _ _ _ _ _ _ F))].
    rewrite !map_app. apply Permutation_app_comm.
  Qed.

  Lemma foots_labels_nodup fs d r g0 g1 ly autos :
    facts fs d r g0 g1 ly autos -> NoDup (map lbl (x_foots r)).
  Proof.
    intro F. eapply Permutation_NoDup.
    - apply Permutation_sym. eapply foots_labels_perm; eauto.
    - apply (wf_nodup _ (fa_wf1 _ _ _ _ _ _ _ F)).
  Qed.

  Lemma foots_backrefs fs d r g0 g1 ly autos :
    facts fs d r g0 g1 ly autos ->
    forall f, In f (x_foots r) ->
      fo_backrefs f = map r_idx (filter (fun x => str_eqb (r_label x) (lbl f)) (g_allrefs g1)).
  Proof.
    intros F f Hf. rewrite <- (wf_frefs _ (fa_wf1 _ _ _ _ _ _ _ F)).
    rewrite (fa_foots _ _ _ _ _ _ _ F) in Hf. apply in_app_or in Hf as [Hf|Hf].
    - unfold resolve_footnotes in Hf. apply in_map_iff in Hf as [x [<- _]]. reflexivity.
    - destruct (number_footnotes_spec _ _ _ _ (fa_num _ _ _ _ _ _ _ F)) as [_ [A _]].
      rewrite Forall_forall in A. destruct (A f Hf) as [_ [_ [_ [_ B]]]]. exact B.
  Qed.

  (* ---------------------------------------------------------------- T1: references <-> definitions *)
  Lemma refs_basic fs d r g0 g1 ly autos :
    facts fs d r g0 g1 ly autos ->
    map ro_idx (x_refs r) = map r_idx (g_allrefs g1) /\
    map ro_label (x_refs r) = map r_label (g_allrefs g1).
  Proof.
    intro F. rewrite (fa_refs _ _ _ _ _ _ _ F), !map_map. split; apply map_ext; intro x;
      unfold ref_out; destruct (find_fout (r_label x) (resolve_footnotes g1 ++ autos)); reflexivity.
  Qed.

  Lemma refs_point_to_defs fs ft d r :
    run fs ft d = Ok r ->
    (* the references are all there, in document order *)
    map ro_idx (x_refs r) = seq 0 (length (x_refs r)) /\
    (* a definition lists exactly its references *)
    (forall f, In f (x_foots r) ->
       fo_backrefs f = map ro_idx (filter (fun o => str_eqb (ro_label o) (lbl f)) (x_refs r))) /\
    (* a reference whose label is defined points at that definition and shows its number *)
    (forall o f, In o (x_refs r) -> In f (x_foots r) -> lbl f = ro_label o ->
       ro_refid o = Some (lbl f) /\ ro_text o = Some (fo_display f) /\ In (ro_idx o) (fo_backrefs f)) /\
    (* a reference without definition points nowhere *)
    (forall o, In o (x_refs r) -> (forall f, In f (x_foots r) -> lbl f <> ro_label o) -> ro_refid o = None).
  Proof.
    intro H. apply run_facts in H as [g0 [g1 [ly [autos [F _]]]]].
    destruct (refs_basic _ _ _ _ _ _ _ F) as [Hidx Hlab].
    pose proof (wf_idx _ (fa_wf1 _ _ _ _ _ _ _ F)) as Hseq.
    assert (Hback : forall f, In f (x_foots r) ->
       fo_backrefs f = map ro_idx (filter (fun o => str_eqb (ro_label o) (lbl f)) (x_refs r))).
    { intros f Hf. rewrite (foots_backrefs _ _ _ _ _ _ _ F f Hf).
      rewrite (fa_refs _ _ _ _ _ _ _ F), filter_map_comm, map_map.
      assert (E1 : forall x, ro_label (ref_out (resolve_footnotes g1 ++ autos) x) = r_label x).
      { intro x. unfold ref_out. destruct (find_fout _ _); reflexivity. }
      assert (E2 : forall x, ro_idx (ref_out (resolve_footnotes g1 ++ autos) x) = r_idx x).
      { intro x. unfold ref_out. destruct (find_fout _ _); reflexivity. }
      rewrite (filter_ext (fun x => str_eqb (ro_label (ref_out (resolve_footnotes g1 ++ autos) x)) (lbl f))
                          (fun x => str_eqb (r_label x) (lbl f)))
        by (intro x; rewrite E1; reflexivity).
      apply map_ext. intro x. rewrite E2. reflexivity. }
    split; [|split; [exact Hback|split]].
    - rewrite Hidx, Hseq. f_equal.
      rewrite (fa_refs _ _ _ _ _ _ _ F), map_length.
      rewrite <- (map_length r_idx (g_allrefs g1)), Hseq, seq_length. reflexivity.
    - intros o f Ho Hf Hl.
      rewrite (fa_refs _ _ _ _ _ _ _ F) in Ho. apply in_map_iff in Ho as [x [<- Hx]].
      assert (Hfind : find_fout (r_label x) (resolve_footnotes g1 ++ autos) = Some f).
      { rewrite <- (fa_foots _ _ _ _ _ _ _ F).
        replace (r_label x) with (lbl f).
        - apply find_fout_In; auto. eapply foots_labels_nodup; eauto.
        - rewrite Hl. unfold ref_out. destruct (find_fout _ _); reflexivity. }
      unfold ref_out at 1 2 3. rewrite Hfind. simpl. repeat split; auto.
      rewrite (foots_backrefs _ _ _ _ _ _ _ F f Hf).
      apply in_map. apply filter_In. split; auto.
      unfold ref_out in Hl. rewrite Hfind in Hl. simpl in Hl. rewrite Hl. apply str_eqb_refl.
    - intros o Ho Hno.
      rewrite (fa_refs _ _ _ _ _ _ _ F) in Ho. apply in_map_iff in Ho as [x [<- Hx]].
      assert (Hl : ro_label (ref_out (resolve_footnotes g1 ++ autos) x) = r_label x).
      { unfold ref_out. destruct (find_fout _ _); reflexivity. }
      assert (Hfind : find_fout (r_label x) (resolve_footnotes g1 ++ autos) = None).
      { apply find_fout_None. intros f Hf. rewrite <- (fa_foots _ _ _ _ _ _ _ F) in Hf.
        rewrite <- Hl. apply Hno. exact Hf. }
      unfold ref_out. rewrite Hfind. reflexivity.
  Qed.

  (* ---------------------------------------------------------------- T2: labels pairwise distinct *)
  Lemma sorted_lt_nodup (l : list fout) :
    StronglySorted (fun a b => numv a < numv b) l -> NoDup (map numv l).
  Proof.
    induction 1 as [|x l Hs IH Hx]; simpl; constructor; auto.
    intro Hin. apply in_map_iff in Hin as [y [Hy Hin]].
    rewrite Forall_forall in Hx. specialize (Hx y Hin). lia.
  Qed.

  Lemma labels_distinct fs ft d r : run fs ft d = Ok r -> NoDup (map fo_display (x_foots r)).
  Proof.
    intro H. apply run_facts in H as [g0 [g1 [ly [autos [F _]]]]].
    rewrite (fa_foots _ _ _ _ _ _ _ F), map_app.
    destruct (number_footnotes_spec _ _ _ _ (fa_num _ _ _ _ _ _ _ F)) as [A [B C]].
    pose proof (fa_wf1 _ _ _ _ _ _ _ F) as W.
    assert (Hnd : NoDup (map f_label (g_autofootnotes g1 ++ g_footnotes g1))).
    { eapply Permutation_NoDup; [apply Permutation_sym, (wf_labels _ W)|apply (wf_nodup _ W)]. }
    rewrite map_app in Hnd.
    apply NoDup_app_intro.
    - unfold resolve_footnotes. rewrite map_map. simpl. apply NoDup_app_r in Hnd. exact Hnd.
    - assert (E : map fo_display autos = map show (map numv autos)).
      { rewrite map_map. apply map_ext_in. intros o Ho. rewrite Forall_forall in B.
        destruct (B o Ho) as [_ [P _]]. exact P. }
      rewrite E. apply FinFun.Injective_map_NoDup.
      + intros a b Hab. apply show_inj. exact Hab.
      + apply sorted_lt_nodup. exact C.
    - intros x Hx Hx2.
      unfold resolve_footnotes in Hx. rewrite map_map in Hx. simpl in Hx.
      apply in_map_iff in Hx2 as [o [Ho Hin]]. rewrite Forall_forall in B.
      destruct (B o Hin) as [_ [_ [_ [Hm _]]]]. rewrite Ho in Hm.
      apply mem_str_false_notin in Hm. apply Hm.
      eapply Permutation_in; [apply (wf_labels _ W)|]. rewrite map_app.
      apply in_or_app. right. exact Hx.
  Qed.

  (* ---------------------------------------------------------------- T3: order of the automatic numbers *)
  Definition auto_ref_labels (r : result) : list str :=
    filter (fun l => negb (isdigit l)) (map ro_label (x_refs r)).

  Lemma auto_ref_labels_eq fs d r g0 g1 ly autos :
    facts fs d r g0 g1 ly autos ->
    auto_ref_labels r = map r_label (g_autofootnote_refs g0).
  Proof.
    intro F. unfold auto_ref_labels.
    destruct (refs_basic _ _ _ _ _ _ _ F) as [_ Hl]. rewrite Hl.
    destruct (sort_same fs g0) as [_ [_ [_ [_ [Ha _]]]]].
    rewrite (fa_g1 _ _ _ _ _ _ _ F), Ha.
    rewrite (wf_arefs _ (fa_wf0 _ _ _ _ _ _ _ F)), filter_map_comm. f_equal.
    apply filter_ext_in'. intros x Hx.
    pose proof (wf_rauto _ (fa_wf0 _ _ _ _ _ _ _ F)) as W. rewrite Forall_forall in W.
    rewrite (W x Hx). reflexivity.
  Qed.

  Lemma auto_order_sorted ft d r :
    run true ft d = Ok r ->
    forall fa fb ka kb i j,
      In fa (x_foots r) -> In fb (x_foots r) ->
      fo_num fa = Some ka -> fo_num fb = Some kb ->
      index_of (lbl fa) (auto_ref_labels r) = Some i ->
      index_of (lbl fb) (auto_ref_labels r) = Some j ->
      (i < j)%nat -> ka < kb.
  Proof.
    intro H. apply run_facts in H as [g0 [g1 [ly [autos [F _]]]]].
    intros fa fb ka kb i j Ha Hb Hka Hkb Hi Hj Hij.
    rewrite (auto_ref_labels_eq _ _ _ _ _ _ _ F) in Hi, Hj.
    destruct (number_footnotes_spec _ _ _ _ (fa_num _ _ _ _ _ _ _ F)) as [A [B C]].
    assert (Hin : forall f k, In f (x_foots r) -> fo_num f = Some k -> In f autos /\ numv f = k).
    { intros f k Hf Hk. rewrite (fa_foots _ _ _ _ _ _ _ F) in Hf. apply in_app_or in Hf as [Hf|Hf].
      - unfold resolve_footnotes in Hf. apply in_map_iff in Hf as [x [<- _]]. discriminate.
      - split; auto. unfold numv. rewrite Hk. reflexivity. }
    destruct (Hin fa ka Ha Hka) as [Ha' Hna]. destruct (Hin fb kb Hb Hkb) as [Hb' Hnb].
    assert (Hne : fa <> fb).
    { intro. subst fb. rewrite Hi in Hj. inversion Hj. lia. }
    assert (Hg1 : g_autofootnotes g1
                  = isort (sort_key false (map r_label (g_autofootnote_refs g0))) Nat.leb (g_autofootnotes g0)).
    { rewrite (fa_g1 _ _ _ _ _ _ _ F). reflexivity. }
    destruct (before_or fa fb autos Ha' Hb' Hne) as [Hbf|Hbf].
    - pose proof (sorted_before _ _ _ _ C Hbf) as Hlt. simpl in Hlt. lia.
    - exfalso. apply (before_map fo_fn) in Hbf. rewrite A, Hg1 in Hbf.
      pose proof (isort_sorted (sort_key false (map r_label (g_autofootnote_refs g0))) Nat.leb
                               nat_leb_total nat_leb_trans (g_autofootnotes g0)) as Hs.
      pose proof (sorted_before _ _ _ _ Hs Hbf) as Hle. unfold kle, sort_key in Hle.
      fold (lbl fa) in Hle. fold (lbl fb) in Hle. rewrite Hi, Hj in Hle.
      apply Nat.leb_le in Hle. lia.
  Qed.

  Lemma index_of_lt x l i : index_of x l = Some i -> (i < length l)%nat.
  Proof.
    revert i. induction l as [|y l IH]; simpl; intros i H; [discriminate|].
    destruct (str_eqb x y).
    - inversion H. lia.
    - destruct (index_of x l) as [k|]; simpl in H; [|discriminate].
      inversion H. specialize (IH k eq_refl). lia.
  Qed.

  (* definitions that are referenced are numbered before those nobody references
     (SortFootnotes gives the latter the key len(ref_order), larger than every index) *)
  Lemma referenced_first ft d r :
    run true ft d = Ok r ->
    forall fa fb ka kb i,
      In fa (x_foots r) -> In fb (x_foots r) ->
      fo_num fa = Some ka -> fo_num fb = Some kb ->
      index_of (lbl fa) (auto_ref_labels r) = Some i ->
      index_of (lbl fb) (auto_ref_labels r) = None ->
      ka < kb.
  Proof.
    intro H. apply run_facts in H as [g0 [g1 [ly [autos [F _]]]]].
    intros fa fb ka kb i Ha Hb Hka Hkb Hi Hj.
    rewrite (auto_ref_labels_eq _ _ _ _ _ _ _ F) in Hi, Hj.
    destruct (number_footnotes_spec _ _ _ _ (fa_num _ _ _ _ _ _ _ F)) as [A [B C]].
    assert (Hin : forall f k, In f (x_foots r) -> fo_num f = Some k -> In f autos /\ numv f = k).
    { intros f k Hf Hk. rewrite (fa_foots _ _ _ _ _ _ _ F) in Hf. apply in_app_or in Hf as [Hf|Hf].
      - unfold resolve_footnotes in Hf. apply in_map_iff in Hf as [x [<- _]]. discriminate.
      - split; auto. unfold numv. rewrite Hk. reflexivity. }
    destruct (Hin fa ka Ha Hka) as [Ha' Hna]. destruct (Hin fb kb Hb Hkb) as [Hb' Hnb].
    assert (Hne : fa <> fb) by (intro; subst fb; congruence).
    assert (Hg1 : g_autofootnotes g1
                  = isort (sort_key false (map r_label (g_autofootnote_refs g0))) Nat.leb (g_autofootnotes g0)).
    { rewrite (fa_g1 _ _ _ _ _ _ _ F). reflexivity. }
    apply index_of_lt in Hi as Hil.
    destruct (before_or fa fb autos Ha' Hb' Hne) as [Hbf|Hbf].
    - pose proof (sorted_before _ _ _ _ C Hbf) as Hlt. simpl in Hlt. lia.
    - exfalso. apply (before_map fo_fn) in Hbf. rewrite A, Hg1 in Hbf.
      pose proof (isort_sorted (sort_key false (map r_label (g_autofootnote_refs g0))) Nat.leb
                               nat_leb_total nat_leb_trans (g_autofootnotes g0)) as Hs.
      pose proof (sorted_before _ _ _ _ Hs Hbf) as Hle. unfold kle, sort_key in Hle.
      fold (lbl fa) in Hle. fold (lbl fb) in Hle. rewrite Hi, Hj in Hle.
      apply Nat.leb_le in Hle. lia.
  Qed.

  (* ---------------------------------------------------------------- T4: collecting / staying put *)
  Lemma ckey_leb_total a b : ckey_leb a b = true \/ ckey_leb b a = true.
  Proof.
    destruct a as [x|x], b as [y|y]; simpl; auto.
    - destruct (x <=? y) eqn:E; auto. right. apply N.leb_le. apply N.leb_gt in E. lia.
    - apply str_leb_total.
  Qed.

  Lemma ckey_leb_trans a b c : ckey_leb a b = true -> ckey_leb b c = true -> ckey_leb a c = true.
  Proof.
    destruct a as [x|x], b as [y|y], c as [z|z]; simpl; auto; try discriminate.
    - rewrite !N.leb_le. lia.
    - apply str_leb_trans.
  Qed.

  Lemma strip_no_foot1 n : flat_map ltop_foots (strip_top n) = [].
  Proof.
    induction n as [| |l|its IH|] using ltop_ind'; simpl; auto.
    rewrite app_nil_r. induction its as [|i its IHi]; simpl; auto.
    inversion IH; subst. rewrite flat_map_app, H1, IHi; auto.
  Qed.

  Lemma strip_no_foot ly : layout_foots (flat_map strip_top ly) = [].
  Proof.
    unfold layout_foots. induction ly as [|n ly IH]; simpl; auto.
    rewrite flat_map_app, IH, app_nil_r. apply strip_no_foot1.
  Qed.

  Lemma layout_foots_LFoot (l : list fout) :
    layout_foots (map (fun f => LFoot (f_label (fo_fn f))) l) = map lbl l.
  Proof. unfold layout_foots. induction l as [|x l IH]; simpl; auto. rewrite IH. reflexivity. Qed.

  Definition transition_for (ft : bool) (rendered : list ltop) (foots : list fout) : list ltop :=
    match foots with
    | [] => []
    | _ => if ft && negb (forallb is_foot rendered) then [LTrans] else []
    end.

  Lemma collect_layout ft d r :
    run true ft d = Ok r ->
    x_layout r = flat_map strip_top (snd (render_doc regs0 d))
                 ++ transition_for ft (snd (render_doc regs0 d)) (x_foots r)
                 ++ map (fun f => LFoot (f_label (fo_fn f))) (isort (collect_key int_of) ckey_leb (x_foots r)).
  Proof.
    intro H. apply run_facts in H as [g0 [g1 [ly [autos [F [Hl _]]]]]].
    rewrite Hl, (fa_render _ _ _ _ _ _ _ F), (fa_foots _ _ _ _ _ _ _ F). simpl.
    unfold collect_footnotes, transition_for. simpl.
    rewrite flat_map_app, <- app_assoc. f_equal. f_equal.
    destruct (resolve_footnotes g1 ++ autos); simpl; auto.
    destruct (ft && negb (forallb is_foot ly)); reflexivity.
  Qed.

  Lemma collect_sorted ft d r :
    run true ft d = Ok r ->
    let sorted := isort (collect_key int_of) ckey_leb (x_foots r) in
    layout_foots (flat_map strip_top (snd (render_doc regs0 d))) = [] /\
    Permutation sorted (x_foots r) /\
    StronglySorted (fun a b => ckey_leb (collect_key int_of a) (collect_key int_of b) = true) sorted.
  Proof.
    intros _ sorted. split; [apply strip_no_foot|]. split.
    - apply Permutation_sym, isort_perm.
    - apply (isort_sorted (collect_key int_of) ckey_leb ckey_leb_total ckey_leb_trans).
  Qed.

  Lemma stay_put ft d r :
    run false ft d = Ok r ->
    x_layout r = snd (render_doc regs0 d) /\
    layout_foots (x_layout r) = map fst (firsts [] (all_defs d)).
  Proof.
    intro H. apply run_facts in H as [g0 [g1 [ly [autos [F [Hl _]]]]]].
    rewrite Hl, (fa_render _ _ _ _ _ _ _ F). simpl. split; auto.
    destruct (fa_step _ _ _ _ _ _ _ F) as [_ [_ [_ [_ E]]]]. exact E.
  Qed.

  (* ---------------------------------------------------------------- T5: warnings *)
  Definition unref_warn (f : fout) : list warn :=
    match fo_backrefs f with [] => [WUnref (lbl f) (f_auto (fo_fn f))] | _ => [] end.

  Lemma warnings_exact fs ft d r :
    run fs ft d = Ok r ->
    exists tm, x_warn r = map WDup (dupls [] (all_defs d)) ++ tm ++ flat_map unref_warn (x_foots r)
               /\ (tm = [] \/ tm = [WTooMany]).
  Proof.
    intro H. apply run_facts in H as [g0 [g1 [ly [autos [F [_ Hw]]]]]].
    exists (too_many g1). split.
    - rewrite Hw.
      assert (Hc : forall s, s_warn (collect_footnotes int_of fs ft s) = s_warn s).
      { intro s. unfold collect_footnotes. destruct (negb fs); reflexivity. }
      rewrite Hc. unfold unreferenced, stage_state. simpl.
      destruct (fa_step _ _ _ _ _ _ _ F) as [_ [_ [_ [E _]]]]. simpl in E. rewrite E.
      rewrite <- app_assoc. f_equal. f_equal.
      rewrite (fa_foots _ _ _ _ _ _ _ F), flat_map_app. f_equal.
      + apply flat_map_ext_in. intros f Hf. unfold unref_warn, lbl.
        unfold resolve_footnotes in Hf. apply in_map_iff in Hf as [x [<- Hx]]. simpl.
        pose proof (wf_manual _ (fa_wf1 _ _ _ _ _ _ _ F)) as W. rewrite Forall_forall in W.
        destruct (W x Hx) as [Wa _]. rewrite Wa. reflexivity.
      + apply flat_map_ext_in. intros f Hf. unfold unref_warn, lbl.
        destruct (number_footnotes_spec _ _ _ _ (fa_num _ _ _ _ _ _ _ F)) as [A _].
        assert (Hx : In (fo_fn f) (g_autofootnotes g1)) by (rewrite <- A; apply in_map; exact Hf).
        pose proof (wf_auto _ (fa_wf1 _ _ _ _ _ _ _ F)) as W. rewrite Forall_forall in W.
        destruct (W _ Hx) as [Wa _]. rewrite Wa. reflexivity.
    - unfold too_many. destruct (existsb _ _); auto.
  Qed.

  (* a duplicate definition only leaves its warning *)
  Lemma dup_def_only_warns g l b :
    existsb (fun f => str_eqb l (f_label f)) (g_footnotes g ++ g_autofootnotes g) = true ->
    render_footnote_reference g l b =
    ({| g_nameids := g_nameids g; g_autofootnotes := g_autofootnotes g; g_footnotes := g_footnotes g;
        g_autofootnote_refs := g_autofootnote_refs g; g_footnote_refs := g_footnote_refs g;
        g_allrefs := g_allrefs g; g_nrefs := g_nrefs g; g_warn := g_warn g ++ [WDup l] |}, false).
  Proof. intro H. unfold Foot.render_footnote_reference. rewrite H. reflexivity. Qed.

  (* ---------------------------------------------------------------- T6: no definition text is lost *)
  Lemma no_text_lost fs ft d r :
    run fs ft d = Ok r ->
    Permutation (map (fun f => (lbl f, f_body (fo_fn f))) (x_foots r)) (firsts [] (all_defs d)) /\
    Permutation (layout_foots (x_layout r)) (map fst (firsts [] (all_defs d))).
  Proof.
    intro H. pose proof H as H0. apply run_facts in H as [g0 [g1 [ly [autos [F [Hl _]]]]]].
    assert (P1 : Permutation (map (fun f => (lbl f, f_body (fo_fn f))) (x_foots r)) (firsts [] (all_defs d))).
    { replace (map (fun f => (lbl f, f_body (fo_fn f))) (x_foots r))
        with (map (fun x => (f_label x, f_body x)) (map fo_fn (x_foots r)))
        by (rewrite map_map; reflexivity).
      rewrite (foots_fns _ _ _ _ _ _ _ F).
      destruct (sort_same fs g0) as [_ [Hm [_ [_ [_ [_ Hp]]]]]].
      rewrite (fa_g1 _ _ _ _ _ _ _ F), Hm.
      destruct (fa_step _ _ _ _ _ _ _ F) as [_ [_ [E [_ _]]]]. simpl in E.
      eapply perm_trans; [|exact E]. unfold pairs. rewrite !map_app.
      eapply perm_trans; [apply Permutation_app_comm|].
      apply Permutation_app_tail. apply Permutation_map. apply Permutation_sym. exact Hp. }
    split; [exact P1|].
    destruct fs.
    - rewrite (collect_layout _ _ _ H0). unfold layout_foots. rewrite !flat_map_app.
      fold (layout_foots (flat_map strip_top (snd (render_doc regs0 d)))).
      rewrite strip_no_foot. simpl.
      assert (Et : flat_map ltop_foots (transition_for ft (snd (render_doc regs0 d)) (x_foots r)) = []).
      { unfold transition_for. destruct (x_foots r); auto.
        destruct (ft && negb (forallb is_foot (snd (render_doc regs0 d)))); reflexivity. }
      rewrite Et. simpl.
      fold (layout_foots (map (fun f => LFoot (f_label (fo_fn f))) (isort (collect_key int_of) ckey_leb (x_foots r)))).
      rewrite layout_foots_LFoot.
      eapply perm_trans; [apply Permutation_map, Permutation_sym, isort_perm|].
      replace (map lbl (x_foots r)) with (map fst (map (fun f => (lbl f, f_body (fo_fn f))) (x_foots r)))
        by (rewrite map_map; reflexivity).
      apply Permutation_map. exact P1.
    - destruct (stay_put _ _ _ H0) as [_ E]. rewrite E. apply Permutation_refl.
  Qed.

  (* numeric labels keep their number *)
  Lemma manual_keeps_number fs ft d r :
    run fs ft d = Ok r ->
    forall f, In f (x_foots r) -> fo_num f = None -> fo_display f = lbl f /\ isdigit (lbl f) = true.
  Proof.
    intro H. apply run_facts in H as [g0 [g1 [ly [autos [F _]]]]].
    intros f Hf Hn. rewrite (fa_foots _ _ _ _ _ _ _ F) in Hf. apply in_app_or in Hf as [Hf|Hf].
    - unfold resolve_footnotes in Hf. apply in_map_iff in Hf as [x [<- Hx]]. simpl. split; auto.
      pose proof (wf_manual _ (fa_wf1 _ _ _ _ _ _ _ F)) as W. rewrite Forall_forall in W.
      destruct (W x Hx) as [_ Wd]. exact Wd.
    - destruct (number_footnotes_spec _ _ _ _ (fa_num _ _ _ _ _ _ _ F)) as [_ [B _]].
      rewrite Forall_forall in B. destruct (B f Hf) as [P _]. congruence.
  Qed.
End FootProofs.

(* ================================================================ closed statements *)

Lemma auto_order_refuted :
  exists isdigit int_of ft d r fa fb ka kb i j,
    run isdigit int_of docutils_footnotes false ft d = Ok r /\
    In fa (x_foots r) /\ In fb (x_foots r) /\
    fo_num fa = Some ka /\ fo_num fb = Some kb /\
    index_of (lbl fa) (auto_ref_labels isdigit r) = Some i /\
    index_of (lbl fb) (auto_ref_labels isdigit r) = Some j /\
    (i < j)%nat /\ kb < ka.
Proof.
  exists (fun _ => false), (fun _ => None), true,
         [BRefs [[98]]; BRefs [[97]]; BDef [97] 1 []; BDef [98] 2 []].
  eexists. eexists. eexists. eexists. eexists. eexists. eexists.
  split; [vm_compute; reflexivity|].
  split; [right; left; reflexivity|].
  split; [left; reflexivity|].
  split; [reflexivity|]. split; [reflexivity|].
  split; [vm_compute; reflexivity|]. split; [vm_compute; reflexivity|].
  split; [lia|reflexivity].
Qed.

Lemma transform_order :
  (priority XSortFootnotes < priority XFootnotes)%Z /\
  (priority XFootnotes < priority XUnreferencedFootnotesDetector)%Z /\
  (priority XUnreferencedFootnotesDetector < priority XCollectFootnotes)%Z /\
  In XSortFootnotes docutils_parser_transforms /\ In XCollectFootnotes docutils_parser_transforms /\
  In XUnreferencedFootnotesDetector docutils_parser_transforms /\
  In XSortFootnotes sphinx_parser_transforms /\ In XCollectFootnotes sphinx_parser_transforms /\
  pipeline = [XSortFootnotes; XFootnotes; XUnreferencedFootnotesDetector; XCollectFootnotes; XResolveAnchorIds].
Proof.
  split; [vm_compute; reflexivity|]. split; [vm_compute; reflexivity|]. split; [vm_compute; reflexivity|].
  split; [simpl; tauto|]. split; [simpl; tauto|]. split; [simpl; tauto|].
  split; [simpl; tauto|]. split; [simpl; tauto|]. apply pipeline_order.
Qed.

(* SortFootnotes as it was before the fix (default key 999): 1000 references to z, then one to a;
   definitions z, a, u (u is never referenced).  a is referenced but numbered after u. *)
Lemma referenced_first_legacy_refuted :
  exists isdigit int_of ft d r fa fb ka kb i,
    run_legacy isdigit int_of docutils_footnotes true ft d = Ok r /\
    In fa (x_foots r) /\ In fb (x_foots r) /\
    fo_num fa = Some ka /\ fo_num fb = Some kb /\
    index_of (lbl fa) (auto_ref_labels isdigit r) = Some i /\
    index_of (lbl fb) (auto_ref_labels isdigit r) = None /\
    kb < ka.
Proof.
  exists (fun _ => false), (fun _ => None), true,
         [BRefs (repeat [122] 1000 ++ [[97]]); BDef [122] 1 []; BDef [97] 2 []; BDef [117] 3 []].
  eexists. eexists. eexists. eexists. eexists. eexists.
  split; [vm_compute; reflexivity|].
  split; [right; right; left; reflexivity|].
  split; [right; left; reflexivity|].
  split; [reflexivity|]. split; [reflexivity|].
  split; [vm_compute; reflexivity|]. split; [vm_compute; reflexivity|].
  reflexivity.
Qed.
