(* Helpers shared by the C09 / C11 models: Python dicts as insertion-ordered association
   lists, string order (Python str comparison = lexicographic on code points), a stable
   insertion sort (Python list.sort / sorted are stable), decimal value of a digit string.
   Executable definitions only; proofs are in RUtilProofs.v. *)
From Coq Require Import List NArith Bool.
From MV Require Import Base.PyStr Base.Res.
Import ListNotations.
Open Scope N_scope.

(* ---- dict: str -> V, insertion ordered ---- *)
Section Dict.
  Context {V : Type}.

  (* d.get(k) / k in d *)
  Fixpoint dget (d : list (str * V)) (k : str) : option V :=
    match d with
    | [] => None
    | (k', v) :: d' => if str_eqb k k' then Some v else dget d' k
    end.

  Definition dmem (d : list (str * V)) (k : str) : bool :=
    match dget d k with Some _ => true | None => false end.

  (* d[k] = v : replace in place when present (keeps the position), else append *)
  Fixpoint dset (d : list (str * V)) (k : str) (v : V) : list (str * V) :=
    match d with
    | [] => [(k, v)]
    | (k', v') :: d' => if str_eqb k k' then (k', v) :: d' else (k', v') :: dset d' k v
    end.
End Dict.

(* list.index(x) as option *)
Fixpoint index_of (x : str) (l : list str) : option nat :=
  match l with
  | [] => None
  | y :: l' => if str_eqb x y then Some O else option_map S (index_of x l')
  end.

(* ---- Python str comparison ---- *)
Fixpoint str_leb (a b : str) : bool :=
  match a, b with
  | [], _ => true
  | _ :: _, [] => false
  | x :: a', y :: b' => if x <? y then true else if y <? x then false else str_leb a' b'
  end.

(* ---- stable sort by a key with a total preorder [leb] (list.sort(key=...)) ---- *)
Section Sort.
  Context {A K : Type}.
  Variable key : A -> K.
  Variable leb : K -> K -> bool.

  Fixpoint insert (x : A) (l : list A) : list A :=
    match l with
    | [] => [x]
    | y :: l' => if leb (key x) (key y) then x :: y :: l' else y :: insert x l'
    end.

  Fixpoint isort (l : list A) : list A :=
    match l with
    | [] => []
    | x :: l' => insert x (isort l')
    end.
End Sort.

(* ---- decimal value of a string of ASCII digits (big endian) ---- *)
Definition dval (s : str) : N := fold_left (fun a c => a * 10 + (c - 48)) s 0.

(* a for loop whose body can raise: fold_left in the Res monad *)
Fixpoint fold_res {S A : Type} (f : S -> A -> res S) (l : list A) (s : S) : res S :=
  match l with
  | [] => Ok s
  | x :: l' => do s' <- f s x; fold_res f l' s'
  end.

(* while True: body ... break : the body returns the new state and whether it broke out; [fuel] bounds the iterations *)
Fixpoint while_res {S : Type} (fuel : nat) (body : S -> res (S * bool)) (s : S) : res S :=
  match fuel with
  | O => Raise OutOfFuel
  | S f => do r <- body s; let '(s', brk) := r in if brk then Ok s' else while_res f body s'
  end.

Fixpoint mem_nat (x : nat) (l : list nat) : bool :=
  match l with [] => false | y :: l' => Nat.eqb x y || mem_nat x l' end.

Fixpoint assoc_nat {V} (l : list (nat * V)) (k : nat) : option V :=
  match l with [] => None | (k', v) :: l' => if Nat.eqb k k' then Some v else assoc_nat l' k end.
