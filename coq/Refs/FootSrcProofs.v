(* The definitions regenerated from transforms.py (Gen/FootSrc.v: SortFootnotes.apply,
   UnreferencedFootnotesDetector.apply, CollectFootnotes.apply) equal the hand-written model (Foot.v).
   These are the proof obligations that an edit of the three methods breaks. *)
From Coq Require Import List NArith ZArith Bool Lia Permutation Sorted.
From MV Require Import Base.PyStr Base.Res Refs.RUtil Refs.RUtilProofs Gen.Transforms Refs.Foot Refs.FootOps
                       Refs.FootProofs Gen.FootSrc.
Import ListNotations.
Open Scope N_scope.

(* ---------------------------------------------------------------- generic *)
Lemma existsb_ext' {A} (f g : A -> bool) l : (forall x, f x = g x) -> existsb f l = existsb g l.
Proof. intro H. induction l as [|x l IH]; simpl; auto. rewrite H, IH. reflexivity. Qed.

Lemma filter_all {A} (l : list A) : filter (fun _ => true) l = l.
Proof. induction l as [|x l IH]; simpl; congruence. Qed.

Lemma isort_ext {A K} (k1 k2 : A -> K) leb l :
  (forall x, k1 x = k2 x) -> isort k1 leb l = isort k2 leb l.
Proof.
  intro H. induction l as [|x l IH]; simpl; auto. rewrite IH. clear IH.
  induction (isort k2 leb l) as [|y r IHr]; simpl; auto. rewrite !H, IHr. reflexivity.
Qed.

Lemma insert_map {A B K} (g : A -> B) (key : B -> K) leb x l :
  insert key leb (g x) (map g l) = map g (insert (fun a => key (g a)) leb x l).
Proof.
  induction l as [|y l IH]; simpl; auto.
  destruct (leb (key (g x)) (key (g y))); simpl; auto. rewrite IH. reflexivity.
Qed.

Lemma isort_map {A B K} (g : A -> B) (key : B -> K) leb l :
  isort key leb (map g l) = map g (isort (fun a => key (g a)) leb l).
Proof. induction l as [|x l IH]; simpl; auto. rewrite IH, insert_map. reflexivity. Qed.

Lemma index_of_mem x l : mem_str x l = match index_of x l with Some _ => true | None => false end.
Proof.
  induction l as [|y l IH]; simpl; auto.
  destruct (str_eqb x y); simpl; auto. rewrite IH. destruct (index_of x l); reflexivity.
Qed.

Lemma fold_append {A B} (c : A -> bool) (f : A -> B) l : forall w,
  fold_left (fun w x => if c x then w ++ [f x] else w) l w
  = w ++ flat_map (fun x => if c x then [f x] else []) l.
Proof.
  induction l as [|x l IH]; intro w; simpl; [rewrite app_nil_r; reflexivity|].
  rewrite IH. destruct (c x); simpl; [rewrite <- app_assoc|]; reflexivity.
Qed.

Lemma fold_snoc_map {A B} (f : A -> B) l : forall acc,
  fold_left (fun acc x => acc ++ [f x]) l acc = acc ++ map f l.
Proof.
  induction l as [|x l IH]; intro acc; simpl; [rewrite app_nil_r; reflexivity|].
  rewrite IH, <- app_assoc. reflexivity.
Qed.

(* ---------------------------------------------------------------- SortFootnotes *)
Theorem sort_footnotes_src_eq fs g : sort_footnotes_src fs g = sort_footnotes false fs g.
Proof.
  unfold sort_footnotes_src, sort_footnotes. destruct (negb fs); [reflexivity|].
  cbv zeta. unfold set_autofootnotes. f_equal.
  rewrite (filter_ext (fun node => rf_has_refname node) (fun _ => true)) by reflexivity.
  rewrite filter_all. apply isort_ext. intro f.
  unfold sort_key, fn_names, hd_str, nonempty_l, py_index. cbn [andb].
  rewrite index_of_mem. destruct (index_of (f_label f) _); reflexivity.
Qed.

(* ---------------------------------------------------------------- UnreferencedFootnotesDetector *)
Theorem unreferenced_src_eq s : unreferenced_src s = unreferenced s.
Proof.
  unfold unreferenced_src, unreferenced, set_warn, s_symbol. cbv zeta. f_equal.
  rewrite (fold_append (fun node => andb (negb (nonempty_l (fo_backrefs node))) (nonempty_l (fo_names node)))
                       (fun node => WUnref (hd_str (fo_names node)) false)).
  cbn [fold_left].
  rewrite (fold_append (fun node => andb (negb (nonempty_l (fo_backrefs node))) (nonempty_l (fo_names node)))
                       (fun node => WUnref (lbl_of node) true)).
  rewrite <- app_assoc. f_equal. f_equal.
  - apply flat_map_ext. intro f. unfold fo_names, hd_str, nonempty_l. destruct (fo_backrefs f); reflexivity.
  - apply flat_map_ext. intro f. unfold fo_names, lbl_of, nonempty_l. destruct (fo_backrefs f); reflexivity.
Qed.

(* ---------------------------------------------------------------- CollectFootnotes *)

(* remove the footnotes whose label is in S, at any depth *)
Fixpoint strip_set (S : list str) (n : ltop) : list ltop :=
  match n with
  | LFoot l => if mem_str l S then [] else [n]
  | LBox its => [LBox (flat_map (strip_set S) its)]
  | other => [other]
  end.

Lemma flat_map_flat_map {A B C} (f : A -> list B) (g : B -> list C) l :
  flat_map g (flat_map f l) = flat_map (fun x => flat_map g (f x)) l.
Proof. induction l as [|x l IH]; simpl; auto. rewrite flat_map_app, IH. reflexivity. Qed.

Lemma strip_set_remove S l n :
  flat_map (strip_set S) (remove_label l n) = strip_set (l :: S) n.
Proof.
  induction n as [| |l'|its IH|] using ltop_ind'; simpl; auto.
  - rewrite (str_eqb_sym l' l). destruct (str_eqb l l') eqn:E; simpl; [reflexivity|].
    destruct (mem_str l' S); reflexivity.
  - f_equal. f_equal. rewrite flat_map_flat_map.
    induction its as [|i its IHi]; simpl; auto. inversion IH; subst. rewrite H1, IHi; auto.
Qed.

Lemma strip_set_remove_all S l ly :
  flat_map (strip_set S) (flat_map (remove_label l) ly) = flat_map (strip_set (l :: S)) ly.
Proof.
  rewrite flat_map_flat_map. apply flat_map_ext. intro n. apply strip_set_remove.
Qed.

Lemma strip_set_nil n : strip_set [] n = [n].
Proof.
  induction n as [| |l|its IH|] using ltop_ind'; simpl; auto.
  f_equal. f_equal. induction its as [|i its IHi]; simpl; auto.
  inversion IH; subst. rewrite H1, IHi; auto.
Qed.

Lemma strip_set_nil_all ly : flat_map (strip_set []) ly = ly.
Proof. induction ly as [|n ly IH]; simpl; auto. rewrite strip_set_nil, IH. reflexivity. Qed.

Section WithIsdigit.
  Variable isdigit : str -> bool.
  Notation ltop_foots := (ltop_foots).

  Lemma strip_set_covers S n :
    (forall l, In l (FootProofs.ltop_foots n) -> In l S) -> strip_set S n = strip_top n.
  Proof.
    induction n as [| |l|its IH|] using ltop_ind'; simpl; auto; intro H.
    - assert (Hm : mem_str l S = true) by (apply mem_str_In, H; left; reflexivity).
      rewrite Hm. reflexivity.
    - f_equal. f_equal. induction its as [|i its IHi]; simpl; auto.
      inversion IH; subst. simpl in H. rewrite H2, IHi; auto.
      + intros l Hl. apply H. apply in_or_app. right. exact Hl.
      + intros l Hl. apply H. apply in_or_app. left. exact Hl.
  Qed.

  Lemma strip_set_covers_all S ly :
    (forall l, In l (layout_foots ly) -> In l S) -> flat_map (strip_set S) ly = flat_map strip_top ly.
  Proof.
    unfold layout_foots. induction ly as [|n ly IH]; simpl; auto. intro H.
    rewrite strip_set_covers, IH; auto.
    - intros l Hl. apply H. apply in_or_app. right. exact Hl.
    - intros l Hl. apply H. apply in_or_app. left. exact Hl.
  Qed.
End WithIsdigit.

Lemma remove_label_foots l (la : list str) :
  ~ In l la -> flat_map (remove_label l) (map LFoot la) = map LFoot la.
Proof.
  induction la as [|x la IH]; simpl; auto. intro H.
  destruct (str_eqb l x) eqn:E.
  - apply str_eqb_eq in E. subst. tauto.
  - simpl. rewrite IH; auto.
Qed.

(* the loop  for _, footnote in sorted(..): footnote.parent.remove(footnote); self.document += footnote *)
Definition collect_step (layout : list ltop) (footnote : fout) : list ltop :=
  remove_foot footnote layout ++ [LFoot (lbl_of footnote)].

Lemma collect_loop fs : forall ly la,
  NoDup (la ++ map lbl_of fs) ->
  fold_left collect_step fs (ly ++ map LFoot la)
  = flat_map (strip_set (map lbl_of fs)) ly ++ map LFoot la ++ map LFoot (map lbl_of fs).
Proof.
  induction fs as [|f fs IH]; intros ly la Hnd; simpl.
  - rewrite strip_set_nil_all, app_nil_r. reflexivity.
  - unfold collect_step at 2. unfold remove_foot.
    rewrite flat_map_app, remove_label_foots.
    + rewrite <- app_assoc.
      replace (map LFoot la ++ [LFoot (lbl_of f)]) with (map LFoot (la ++ [lbl_of f]))
        by (rewrite map_app; reflexivity).
      rewrite IH.
      * rewrite strip_set_remove_all, map_app. simpl. rewrite <- !app_assoc. reflexivity.
      * rewrite <- app_assoc. simpl. exact Hnd.
    + intro Hin. apply NoDup_remove_2 in Hnd. apply Hnd. apply in_or_app. left. exact Hin.
Qed.

Lemma collect_loop0 fs ly :
  NoDup (map lbl_of fs) ->
  fold_left collect_step fs ly = flat_map (strip_set (map lbl_of fs)) ly ++ map LFoot (map lbl_of fs).
Proof.
  intro H. pose proof (collect_loop fs ly [] H) as E. simpl in E. rewrite app_nil_r in E. exact E.
Qed.

Lemma fold_pairs {B} (g : fout -> B) (step : list ltop -> fout -> list ltop) l : forall ly,
  fold_left (fun layout '(_, footnote) => step layout footnote) (map (fun f => (g f, f)) l) ly
  = fold_left step l ly.
Proof. induction l as [|x l IH]; intro ly; simpl; auto. Qed.

Lemma layout_foots_app a b : layout_foots (a ++ b) = layout_foots a ++ layout_foots b.
Proof. unfold layout_foots. apply flat_map_app. Qed.

Theorem collect_footnotes_src_eq int_of fs ft s :
  NoDup (map lbl_of (s_manual s ++ s_auto s)) ->
  (forall l, In l (layout_foots (s_layout s)) -> In l (map lbl_of (s_manual s ++ s_auto s))) ->
  collect_footnotes_src int_of fs ft s = collect_footnotes int_of fs ft s.
Proof.
  intros Hnd Hcov. unfold collect_footnotes_src, collect_footnotes. cbv zeta.
  destruct (negb fs); [destruct s; reflexivity|].
  unfold s_symbol. cbn [app].
  rewrite (fold_snoc_map (fun footnote => (fo_display_of (fo_label_node footnote), footnote))). cbn [app].
  set (foots := s_manual s ++ s_auto s) in *.
  set (key := fun footnote : str * fout =>
                let '(label, _) := footnote in
                match int_of label with Some __n => KInt __n | None => KStr label end).
  assert (Hsort : isort key ckey_leb (map (fun f => (fo_display_of (fo_label_node f), f)) foots)
                  = map (fun f => (fo_display_of (fo_label_node f), f)) (isort (collect_key int_of) ckey_leb foots)).
  { rewrite isort_map. f_equal. }
  assert (Hloop : forall ly,
     (forall l, In l (layout_foots ly) -> In l (map lbl_of foots)) ->
     fold_left (fun layout '(_, footnote) =>
                  (remove_foot footnote layout ++ [LFoot (lbl_of footnote)]))
               (isort key ckey_leb (map (fun f => (fo_display_of (fo_label_node f), f)) foots)) ly
     = flat_map strip_top ly ++ map (fun f => LFoot (f_label (fo_fn f))) (isort (collect_key int_of) ckey_leb foots)).
  { intros ly Hly. rewrite Hsort.
    rewrite (fold_pairs (fun f => fo_display_of (fo_label_node f)) collect_step).
    assert (Hp : Permutation (map lbl_of (isort (collect_key int_of) ckey_leb foots)) (map lbl_of foots)).
    { apply Permutation_map, Permutation_sym, isort_perm. }
    rewrite collect_loop0.
    - rewrite (strip_set_covers_all _ ly).
      + rewrite map_map. reflexivity.
      + intros l Hl. eapply Permutation_in; [apply Permutation_sym, Hp|]. apply Hly, Hl.
    - eapply Permutation_NoDup; [apply Permutation_sym, Hp|exact Hnd]. }
  unfold set_layout.
  rewrite (Hloop (s_layout s ++ [LTrans])).
  2: { intros l Hl. rewrite layout_foots_app in Hl. simpl in Hl. rewrite app_nil_r in Hl. apply Hcov, Hl. }
  rewrite (Hloop (s_layout s) Hcov).
  replace (forallb is_foot (s_layout s)) with (forallb (fun c => is_foot c) (s_layout s)) by reflexivity.
  destruct foots as [|f0 foots']; cbn [map nonempty_l andb].
  - simpl. rewrite !app_nil_r. reflexivity.
  - destruct ft; cbn [andb]; [|rewrite app_nil_r; reflexivity].
    destruct (forallb (fun c => is_foot c) (s_layout s)); cbn [negb]; [rewrite app_nil_r|]; reflexivity.
Qed.

(* ---------------------------------------------------------------- base.py: the two render methods *)
Theorem render_footnote_ref_src_eq isdigit g target :
  render_footnote_ref_src isdigit g target = render_footnote_ref isdigit g target.
Proof.
  unfold render_footnote_ref_src, render_footnote_ref, new_ref, ref_set_auto, ref_set_refname,
         note_autofootnote_ref, note_footnote_ref, append_ref. cbv zeta.
  destruct (isdigit target); reflexivity.
Qed.

Theorem render_footnote_reference_src_eq isdigit g target body :
  render_footnote_reference_src isdigit g target body = render_footnote_reference isdigit g target body.
Proof.
  unfold render_footnote_reference_src, render_footnote_reference.
  rewrite (existsb_ext' (fun footnote => orb (mem_str target (fn_names footnote)) (mem_str target (fn_dupnames footnote)))
                       (fun f => str_eqb target (f_label f))).
  2: { intro f. unfold fn_names, fn_dupnames. simpl. rewrite !orb_false_r. reflexivity. }
  destruct (existsb _ _); [reflexivity|].
  unfold new_fn, fn_add_name, fn_set_auto, note_footnote, note_autofootnote, note_explicit_target. cbv zeta.
  destruct (isdigit target); reflexivity.
Qed.

(* ---------------------------------------------------------------- the pipeline with the regenerated transforms *)
Section RunSrc.
  Variable isdigit : str -> bool.
  Variable int_of : str -> option N.
  Variable footnotes_xform : fstate -> res fstate.
  Hypothesis O_footnotes_xform : forall s, footnotes_xform s = docutils_footnotes s.

  Definition apply_xform_src (fs ft : bool) (x : xform) (s : fstate) : res fstate :=
    match x with
    | XSortFootnotes =>
        Ok {| s_regs := sort_footnotes_src fs (s_regs s); s_manual := s_manual s; s_auto := s_auto s;
              s_layout := s_layout s; s_warn := s_warn s |}
    | XFootnotes => footnotes_xform s
    | XUnreferencedFootnotesDetector => Ok (unreferenced_src s)
    | XCollectFootnotes => Ok (collect_footnotes_src int_of fs ft s)
    | XResolveAnchorIds => Ok s
    end.

  Fixpoint apply_all_src (fs ft : bool) (xs : list xform) (s : fstate) : res fstate :=
    match xs with
    | [] => Ok s
    | x :: xs' => do s' <- apply_xform_src fs ft x s; apply_all_src fs ft xs' s'
    end.

  (* run, with SortFootnotes / UnreferencedFootnotesDetector / CollectFootnotes as translated from the source *)
  Definition run_src (footnote_sort footnote_transition : bool) (d : doc) : res result :=
    let '(g, layout) := render_doc isdigit regs0 d in
    let s0 := {| s_regs := g; s_manual := []; s_auto := []; s_layout := layout; s_warn := g_warn g |} in
    do s <- apply_all_src footnote_sort footnote_transition pipeline s0;
    let foots := s_manual s ++ s_auto s in
    Ok {| x_refs := map (ref_out foots) (g_allrefs (s_regs s)); x_foots := foots;
          x_layout := s_layout s; x_warn := s_warn s |}.

  Theorem run_src_eq fs ft d : run_src fs ft d = run isdigit int_of footnotes_xform fs ft d.
  Proof.
    destruct (run_total isdigit int_of footnotes_xform O_footnotes_xform fs ft d) as [r Hr].
    rewrite Hr.
    destruct (run_facts isdigit int_of footnotes_xform O_footnotes_xform fs ft d r Hr)
      as [g0 [g1 [ly [autos [F [Hl Hw]]]]]].
    pose proof (foots_labels_nodup _ _ _ _ _ _ _ _ F) as Hnd.
    pose proof (fa_foots _ _ _ _ _ _ _ _ F) as Hfoots.
    pose proof (fa_refs _ _ _ _ _ _ _ _ F) as Hrefs.
    pose proof (fa_g1 _ _ _ _ _ _ _ _ F) as Hg1.
    unfold run_src. rewrite (fa_render _ _ _ _ _ _ _ _ F), pipeline_order.
    cbn [apply_all_src apply_xform_src bind s_regs s_manual s_auto s_layout s_warn].
    rewrite sort_footnotes_src_eq, <- Hg1, O_footnotes_xform.
    unfold docutils_footnotes. cbn [s_regs s_manual s_auto s_layout s_warn].
    rewrite (fa_num _ _ _ _ _ _ _ _ F). cbn [bind].
    rewrite unreferenced_src_eq.
    change {| s_regs := g1; s_manual := resolve_footnotes g1; s_auto := autos; s_layout := ly;
              s_warn := g_warn g0 ++ too_many g1 |} with (stage_state g0 g1 ly autos).
    rewrite collect_footnotes_src_eq.
    - destruct r as [xr xf xl xw]. cbn [x_refs x_foots x_layout x_warn] in *.
      assert (Hs : forall s, s_manual (collect_footnotes int_of fs ft s) = s_manual s /\
                             s_auto (collect_footnotes int_of fs ft s) = s_auto s /\
                             s_regs (collect_footnotes int_of fs ft s) = s_regs s).
      { intro s. unfold collect_footnotes. destruct (negb fs); simpl; auto. }
      destruct (Hs (unreferenced (stage_state g0 g1 ly autos))) as [A [B C]].
      rewrite A, B, C. cbn [unreferenced stage_state s_manual s_auto s_regs].
      rewrite Hfoots, Hrefs, Hl, Hw. reflexivity.
    - cbn [unreferenced stage_state s_manual s_auto]. rewrite <- Hfoots. exact Hnd.
    - cbn [unreferenced stage_state s_manual s_auto s_layout]. rewrite <- Hfoots. intros l Hin.
      destruct (fa_step _ _ _ _ _ _ _ _ F) as [_ [Hn [_ [_ Hf]]]]. simpl in Hn.
      simpl in Hf. rewrite Hf, <- Hn in Hin.
      eapply Permutation_in; [apply Permutation_sym, (foots_labels_perm _ _ _ _ _ _ _ _ F)|].
      destruct (sort_same fs g0) as [Hids _]. rewrite Hg1, Hids. exact Hin.
  Qed.
End RunSrc.

(* ---------------------------------------------------------------- the main theorems for the regenerated pipeline *)
Section SrcTheorems.
  Variable isdigit : str -> bool.
  Variable int_of : str -> option N.
  Variable fx : fstate -> res fstate.
  Hypothesis O_footnotes_xform_fx : forall s, fx s = docutils_footnotes s.

  Lemma auto_order_sorted_src ft d r :
    run_src isdigit int_of fx true ft d = Ok r ->
    forall fa fb ka kb i j,
      In fa (x_foots r) -> In fb (x_foots r) ->
      fo_num fa = Some ka -> fo_num fb = Some kb ->
      index_of (lbl fa) (auto_ref_labels isdigit r) = Some i ->
      index_of (lbl fb) (auto_ref_labels isdigit r) = Some j ->
      (i < j)%nat -> ka < kb.
  Proof. intro H. rewrite run_src_eq in H by exact O_footnotes_xform_fx. exact (auto_order_sorted isdigit int_of fx O_footnotes_xform_fx ft d r H). Qed.

  Lemma referenced_first_src ft d r :
    run_src isdigit int_of fx true ft d = Ok r ->
    forall fa fb ka kb i,
      In fa (x_foots r) -> In fb (x_foots r) ->
      fo_num fa = Some ka -> fo_num fb = Some kb ->
      index_of (lbl fa) (auto_ref_labels isdigit r) = Some i ->
      index_of (lbl fb) (auto_ref_labels isdigit r) = None ->
      ka < kb.
  Proof. intro H. rewrite run_src_eq in H by exact O_footnotes_xform_fx. exact (referenced_first isdigit int_of fx O_footnotes_xform_fx ft d r H). Qed.

  Lemma collect_layout_src ft d r :
    run_src isdigit int_of fx true ft d = Ok r ->
    x_layout r = flat_map strip_top (snd (render_doc isdigit regs0 d))
                 ++ transition_for ft (snd (render_doc isdigit regs0 d)) (x_foots r)
                 ++ map (fun f => LFoot (f_label (fo_fn f))) (isort (collect_key int_of) ckey_leb (x_foots r)).
  Proof. intro H. rewrite run_src_eq in H by exact O_footnotes_xform_fx. exact (collect_layout isdigit int_of fx O_footnotes_xform_fx ft d r H). Qed.

  Lemma collect_sorted_src ft d r :
    run_src isdigit int_of fx true ft d = Ok r ->
    let sorted := isort (collect_key int_of) ckey_leb (x_foots r) in
    layout_foots (flat_map strip_top (snd (render_doc isdigit regs0 d))) = [] /\
    Permutation sorted (x_foots r) /\
    StronglySorted (fun a b => ckey_leb (collect_key int_of a) (collect_key int_of b) = true) sorted.
  Proof. intro H. rewrite run_src_eq in H by exact O_footnotes_xform_fx. exact (collect_sorted isdigit int_of fx ft d r H). Qed.

  Lemma warnings_exact_src fs ft d r :
    run_src isdigit int_of fx fs ft d = Ok r ->
    exists tm, x_warn r = map WDup (dupls [] (all_defs d)) ++ tm ++ flat_map unref_warn (x_foots r)
               /\ (tm = [] \/ tm = [WTooMany]).
  Proof. intro H. rewrite run_src_eq in H by exact O_footnotes_xform_fx. exact (warnings_exact isdigit int_of fx O_footnotes_xform_fx fs ft d r H). Qed.
End SrcTheorems.

Lemma only_named_footnotes isdigit d :
  let g := fst (render_doc isdigit regs0 d) in
  Forall (fun f => fn_names f = [f_label f] /\ In (f_label f) (g_nameids g)) (g_autofootnotes g ++ g_footnotes g) /\
  Forall (fun f => f_auto f = true /\ isdigit (f_label f) = false) (g_autofootnotes g) /\
  Forall (fun f => f_auto f = false /\ isdigit (f_label f) = true) (g_footnotes g).
Proof.
  cbv zeta. pose proof (step_ok_doc isdigit (fun _ => None) d regs0 (wf_regs0 isdigit)) as [W _].
  split; [|split; [apply (wf_auto _ _ W)|apply (wf_manual _ _ W)]].
  apply Forall_forall. intros f Hf. split; [reflexivity|].
  eapply Permutation_in; [apply (wf_labels _ _ W)|]. apply in_map. exact Hf.
Qed.
