(* Model of the footnote pipeline:
     base.py      render_footnote_ref / render_footnote_reference   (MyST, fills docutils registries)
     transforms.py SortFootnotes, UnreferencedFootnotesDetector, CollectFootnotes   (MyST)
     docutils     document.note_* registries, transforms.references.Footnotes        (external, transcribed)
   run in the order given by the priorities of coq/Gen/Transforms.v.
   Executable definitions only; proofs are in FootProofs.v. *)
From Coq Require Import List NArith ZArith Bool.
From MV Require Import Base.PyStr Base.Res Refs.RUtil Gen.Transforms.
Import ListNotations.
Open Scope N_scope.

(* ---- input: the footnote material of a document, in document order, at any nesting depth ---- *)
Inductive blk : Type :=
| BRefs (ls : list str)                          (* a non-footnote block holding these [^l] references (possibly none) *)
| BDef (l : str) (body : N) (brefs : list str)   (* [^l]: body  (body = opaque text id; brefs = references inside it) *)
| BBox (items : list blk).                       (* block quote / list item / definition / section ... holding blocks *)

Definition doc := list blk.      (* the children of the document *)

(* ---- registries ---- *)
Record fn := { f_label : str; f_auto : bool; f_body : N }.      (* nodes.footnote; identity = its label *)
Record rf := { r_idx : nat; r_label : str; r_auto : bool }.     (* nodes.footnote_reference; r_idx-th in the document *)

Inductive warn : Type :=
| WDup (l : str)                  (* "Duplicate footnote definition found for label" [ref.footnote] *)
| WUnref (l : str) (auto : bool)  (* "Footnote [..] is not referenced." [ref.footnote] *)
| WTooMany                        (* docutils ERROR "Too many autonumbered footnote references" *)
| WUnrefSymbol.                   (* "Footnote [*] is not referenced." (symbol footnotes: rST only, never produced here) *)

Record regs := {
  g_nameids : list str;                     (* keys of document.nameids *)
  g_autofootnotes : list fn;
  g_footnotes : list fn;
  g_autofootnote_refs : list rf;
  g_footnote_refs : list (str * list rf);   (* dict refname -> references *)
  g_allrefs : list rf;                      (* the footnote_reference nodes of the doctree, document order *)
  g_nrefs : nat;
  g_warn : list warn }.

Definition regs0 : regs :=
  {| g_nameids := []; g_autofootnotes := []; g_footnotes := []; g_autofootnote_refs := [];
     g_footnote_refs := []; g_allrefs := []; g_nrefs := O; g_warn := [] |}.

(* dict.setdefault(k, []).append(v) *)
Definition dappend {V} (d : list (str * list V)) (k : str) (v : V) : list (str * list V) :=
  dset d k (match dget d k with Some l => l ++ [v] | None => [v] end).

Definition refs_of (frefs : list (str * list rf)) (l : str) : list rf :=
  match dget frefs l with Some rs => rs | None => [] end.

(* layout: what becomes of each block, as far as footnotes are concerned *)
Inductive ltop : Type := LOther | LMsg | LFoot (l : str) | LBox (its : list ltop) | LTrans.

(* output *)
Record fout := { fo_fn : fn; fo_display : str; fo_num : option N; fo_backrefs : list nat }.
Record rout := { ro_idx : nat; ro_label : str; ro_refid : option str; ro_text : option str }.

Record result := {
  x_refs : list rout;            (* every footnote reference, document order *)
  x_foots : list fout;           (* every kept definition: manual ones, then auto-numbered ones in registry order *)
  x_layout : list ltop;          (* the document's children afterwards *)
  x_warn : list warn }.

Section Foot.
  Variable isdigit : str -> bool.       (* Python str.isdigit *)
  Variable int_of : str -> option N.    (* Python int(s); None = ValueError *)

  (* ---- base.py ---- *)

  (* render_footnote_ref *)
  Definition render_footnote_ref (g : regs) (target : str) : regs :=
    let auto := negb (isdigit target) in
    let r := {| r_idx := g_nrefs g; r_label := target; r_auto := auto |} in
    {| g_nameids := g_nameids g; g_autofootnotes := g_autofootnotes g; g_footnotes := g_footnotes g;
       (* note_autofootnote_ref *)
       g_autofootnote_refs := if auto then g_autofootnote_refs g ++ [r] else g_autofootnote_refs g;
       (* note_footnote_ref *)
       g_footnote_refs := dappend (g_footnote_refs g) target r;
       g_allrefs := g_allrefs g ++ [r];                       (* self.current_node.append(refnode) *)
       g_nrefs := S (g_nrefs g); g_warn := g_warn g |}.

  (* render_footnote_reference (a definition); returns whether a footnote node was created *)
  Definition render_footnote_reference (g : regs) (target : str) (body : N) : regs * bool :=
    (* any(target in fn["names"] or target in fn["dupnames"] for fn in document.footnotes + autofootnotes):
       only an earlier footnote definition makes a duplicate (a footnote built here has names = [label]) *)
    if existsb (fun f => str_eqb target (f_label f)) (g_footnotes g ++ g_autofootnotes g) then
      ({| g_nameids := g_nameids g; g_autofootnotes := g_autofootnotes g; g_footnotes := g_footnotes g;
          g_autofootnote_refs := g_autofootnote_refs g; g_footnote_refs := g_footnote_refs g;
          g_allrefs := g_allrefs g; g_nrefs := g_nrefs g; g_warn := g_warn g ++ [WDup target] |}, false)
    else
      let auto := negb (isdigit target) in
      let f := {| f_label := target; f_auto := auto; f_body := body |} in
      ({| g_nameids := g_nameids g ++ [target];              (* note_explicit_target *)
          g_autofootnotes := if auto then g_autofootnotes g ++ [f] else g_autofootnotes g;
          g_footnotes := if auto then g_footnotes g else g_footnotes g ++ [f];
          g_autofootnote_refs := g_autofootnote_refs g; g_footnote_refs := g_footnote_refs g;
          g_allrefs := g_allrefs g; g_nrefs := g_nrefs g; g_warn := g_warn g |}, true).

  Definition render_refs (g : regs) (ls : list str) : regs := fold_left render_footnote_ref ls g.

  (* one block and, for a container, its blocks in order (the renderer's recursive walk) *)
  Fixpoint render_blk (g : regs) (b : blk) : regs * ltop :=
    match b with
    | BRefs ls => (render_refs g ls, LOther)
    | BDef l body rs =>
        let '(g1, kept) := render_footnote_reference g l body in
        if kept then (render_refs g1 rs, LFoot l) else (g1, LMsg)   (* a dropped definition is not rendered *)
    | BBox its =>
        let '(g1, ns) :=
          (fix go (g : regs) (its : list blk) : regs * list ltop :=
             match its with
             | [] => (g, [])
             | i :: its' =>
                 let '(g1, n) := render_blk g i in
                 let '(g2, ns) := go g1 its' in (g2, n :: ns)
             end) g its in
        (g1, LBox ns)
    end.

  Fixpoint render_doc (g : regs) (d : doc) : regs * list ltop :=
    match d with
    | [] => (g, [])
    | t :: d' =>
        let '(g1, n) := render_blk g t in
        let '(g2, ns) := render_doc g1 d' in (g2, n :: ns)
    end.

  (* ---- transforms.py: SortFootnotes ---- *)
  (* _sort_key: position of the label's first reference; a footnote nobody references sorts after
     every referenced one: len(ref_order)  ([legacy999] = the code before the fix: commit: 999) *)
  Definition sort_key (legacy999 : bool) (ref_order : list str) (f : fn) : nat :=
    match index_of (f_label f) ref_order with
    | Some i => i
    | None => if legacy999 then 999%nat else length ref_order
    end.

  Definition sort_footnotes (legacy999 footnote_sort : bool) (g : regs) : regs :=
    if negb footnote_sort then g else
    let ref_order := map r_label (g_autofootnote_refs g) in
    {| g_nameids := g_nameids g;
       g_autofootnotes := isort (sort_key legacy999 ref_order) Nat.leb (g_autofootnotes g);
       g_footnotes := g_footnotes g; g_autofootnote_refs := g_autofootnote_refs g;
       g_footnote_refs := g_footnote_refs g; g_allrefs := g_allrefs g; g_nrefs := g_nrefs g;
       g_warn := g_warn g |}.

  (* ---- docutils: Footnotes ---- *)

  (* while True: label = str(startnum); startnum += 1; if label not in nameids: break *)
  Fixpoint next_label (nameids : list str) (fuel : nat) (startnum : N) : res (str * N * N) :=
    match fuel with
    | O => Raise OutOfFuel
    | S fuel' =>
        let label := show startnum in
        if mem_str label nameids then next_label nameids fuel' (startnum + 1)
        else Ok (label, startnum, startnum + 1)
    end.

  (* number_footnotes: every labelled autonumbered footnote gets the next free number; its
     references (footnote_refs[name]) get the same text, its id as refid, and are back-linked *)
  Fixpoint number_footnotes (g : regs) (fns : list fn) (startnum : N) : res (list fout) :=
    match fns with
    | [] => Ok []
    | f :: fns' =>
        do lab <- next_label (g_nameids g) (S (length (g_nameids g))) startnum;
        let '(label, num, startnum') := lab in
        do rest <- number_footnotes g fns' startnum';
        Ok ({| fo_fn := f; fo_display := label; fo_num := Some num;
               fo_backrefs := map r_idx (refs_of (g_footnote_refs g) (f_label f)) |} :: rest)
    end.

  (* resolve_footnotes_and_citations: manually numbered footnotes keep their label *)
  Definition resolve_footnotes (g : regs) : list fout :=
    map (fun f => {| fo_fn := f; fo_display := f_label f; fo_num := None;
                     fo_backrefs := map r_idx (refs_of (g_footnote_refs g) (f_label f)) |})
        (g_footnotes g).

  Fixpoint find_fout (l : str) (fs : list fout) : option fout :=
    match fs with
    | [] => None
    | f :: fs' => if str_eqb l (f_label (fo_fn f)) then Some f else find_fout l fs'
    end.

  (* what a reference looks like afterwards *)
  Definition ref_out (fs : list fout) (r : rf) : rout :=
    match find_fout (r_label r) fs with
    | Some f => {| ro_idx := r_idx r; ro_label := r_label r; ro_refid := Some (f_label (fo_fn f));
                   ro_text := Some (fo_display f) |}
    | None => {| ro_idx := r_idx r; ro_label := r_label r; ro_refid := None;
                 (* a manually numbered reference got its text when rendered *)
                 ro_text := if r_auto r then None else Some (r_label r) |}
    end.

  (* number_footnote_references: labelled references were resolved above; one that is left over
     (no definition) finds autofootnote_labels empty: one ERROR, then the loop stops *)
  Definition too_many (g : regs) : list warn :=
    if existsb (fun r => negb (mem_str (r_label r) (g_nameids g))) (g_autofootnote_refs g)
    then [WTooMany] else [].

  Record fstate := { s_regs : regs; s_manual : list fout; s_auto : list fout; s_layout : list ltop;
                     s_warn : list warn }.

  Definition docutils_footnotes (s : fstate) : res fstate :=
    let g := s_regs s in
    do autos <- number_footnotes g (g_autofootnotes g) 1;     (* autofootnote_start = 1 *)
    Ok {| s_regs := g; s_manual := resolve_footnotes g; s_auto := autos; s_layout := s_layout s;
          s_warn := s_warn s ++ too_many g |}.

  (* ---- transforms.py: UnreferencedFootnotesDetector ---- *)
  Definition unreferenced (s : fstate) : fstate :=
    let w1 := flat_map (fun f => match fo_backrefs f with [] => [WUnref (f_label (fo_fn f)) false] | _ => [] end)
                       (s_manual s) in
    let w2 := flat_map (fun f => match fo_backrefs f with [] => [WUnref (f_label (fo_fn f)) true] | _ => [] end)
                       (s_auto s) in
    {| s_regs := s_regs s; s_manual := s_manual s; s_auto := s_auto s; s_layout := s_layout s;
       s_warn := s_warn s ++ w1 ++ w2 |}.

  (* ---- transforms.py: CollectFootnotes ---- *)

  (* _sort_key: (0, int(label)) or, on ValueError, (1, label); tuples compare lexicographically *)
  Inductive ckey : Type := KInt (n : N) | KStr (s : str).

  Definition collect_key (f : fout) : ckey :=
    match int_of (fo_display f) with Some n => KInt n | None => KStr (fo_display f) end.

  Definition ckey_leb (a b : ckey) : bool :=
    match a, b with
    | KInt x, KInt y => x <=? y
    | KInt _, KStr _ => true
    | KStr _, KInt _ => false
    | KStr x, KStr y => str_leb x y
    end.

  Definition is_foot (n : ltop) : bool := match n with LFoot _ => true | _ => false end.

  (* footnote.parent.remove(footnote) for every registered footnote *)
  Fixpoint strip_top (n : ltop) : list ltop :=
    match n with
    | LFoot _ => []
    | LBox its => [LBox (flat_map strip_top its)]     (* from any depth *)
    | other => [other]
    end.

  Definition collect_footnotes (footnote_sort footnote_transition : bool) (s : fstate) : fstate :=
    if negb footnote_sort then s else
    let footnotes := s_manual s ++ s_auto s in     (* symbol_footnotes + footnotes + autofootnotes *)
    let trans :=
      match footnotes with
      | [] => []
      | _ => if footnote_transition && negb (forallb is_foot (s_layout s)) then [LTrans] else []
      end in
    let sorted := isort collect_key ckey_leb footnotes in
    {| s_regs := s_regs s; s_manual := s_manual s; s_auto := s_auto s;
       s_layout := flat_map strip_top (s_layout s ++ trans)
                   ++ map (fun f => LFoot (f_label (fo_fn f))) sorted;
       s_warn := s_warn s |}.

  (* docutils' Footnotes transform is external code: the pipeline takes it as a parameter; the
     theorems assume  O_footnotes_xform : forall s, footnotes_xform s = docutils_footnotes s  *)
  Variable footnotes_xform : fstate -> res fstate.

  (* ---- the transforms in priority order (docutils Transformer: sort by priority, stable) ---- *)
  Definition pipeline : list xform :=
    isort priority Z.leb (XFootnotes :: docutils_parser_transforms).

  Definition apply_xform (legacy999 footnote_sort footnote_transition : bool) (x : xform) (s : fstate) : res fstate :=
    match x with
    | XSortFootnotes =>
        Ok {| s_regs := sort_footnotes legacy999 footnote_sort (s_regs s); s_manual := s_manual s; s_auto := s_auto s;
              s_layout := s_layout s; s_warn := s_warn s |}
    | XFootnotes => footnotes_xform s
    | XUnreferencedFootnotesDetector => Ok (unreferenced s)
    | XCollectFootnotes => Ok (collect_footnotes footnote_sort footnote_transition s)
    | XResolveAnchorIds => Ok s
    end.

  Fixpoint apply_all (lg fs ft : bool) (xs : list xform) (s : fstate) : res fstate :=
    match xs with
    | [] => Ok s
    | x :: xs' => do s' <- apply_xform lg fs ft x s; apply_all lg fs ft xs' s'
    end.

  Definition run_with (legacy999 : bool) (xs : list xform) (footnote_sort footnote_transition : bool) (d : doc) : res result :=
    let '(g, layout) := render_doc regs0 d in
    let s0 := {| s_regs := g; s_manual := []; s_auto := []; s_layout := layout; s_warn := g_warn g |} in
    do s <- apply_all legacy999 footnote_sort footnote_transition xs s0;
    let foots := s_manual s ++ s_auto s in
    Ok {| x_refs := map (ref_out foots) (g_allrefs (s_regs s)); x_foots := foots;
          x_layout := s_layout s; x_warn := s_warn s |}.

  Definition run := run_with false pipeline.
  Definition run_legacy := run_with true pipeline.     (* SortFootnotes as it was: default key 999 *)
End Foot.
