(* Lemmas about the helpers of RUtil.v *)
From Coq Require Import List NArith Bool Lia Permutation Sorted.
From MV Require Import Base.PyStr Refs.RUtil.
Import ListNotations.
Open Scope N_scope.

(* ---------------------------------------------------------------- dict *)
Section DictLemmas.
  Context {V : Type}.
  Implicit Types d : list (str * V).

  Lemma dget_dset_same d k v : dget (dset d k v) k = Some v.
  Proof.
    induction d as [|[k' v'] d IH]; simpl.
    - rewrite str_eqb_refl. reflexivity.
    - destruct (str_eqb k k') eqn:E; simpl; rewrite E; auto.
  Qed.

  Lemma dget_dset_other d k k' v : k <> k' -> dget (dset d k v) k' = dget d k'.
  Proof.
    intro Hne. induction d as [|[k2 v2] d IH]; simpl.
    - destruct (str_eqb k' k) eqn:E; auto. apply str_eqb_eq in E. congruence.
    - destruct (str_eqb k k2) eqn:E; simpl.
      + apply str_eqb_eq in E. subst k2.
        destruct (str_eqb k' k) eqn:E2; auto. apply str_eqb_eq in E2. congruence.
      + destruct (str_eqb k' k2); auto.
  Qed.

  Lemma dget_In d k v : dget d k = Some v -> In (k, v) d.
  Proof.
    induction d as [|[k' v'] d IH]; simpl; [discriminate|].
    destruct (str_eqb k k') eqn:E; intro H.
    - apply str_eqb_eq in E. inversion H; subst. auto.
    - auto.
  Qed.

  Lemma dget_None_notin d k : dget d k = None -> ~ In k (map fst d).
  Proof.
    induction d as [|[k' v'] d IH]; simpl; auto.
    destruct (str_eqb k k') eqn:E; [discriminate|].
    intros H [H1|H1].
    - subst. rewrite str_eqb_refl in E. discriminate.
    - exact (IH H H1).
  Qed.

  Lemma notin_dget_None d k : ~ In k (map fst d) -> dget d k = None.
  Proof.
    induction d as [|[k' v'] d IH]; simpl; auto.
    intro H. destruct (str_eqb k k') eqn:E.
    - apply str_eqb_eq in E. subst. tauto.
    - apply IH. tauto.
  Qed.

  Lemma In_NoDup_dget d k v : NoDup (map fst d) -> In (k, v) d -> dget d k = Some v.
  Proof.
    induction d as [|[k' v'] d IH]; simpl; [tauto|].
    intros Hnd [H|H].
    - inversion H; subst. rewrite str_eqb_refl. reflexivity.
    - inversion Hnd; subst. destruct (str_eqb k k') eqn:E.
      + apply str_eqb_eq in E. subst. exfalso. apply H2.
        change k' with (fst (k', v)). apply in_map. exact H.
      + auto.
  Qed.

  Lemma dmem_true d k : dmem d k = true <-> exists v, dget d k = Some v.
  Proof.
    unfold dmem. destruct (dget d k); split; intro H; eauto; try discriminate.
    destruct H as [? H]. discriminate.
  Qed.

  Lemma dmem_false d k : dmem d k = false <-> dget d k = None.
  Proof. unfold dmem. destruct (dget d k); split; intro H; auto; discriminate. Qed.
End DictLemmas.

(* ---------------------------------------------------------------- string order *)
Lemma str_leb_refl a : str_leb a a = true.
Proof. induction a as [|x a IH]; simpl; auto. rewrite N.ltb_irrefl. exact IH. Qed.

Lemma str_leb_total a b : str_leb a b = true \/ str_leb b a = true.
Proof.
  revert b; induction a as [|x a IH]; intros [|y b]; simpl; auto.
  destruct (x <? y) eqn:E1; auto.
  destruct (y <? x) eqn:E2; auto.
Qed.

Lemma str_leb_trans a b c : str_leb a b = true -> str_leb b c = true -> str_leb a c = true.
Proof.
  revert b c; induction a as [|x a IH]; intros [|y b] [|z c]; simpl; auto; try discriminate.
  destruct (x <? y) eqn:E1.
  - intros _. destruct (y <? z) eqn:E2.
    + intros _. apply N.ltb_lt in E1, E2.
      assert (H : (x <? z) = true) by (apply N.ltb_lt; lia). rewrite H. reflexivity.
    + destruct (z <? y) eqn:E3; [discriminate|]. intros _.
      apply N.ltb_lt in E1. apply N.ltb_ge in E2, E3.
      assert (H : (x <? z) = true) by (apply N.ltb_lt; lia). rewrite H. reflexivity.
  - destruct (y <? x) eqn:E2; [discriminate|]. intro Hab.
    apply N.ltb_ge in E1, E2. assert (x = y) by lia. subst y.
    destruct (x <? z) eqn:E3; auto.
    destruct (z <? x) eqn:E4; [discriminate|]. apply IH. exact Hab.
Qed.

Lemma str_leb_antisym a b : str_leb a b = true -> str_leb b a = true -> a = b.
Proof.
  revert b; induction a as [|x a IH]; intros [|y b]; simpl; auto; try discriminate.
  destruct (x <? y) eqn:E1.
  - destruct (y <? x) eqn:E2.
    + apply N.ltb_lt in E1, E2. lia.
    + discriminate.
  - destruct (y <? x) eqn:E2; [discriminate|].
    apply N.ltb_ge in E1, E2. intros H1 H2. f_equal; [lia|]. apply IH; auto.
Qed.

(* ---------------------------------------------------------------- stable insertion sort *)
Section SortLemmas.
  Context {A K : Type}.
  Variable key : A -> K.
  Variable leb : K -> K -> bool.
  Hypothesis leb_total : forall a b, leb a b = true \/ leb b a = true.
  Hypothesis leb_trans : forall a b c, leb a b = true -> leb b c = true -> leb a c = true.

  Definition kle (x y : A) : Prop := leb (key x) (key y) = true.

  Lemma insert_perm x l : Permutation (x :: l) (insert key leb x l).
  Proof.
    induction l as [|y l IH]; simpl; auto.
    destruct (leb (key x) (key y)); auto.
    eapply perm_trans; [apply perm_swap|]. apply perm_skip. exact IH.
  Qed.

  Lemma isort_perm l : Permutation l (isort key leb l).
  Proof.
    induction l as [|x l IH]; simpl; auto.
    eapply perm_trans; [apply perm_skip; exact IH|]. apply insert_perm.
  Qed.

  Lemma insert_sorted x l : StronglySorted kle l -> StronglySorted kle (insert key leb x l).
  Proof.
    induction l as [|y l IH]; simpl; intro Hs.
    - constructor; constructor.
    - destruct (leb (key x) (key y)) eqn:E.
      + constructor; auto. constructor; auto.
        inversion Hs; subst. eapply Forall_impl; [|exact H2].
        intros a Ha. unfold kle in *. eapply leb_trans; eauto.
      + inversion Hs; subst. constructor; auto.
        assert (Hyx : kle y x).
        { unfold kle. destruct (leb_total (key x) (key y)); congruence. }
        apply (Permutation_Forall (insert_perm x l)). constructor; auto.
  Qed.

  Lemma isort_sorted l : StronglySorted kle (isort key leb l).
  Proof.
    induction l as [|x l IH]; simpl; [constructor|]. apply insert_sorted. exact IH.
  Qed.

  Lemma isort_In x l : In x (isort key leb l) <-> In x l.
  Proof.
    split; intro H.
    - eapply Permutation_in; [apply Permutation_sym, isort_perm|exact H].
    - eapply Permutation_in; [apply isort_perm|exact H].
  Qed.

  Lemma isort_length l : length (isort key leb l) = length l.
  Proof. symmetry. apply Permutation_length, isort_perm. Qed.

  (* a list that is already sorted is left as it is (stability, in the form needed) *)
  Lemma insert_head x l : Forall (kle x) l -> insert key leb x l = x :: l.
  Proof.
    destruct l as [|y l]; simpl; auto. intro H. inversion H; subst.
    unfold kle in H2. rewrite H2. reflexivity.
  Qed.

  Lemma isort_id l : StronglySorted kle l -> isort key leb l = l.
  Proof.
    induction 1 as [|x l Hs IH Hx]; simpl; auto. rewrite IH. apply insert_head. exact Hx.
  Qed.
End SortLemmas.

(* ---------------------------------------------------------------- str(int) is injective *)
Lemma dval_app s c : dval (s ++ [c]) = dval s * 10 + (c - 48).
Proof. unfold dval. rewrite fold_left_app. reflexivity. Qed.

Lemma fold_dval_acc s a :
  fold_left (fun a c => a * 10 + (c - 48)) s a = a * 10 ^ N.of_nat (length s) + dval s.
Proof.
  unfold dval. revert a. induction s as [|c s IH]; intro a.
  - simpl. lia.
  - cbn [fold_left length]. rewrite IH. rewrite (IH (0 * 10 + (c - 48))).
    rewrite Nat2N.inj_succ, N.pow_succ_r'. lia.
Qed.

Lemma dval_cons c s : dval (c :: s) = (c - 48) * 10 ^ N.of_nat (length s) + dval s.
Proof. unfold dval at 1. cbn [fold_left]. rewrite fold_dval_acc. lia. Qed.

Lemma show_fuel_val : forall fuel n acc,
  n < 2 ^ N.of_nat fuel ->
  dval (show_fuel fuel n acc) = n * 10 ^ N.of_nat (length acc) + dval acc.
Proof.
  induction fuel as [|f IH]; intros n acc Hn.
  - simpl in Hn. assert (n = 0) by lia. subst. simpl. lia.
  - cbn [show_fuel]. unfold digit.
    assert (Hmod : n mod 10 < 10) by (apply N.mod_lt; lia).
    assert (Hdiv : n = 10 * (n / 10) + n mod 10) by (apply N.div_mod; lia).
    set (q := n / 10) in *. set (m := n mod 10) in *.
    assert (Hd : 48 + m - 48 = m) by lia.
    destruct (q =? 0) eqn:E.
    + apply N.eqb_eq in E. rewrite dval_cons, Hd. rewrite E in Hdiv. lia.
    + apply N.eqb_neq in E.
      assert (Hq : q < 2 ^ N.of_nat f).
      { rewrite Nat2N.inj_succ, N.pow_succ_r' in Hn. lia. }
      rewrite (IH q (48 + m :: acc) Hq).
      rewrite dval_cons, Hd. cbn [length]. rewrite Nat2N.inj_succ, N.pow_succ_r'.
      set (p := 10 ^ N.of_nat (length acc)).
      rewrite Hdiv. lia.
Qed.

Lemma dval_show n : dval (show n) = n.
Proof.
  unfold show. rewrite show_fuel_val.
  - simpl. unfold dval. simpl. lia.
  - rewrite Nat2N.inj_succ, N2Nat.id.
    destruct n as [|p]; [simpl; lia|].
    apply N.log2_lt_pow2; lia.
Qed.

Lemma show_inj a b : show a = show b -> a = b.
Proof. intro H. rewrite <- (dval_show a), <- (dval_show b), H. reflexivity. Qed.
