(* The model-side operations that the source translation of ResolveAnchorIds.apply (gen/c09_src.py ->
   Gen/AnchorsSrc.v) maps Python constructs to.  This file IS the domain mapping: it is trusted to say what
   the docutils node / registry operations mean on the model types of Anchors.v. *)
From Coq Require Import List NArith Bool.
From MV Require Import Base.PyStr Base.Res Refs.RUtil Refs.Anchors.
Import ListNotations.
Open Scope N_scope.

(* d[k] : KeyError when absent ; d.get(k) : None when absent *)
Definition py_getitem {V} (d : list (str * V)) (k : str) : res V :=
  match dget d k with Some v => Ok v | None => Raise KeyError end.
Definition py_get {V} (d : list (str * V)) (k : str) : option V := dget d k.
(* subscripting None raises TypeError *)
Definition unwrap_typeerror {A} (o : option A) : res A :=
  match o with Some a => Ok a | None => Raise TypeError end.
(* l[0] *)
Definition py_hd (l : list str) : res str := match l with x :: _ => Ok x | [] => Raise IndexError end.
Definition py_child0 (n : dnode) : res dnode :=
  match n_children n with c :: _ => Ok c | [] => Raise IndexError end.
Definition nonempty_c (l : list dnode) : bool := match l with [] => false | _ => true end.

Definition is_kind (n : dnode) (k : kind) : bool := kind_eqb (n_kind n) k.        (* isinstance *)
Definition has_refid (n : dnode) : bool := match n_refid n with Some _ => true | None => false end.
Definition get_refid (n : dnode) : res str := match n_refid n with Some r => Ok r | None => Raise KeyError end.

Definition truthy_ostr (o : option str) : bool := match o with Some s => nonempty s | None => false end.
(* the text of a title known to be truthy (guard checked by the translator) *)
Definition ostr_val (o : option str) : str := match o with Some s => s | None => [] end.

(* the reference list handed to the model holds the references with id_link set *)
Definition r_id_link (r : ref) : bool := true.

(* the reference node while the loop body rewrites it *)
Record rstate := {
  st_refid : option str; st_children : bool; st_fill : option str; st_warn : list warning;
  st_msg : bool; st_pending : bool; st_pline : option N }.

Definition st_init (r : ref) : rstate :=
  {| st_refid := None; st_children := r_has_text r; st_fill := None; st_warn := []; st_msg := false;
     st_pending := false; st_pline := None |}.
Definition set_refid (st : rstate) (x : str) : rstate :=
  {| st_refid := Some x; st_children := st_children st; st_fill := st_fill st; st_warn := st_warn st;
     st_msg := st_msg st; st_pending := st_pending st; st_pline := st_pline st |}.
(* refnode += nodes.inline(x, x, classes=["std", "std-ref"]) *)
Definition add_inline (st : rstate) (x : str) : rstate :=
  {| st_refid := st_refid st; st_children := true; st_fill := Some x; st_warn := st_warn st;
     st_msg := st_msg st; st_pending := st_pending st; st_pline := st_pline st |}.
(* create_warning(.., line=.., append_to=refnode): nothing at all when the warning type is suppressed,
   else one warning is logged and its system_message becomes a child of the reference *)
Definition warn_append (suppressed : bool) (st : rstate) (line : option N) (target : str) : rstate :=
  if suppressed then st else
  {| st_refid := st_refid st; st_children := true; st_fill := st_fill st;
     st_warn := st_warn st ++ [{| w_line := line; w_target := target |}];
     st_msg := true; st_pending := st_pending st; st_pline := st_pline st |}.
Definition set_pline (st : rstate) (l : option N) : rstate :=
  {| st_refid := st_refid st; st_children := st_children st; st_fill := st_fill st; st_warn := st_warn st;
     st_msg := st_msg st; st_pending := st_pending st; st_pline := l |}.
Definition set_pending (st : rstate) : rstate :=
  {| st_refid := st_refid st; st_children := st_children st; st_fill := st_fill st; st_warn := st_warn st;
     st_msg := st_msg st; st_pending := true; st_pline := st_pline st |}.

Definition finish (r : ref) (st : rstate) : rout :=
  {| o_frag := r_frag r; o_refid := st_refid st; o_fill := st_fill st; o_warn := st_warn st;
     o_msg := st_msg st; o_pending := st_pending st; o_pline := st_pline st |}.
