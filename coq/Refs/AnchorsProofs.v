(* Proofs about the ResolveAnchorIds model (Anchors.v). *)
From Coq Require Import List NArith Bool Lia.
From MV Require Import Base.PyStr Base.Res Refs.RUtil Refs.RUtilProofs Refs.Anchors.
Import ListNotations.
Open Scope N_scope.

(* ---- declarative reading of one entry of the [explicit] table ---- *)

(* the node an explicit name finally denotes, and the label id used for it *)
Definition denoted (rg : registries) (labelid : str) : res (dnode * str) :=
  match dget (ids rg) labelid with
  | None => Raise KeyError
  | Some node =>
      match n_kind node, n_refid node with
      | KTarget, Some rid =>
          match dget (ids rg) rid with
          | None => Raise TypeError
          | Some node2 => match n_names node2 with [] => Raise IndexError | nm :: _ => Ok (node2, nm) end
          end
      | _, _ => Ok (node, labelid)
      end
  end.

(* entry rg name = what a name flagged explicit contributes: nothing (invalidated id, footnote,
   refuri, desc_ node) or (label id, implicit title) *)
Definition entry (lr : bool) (rg : registries) (name : str) : res (option (str * option str)) :=
  match dget (nameids rg) name with
  | None => Raise KeyError
  | Some None => Ok None
  | Some (Some labelid) =>
      do nl <- denoted rg labelid;
      let '(node, lid) := nl in
      if skipped lr node then Ok None else Ok (Some (lid, implicit_title_of node))
  end.

Lemma explicit_step_entry lr rg acc name :
  explicit_step lr rg acc name true =
  match entry lr rg name with
  | Raise e => Raise e
  | Ok None => Ok acc
  | Ok (Some v) => Ok (dset acc name v)
  end.
Proof.
  unfold explicit_step, entry, denoted. simpl.
  destruct (dget (nameids rg) name) as [[labelid|]|]; auto.
  destruct (dget (ids rg) labelid) as [node|]; auto.
  destruct (n_kind node), (n_refid node) as [rid|]; simpl;
    try (destruct (skipped lr node); reflexivity).
  destruct (dget (ids rg) rid) as [node2|]; auto.
  destruct (n_names node2) as [|nm ?]; auto. simpl.
  destruct (skipped lr node2); reflexivity.
Qed.

Lemma explicit_step_implicit lr rg acc name : explicit_step lr rg acc name false = Ok acc.
Proof. reflexivity. Qed.

(* invariant of the loop *)
Lemma build_from_spec lr rg : forall nts acc ex,
  NoDup (map fst nts) ->
  (forall k, In k (map fst nts) -> dget acc k = None) ->
  build_explicit_from lr rg nts acc = Ok ex ->
  forall name,
    dget ex name =
    match dget acc name with
    | Some v => Some v
    | None =>
        match dget nts name with
        | Some true => match entry lr rg name with Ok (Some v) => Some v | _ => None end
        | _ => None
        end
    end.
Proof.
  induction nts as [|[k ie] nts IH]; intros acc ex Hnd Hfresh Hb name; simpl in *.
  - inversion Hb; subst. destruct (dget ex name); auto.
  - inversion Hnd as [|? ? Hk Hnd']; subst.
    destruct (explicit_step lr rg acc k ie) as [acc'|e] eqn:Es; simpl in Hb; [|discriminate].
    assert (Hacc' : forall k', k' <> k -> dget acc' k' = dget acc k').
    { intros k' Hne. destruct ie.
      - rewrite explicit_step_entry in Es.
        destruct (entry lr rg k) as [[v|]|]; inversion Es; subst; auto.
        apply dget_dset_other. congruence.
      - rewrite explicit_step_implicit in Es. inversion Es; subst. reflexivity. }
    assert (Hfresh' : forall k', In k' (map fst nts) -> dget acc' k' = None).
    { intros k' Hin. rewrite Hacc'; [apply Hfresh; auto|]. intro; subst. contradiction. }
    rewrite (IH acc' ex Hnd' Hfresh' Hb name).
    destruct (str_eqb name k) eqn:Enk.
    + apply str_eqb_eq in Enk. subst name.
      rewrite (notin_dget_None nts k Hk).
      rewrite (Hfresh k (or_introl eq_refl)).
      destruct ie.
      * rewrite explicit_step_entry in Es.
        destruct (entry lr rg k) as [[v|]|]; inversion Es; subst.
        -- rewrite dget_dset_same. reflexivity.
        -- rewrite (Hfresh k (or_introl eq_refl)). reflexivity.
      * rewrite explicit_step_implicit in Es. inversion Es; subst.
        rewrite (Hfresh k (or_introl eq_refl)). reflexivity.
    + assert (name <> k) by (apply str_eqb_neq; exact Enk).
      rewrite Hacc' by assumption. reflexivity.
Qed.

(* the explicit table holds exactly the names flagged explicit whose id is valid and whose node
   is not a footnote / refuri target / desc_ node *)
Lemma build_explicit_spec lr rg ex :
  NoDup (map fst (nametypes rg)) ->
  build_explicit lr rg = Ok ex ->
  forall name,
    dget ex name =
    match dget (nametypes rg) name with
    | Some true => match entry lr rg name with Ok (Some v) => Some v | _ => None end
    | _ => None
    end.
Proof.
  intros Hnd Hb name. unfold build_explicit in Hb.
  rewrite (build_from_spec lr rg _ [] ex Hnd (fun _ _ => eq_refl) Hb name). reflexivity.
Qed.

(* ---- the reference loop ---- *)
Section ResolveFacts.
  Variable normalizeLink : str -> str.
  Variable sphinx suppressed slug_hash : bool.
  Notation resolve := (resolve_one normalizeLink sphinx suppressed slug_hash).

  Lemma explicit_wins ex slugs r lid title :
    dget ex (r_frag r) = Some (lid, title) ->
    o_refid (resolve ex slugs r) = Some lid /\ o_warn (resolve ex slugs r) = [] /\
    o_pending (resolve ex slugs r) = false /\ o_msg (resolve ex slugs r) = false.
  Proof. intro H. unfold resolve_one. rewrite H. simpl. auto. Qed.

  Lemma slug_second ex slugs r line sid title :
    dget ex (r_frag r) = None ->
    dget slugs (r_frag r) = Some (line, sid, title) ->
    o_refid (resolve ex slugs r) = Some sid /\ o_warn (resolve ex slugs r) = [] /\
    o_pending (resolve ex slugs r) = false /\ o_msg (resolve ex slugs r) = false.
  Proof. intros H1 H2. unfold resolve_one. rewrite H1, H2. simpl. auto. Qed.

  Lemma frag_kept ex slugs r : o_frag (resolve ex slugs r) = r_frag r.
  Proof.
    unfold resolve_one. destruct (dget ex (r_frag r)) as [[? ?]|]; auto.
    destruct (dget slugs (r_frag r)) as [[[? ?] ?]|]; auto.
    destruct sphinx; auto.
  Qed.

  Lemma text_kept ex slugs r : r_has_text r = true -> o_fill (resolve ex slugs r) = None.
  Proof.
    intro H. unfold resolve_one. rewrite H.
    destruct (dget ex (r_frag r)) as [[? ?]|]; auto.
    destruct (dget slugs (r_frag r)) as [[[? ?] ?]|]; auto.
    destruct sphinx; auto.
  Qed.

  Lemma fill_explicit ex slugs r lid title :
    r_has_text r = false ->
    dget ex (r_frag r) = Some (lid, title) ->
    o_fill (resolve ex slugs r) =
    Some (match title with
          | Some t => if nonempty t then t else s_hash ++ r_frag r
          | None => s_hash ++ r_frag r
          end).
  Proof.
    intros Ht H. unfold resolve_one. rewrite H, Ht. simpl.
    destruct title as [t|]; auto. destruct (nonempty t); auto.
  Qed.

  Lemma fill_slug ex slugs r line sid title :
    r_has_text r = false ->
    dget ex (r_frag r) = None ->
    dget slugs (r_frag r) = Some (line, sid, title) ->
    o_fill (resolve ex slugs r) =
    if nonempty title then Some title
    else if slug_hash then Some (s_hash ++ r_frag r) else None.
  Proof. intros Ht H1 H2. unfold resolve_one. rewrite H1, H2, Ht. reflexivity. Qed.

  Lemma warns_iff_missing ex slugs r :
    o_warn (resolve ex slugs r) =
    if negb (dmem ex (r_frag r)) && negb (dmem slugs (r_frag r)) && negb sphinx && negb suppressed
    then [{| w_line := r_line r; w_target := r_frag r |}] else [].
  Proof.
    unfold resolve_one, dmem.
    destruct (dget ex (r_frag r)) as [[? ?]|]; auto.
    destruct (dget slugs (r_frag r)) as [[[? ?] ?]|]; auto.
    destruct sphinx; auto. destruct suppressed; auto.
  Qed.

  Lemma warnings_filter ex slugs refs :
    warnings_of (map (resolve ex slugs) refs) =
    map (fun r => {| w_line := r_line r; w_target := r_frag r |})
        (filter (fun r => negb (dmem ex (r_frag r)) && negb (dmem slugs (r_frag r))
                          && negb sphinx && negb suppressed) refs).
  Proof.
    unfold warnings_of. induction refs as [|r refs IH]; simpl; auto.
    rewrite IH, warns_iff_missing.
    destruct (negb (dmem ex (r_frag r)) && negb (dmem slugs (r_frag r)) && negb sphinx && negb suppressed);
      reflexivity.
  Qed.
End ResolveFacts.

Lemma missing_docutils nl slug_hash ex slugs r :
  dget ex (r_frag r) = None -> dget slugs (r_frag r) = None ->
  let o := resolve_one nl false false slug_hash ex slugs r in
  o_warn o = [{| w_line := r_line r; w_target := r_frag r |}] /\
  o_refid o = Some (nl (r_frag r)) /\ o_fill o = None /\ o_msg o = true /\ o_pending o = false.
Proof.
  intros H1 H2. unfold resolve_one. rewrite H1, H2. simpl.
  rewrite orb_true_r. auto.
Qed.

Lemma missing_suppressed nl slug_hash ex slugs r :
  dget ex (r_frag r) = None -> dget slugs (r_frag r) = None ->
  let o := resolve_one nl false true slug_hash ex slugs r in
  o_warn o = [] /\ o_refid o = Some (nl (r_frag r)) /\ o_msg o = false /\
  o_fill o = if r_has_text r then None else Some (s_hash ++ r_frag r).
Proof.
  intros H1 H2. unfold resolve_one. rewrite H1, H2. simpl.
  rewrite orb_false_r. destruct (r_has_text r); auto.
Qed.

Lemma missing_sphinx nl suppressed slug_hash ex slugs r :
  dget ex (r_frag r) = None -> dget slugs (r_frag r) = None ->
  let o := resolve_one nl true suppressed slug_hash ex slugs r in
  o_pending o = true /\ o_warn o = [] /\ o_refid o = None /\ o_fill o = None /\ o_pline o = r_line r.
Proof. intros H1 H2. unfold resolve_one. rewrite H1, H2. simpl. auto 6. Qed.

Lemma apply_ok nl sphinx suppressed slug_hash lr rg slugs refs outs :
  apply nl sphinx suppressed slug_hash lr rg slugs refs = Ok outs ->
  exists ex, build_explicit lr rg = Ok ex /\
             outs = map (resolve_one nl sphinx suppressed slug_hash ex slugs) refs.
Proof.
  unfold apply. destruct (build_explicit lr rg) as [ex|e]; simpl; [|discriminate].
  intro H. inversion H; subst. eauto.
Qed.

Lemma refs_preserved nl sphinx suppressed slug_hash lr rg slugs refs outs :
  apply nl sphinx suppressed slug_hash lr rg slugs refs = Ok outs ->
  length outs = length refs /\
  map o_frag outs = map r_frag refs /\
  Forall2 (fun r o => r_has_text r = true -> o_fill o = None) refs outs.
Proof.
  intro H. apply apply_ok in H as [ex [_ ->]].
  split; [apply map_length|]. split.
  - rewrite map_map. apply map_ext. intro r. apply frag_kept.
  - induction refs as [|r refs IH]; simpl; constructor; auto.
    intro Ht. apply text_kept. exact Ht.
Qed.

(* the code as it was before the fix: an empty link to a heading with an empty title stays empty *)
Lemma slug_empty_title_before_fix :
  exists nl slugs r,
    r_has_text r = false /\ dmem slugs (r_frag r) = true /\
    o_fill (resolve_one nl false false false [] slugs r) = None.
Proof.
  exists (fun s => s), [([], (Some 1, [115], []))],
         {| r_frag := []; r_has_text := false; r_line := Some 3 |}.
  vm_compute. auto.
Qed.

Lemma resolution_order nl sphinx suppressed slug_hash ex slugs r :
  (forall lid title, dget ex (r_frag r) = Some (lid, title) ->
     o_refid (resolve_one nl sphinx suppressed slug_hash ex slugs r) = Some lid /\
     o_warn (resolve_one nl sphinx suppressed slug_hash ex slugs r) = [] /\
     o_pending (resolve_one nl sphinx suppressed slug_hash ex slugs r) = false /\
     o_msg (resolve_one nl sphinx suppressed slug_hash ex slugs r) = false) /\
  (forall line sid title, dget ex (r_frag r) = None ->
     dget slugs (r_frag r) = Some (line, sid, title) ->
     o_refid (resolve_one nl sphinx suppressed slug_hash ex slugs r) = Some sid /\
     o_warn (resolve_one nl sphinx suppressed slug_hash ex slugs r) = [] /\
     o_pending (resolve_one nl sphinx suppressed slug_hash ex slugs r) = false /\
     o_msg (resolve_one nl sphinx suppressed slug_hash ex slugs r) = false).
Proof.
  split; intros.
  - eapply explicit_wins; eauto.
  - eapply slug_second; eauto.
Qed.

Lemma implicit_text nl sphinx suppressed ex slugs r :
  r_has_text r = false ->
  (forall lid title, dget ex (r_frag r) = Some (lid, title) ->
     o_fill (resolve_one nl sphinx suppressed true ex slugs r) =
     Some (match title with
           | Some t => if nonempty t then t else s_hash ++ r_frag r
           | None => s_hash ++ r_frag r
           end)) /\
  (forall line sid title, dget ex (r_frag r) = None ->
     dget slugs (r_frag r) = Some (line, sid, title) ->
     o_fill (resolve_one nl sphinx suppressed true ex slugs r) =
     Some (if nonempty title then title else s_hash ++ r_frag r)).
Proof.
  intro Ht. split; intros.
  - eapply fill_explicit; eauto.
  - erewrite fill_slug by eauto. destruct (nonempty title); reflexivity.
Qed.

(* an empty link to a missing target ends up with a system message and no visible text
   (the "#target" fallback is only reached when the warning is suppressed) *)
Lemma missing_empty_text_not_filled :
  exists nl r, r_has_text r = false /\
    let o := resolve_one nl false false true [] [] r in
    o_fill o = None /\ o_msg o = true /\ o_refid o = Some (nl (r_frag r)).
Proof.
  exists (fun s => s), {| r_frag := [120]; r_has_text := false; r_line := Some 1 |}.
  vm_compute. auto.
Qed.

(* before the fix an id attribute on an external link ([t](https://..){#x}) was not a target *)
Lemma attr_id_on_link_before_fix :
  exists rg name,
    dget (nametypes rg) name = Some true /\
    (exists ex, build_explicit true rg = Ok ex /\ dget ex name = None) /\
    (exists ex v, build_explicit false rg = Ok ex /\ dget ex name = Some v).
Proof.
  exists {| nametypes := [([120], true)]; nameids := [([120], Some [120])];
            ids := [([120], DN [114;101;102;101;114;101;110;99;101] KOther None true [[120]] [116] [])] |}, [120].
  vm_compute. split; [reflexivity|]. split; eexists; [|eexists]; split; reflexivity.
Qed.
