(* The model-side operations that the source translation of docutils' Footnotes transform
   (gen/c11_docutils.py -> Gen/DocutilsFootSrc.v, from the INSTALLED docutils/transforms/references.py) maps
   Python constructs to.  This file IS the domain mapping and is trusted.  The transform mutates footnote and
   footnote_reference nodes; the mutations are recorded as logs (who got which label / refid / text / backref). *)
From Coq Require Import List NArith Bool.
From MV Require Import Base.PyStr Base.Res Refs.RUtil Gen.Transforms Refs.Foot Refs.FootOps.
Import ListNotations.
Open Scope N_scope.

Record dstate := {
  ds_regs : regs;                     (* the document registries *)
  ds_labels : list (str * str);       (* footnote.insert(0, nodes.label('', label)) : footnote (by its name) -> label text *)
  ds_backlog : list (str * nat);      (* footnote.add_backref(ref['ids'][0]) : (footnote, reference index), in order *)
  ds_text : list (nat * str);         (* ref += nodes.Text(label) *)
  ds_refid : list (nat * str);        (* ref['refid'] = id  (the id of a footnote is modelled by its name) *)
  ds_norefname : list nat;            (* ref.delattr('refname') *)
  ds_resolved : list nat;             (* ref.resolved = 1 *)
  ds_problem : list nat;              (* ref.replace_self(problematic) *)
  ds_autolabels : list str;           (* self.autofootnote_labels *)
  ds_errors : list warn }.

Definition ds_init (g : regs) : dstate :=
  {| ds_regs := g; ds_labels := []; ds_backlog := []; ds_text := []; ds_refid := []; ds_norefname := [];
     ds_resolved := []; ds_problem := []; ds_autolabels := []; ds_errors := [] |}.

Definition upd (ds : dstate) (labels : list (str * str)) (backlog : list (str * nat)) (text : list (nat * str))
           (refid : list (nat * str)) (norefname resolved problem : list nat) (autolabels : list str)
           (errors : list warn) (g : regs) : dstate :=
  {| ds_regs := g; ds_labels := labels; ds_backlog := backlog; ds_text := text; ds_refid := refid;
     ds_norefname := norefname; ds_resolved := resolved; ds_problem := problem; ds_autolabels := autolabels;
     ds_errors := errors |}.

Definition set_label (ds : dstate) (f : fn) (label : str) : dstate :=
  upd ds (ds_labels ds ++ [(f_label f, label)]) (ds_backlog ds) (ds_text ds) (ds_refid ds) (ds_norefname ds)
      (ds_resolved ds) (ds_problem ds) (ds_autolabels ds) (ds_errors ds) (ds_regs ds).
Definition ref_add_text (ds : dstate) (r : rf) (t : str) : dstate :=
  upd ds (ds_labels ds) (ds_backlog ds) (ds_text ds ++ [(r_idx r, t)]) (ds_refid ds) (ds_norefname ds)
      (ds_resolved ds) (ds_problem ds) (ds_autolabels ds) (ds_errors ds) (ds_regs ds).
Definition ref_del_refname (ds : dstate) (r : rf) : dstate :=
  upd ds (ds_labels ds) (ds_backlog ds) (ds_text ds) (ds_refid ds) (ds_norefname ds ++ [r_idx r])
      (ds_resolved ds) (ds_problem ds) (ds_autolabels ds) (ds_errors ds) (ds_regs ds).
Definition ref_set_refid (ds : dstate) (r : rf) (id : str) : dstate :=
  upd ds (ds_labels ds) (ds_backlog ds) (ds_text ds) (ds_refid ds ++ [(r_idx r, id)]) (ds_norefname ds)
      (ds_resolved ds) (ds_problem ds) (ds_autolabels ds) (ds_errors ds) (ds_regs ds).
Definition add_backref (ds : dstate) (f : fn) (r : rf) : dstate :=
  upd ds (ds_labels ds) (ds_backlog ds ++ [(f_label f, r_idx r)]) (ds_text ds) (ds_refid ds) (ds_norefname ds)
      (ds_resolved ds) (ds_problem ds) (ds_autolabels ds) (ds_errors ds) (ds_regs ds).
Definition ref_set_resolved (ds : dstate) (r : rf) : dstate :=
  upd ds (ds_labels ds) (ds_backlog ds) (ds_text ds) (ds_refid ds) (ds_norefname ds)
      (ds_resolved ds ++ [r_idx r]) (ds_problem ds) (ds_autolabels ds) (ds_errors ds) (ds_regs ds).
Definition mark_problematic (ds : dstate) (r : rf) : dstate :=
  upd ds (ds_labels ds) (ds_backlog ds) (ds_text ds) (ds_refid ds) (ds_norefname ds)
      (ds_resolved ds) (ds_problem ds ++ [r_idx r]) (ds_autolabels ds) (ds_errors ds) (ds_regs ds).
Definition add_autolabel (ds : dstate) (label : str) : dstate :=
  upd ds (ds_labels ds) (ds_backlog ds) (ds_text ds) (ds_refid ds) (ds_norefname ds)
      (ds_resolved ds) (ds_problem ds) (ds_autolabels ds ++ [label]) (ds_errors ds) (ds_regs ds).
Definition reset_autolabels (ds : dstate) : dstate :=
  upd ds (ds_labels ds) (ds_backlog ds) (ds_text ds) (ds_refid ds) (ds_norefname ds)
      (ds_resolved ds) (ds_problem ds) [] (ds_errors ds) (ds_regs ds).
Definition add_error (ds : dstate) (w : warn) : dstate :=
  upd ds (ds_labels ds) (ds_backlog ds) (ds_text ds) (ds_refid ds) (ds_norefname ds)
      (ds_resolved ds) (ds_problem ds) (ds_autolabels ds) (ds_errors ds ++ [w]) (ds_regs ds).
(* an unnamed auto-numbered footnote takes its number as name (never the case for MyST documents) *)
Definition name_anonymous (ds : dstate) (f : fn) (label : str) : dstate :=
  upd ds (ds_labels ds) (ds_backlog ds) (ds_text ds) (ds_refid ds) (ds_norefname ds)
      (ds_resolved ds) (ds_problem ds) (ds_autolabels ds) (ds_errors ds)
      (note_explicit_target (ds_regs ds) (fn_add_name f label)).

Definition ref_resolved (ds : dstate) (r : rf) : bool := mem_nat (r_idx r) (ds_resolved ds).
Definition ref_has_refid (ds : dstate) (r : rf) : bool := mem_nat (r_idx r) (map fst (ds_refid ds)).
Definition ref_has_refname (ds : dstate) (r : rf) : bool := negb (mem_nat (r_idx r) (ds_norefname ds)).

(* document.nameids[label] / document.ids[id] for a footnote (ids are modelled by names) *)
Definition nameid_lookup (ds : dstate) (label : str) : res str :=
  if mem_str label (g_nameids (ds_regs ds)) then Ok label else Raise KeyError.
Definition foot_by_id (ds : dstate) (id : str) : res fn :=
  match find (fun f => str_eqb id (f_label f)) (g_autofootnotes (ds_regs ds) ++ g_footnotes (ds_regs ds)) with
  | Some f => Ok f | None => Raise KeyError end.

(* the `while True` of number_footnotes ends after at most |nameids|+1 rounds (FootProofs.next_label_total) *)
Definition label_fuel (ds : dstate) : nat := S (length (g_nameids (ds_regs ds))).

(* ---- reading the result off the logs ---- *)
Definition label_of (ds : dstate) (f : fn) : str :=
  match dget (ds_labels ds) (f_label f) with Some l => l | None => [] end.
Definition backrefs_of (ds : dstate) (f : fn) : list nat :=
  map snd (filter (fun p => str_eqb (fst p) (f_label f)) (ds_backlog ds)).
Definition auto_out (ds : dstate) (f : fn) : fout :=
  {| fo_fn := f; fo_display := label_of ds f; fo_num := Some (dval (label_of ds f)); fo_backrefs := backrefs_of ds f |}.
Definition manual_out (ds : dstate) (f : fn) : fout :=
  {| fo_fn := f; fo_display := f_label f; fo_num := None; fo_backrefs := backrefs_of ds f |}.
Definition ref_result (ds : dstate) (r : rf) : rout :=
  {| ro_idx := r_idx r; ro_label := r_label r; ro_refid := assoc_nat (ds_refid ds) (r_idx r);
     ro_text := match assoc_nat (ds_text ds) (r_idx r) with
                | Some t => Some t
                | None => if r_auto r then None else Some (r_label r)   (* render_footnote_ref put the label in *)
                end |}.

Definition fn_id (f : fn) : str := f_label f.          (* node['ids'][0]: ids are modelled by names *)
Definition autofootnote_start : N := 1.                (* document.autofootnote_start: docutils' default *)

(* the state of the pipeline after the translated transform: results read off the logs *)
Definition project (s : fstate) (ds : dstate) : fstate :=
  {| s_regs := s_regs s; s_manual := map (manual_out ds) (g_footnotes (s_regs s));
     s_auto := map (auto_out ds) (g_autofootnotes (s_regs s)); s_layout := s_layout s;
     s_warn := s_warn s ++ ds_errors ds |}.

(* field setters used by the translation of docutils/nodes.py: the note_ methods of class document *)
Definition set_footnotes (g : regs) (l : list fn) : regs :=
  {| g_nameids := g_nameids g; g_autofootnotes := g_autofootnotes g; g_footnotes := l;
     g_autofootnote_refs := g_autofootnote_refs g; g_footnote_refs := g_footnote_refs g;
     g_allrefs := g_allrefs g; g_nrefs := g_nrefs g; g_warn := g_warn g |}.
Definition set_autofootnote_refs (g : regs) (l : list rf) : regs :=
  {| g_nameids := g_nameids g; g_autofootnotes := g_autofootnotes g; g_footnotes := g_footnotes g;
     g_autofootnote_refs := l; g_footnote_refs := g_footnote_refs g;
     g_allrefs := g_allrefs g; g_nrefs := g_nrefs g; g_warn := g_warn g |}.
Definition set_footnote_refs (g : regs) (d : list (str * list rf)) : regs :=
  {| g_nameids := g_nameids g; g_autofootnotes := g_autofootnotes g; g_footnotes := g_footnotes g;
     g_autofootnote_refs := g_autofootnote_refs g; g_footnote_refs := d;
     g_allrefs := g_allrefs g; g_nrefs := g_nrefs g; g_warn := g_warn g |}.
Definition set_nameids (g : regs) (l : list str) : regs :=
  {| g_nameids := l; g_autofootnotes := g_autofootnotes g; g_footnotes := g_footnotes g;
     g_autofootnote_refs := g_autofootnote_refs g; g_footnote_refs := g_footnote_refs g;
     g_allrefs := g_allrefs g; g_nrefs := g_nrefs g; g_warn := g_warn g |}.
