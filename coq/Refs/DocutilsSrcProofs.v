(* docutils' Footnotes transform as translated from the installed source (Gen/DocutilsFootSrc.v) against its
   transcription in Foot.v.  Proved here: number_footnotes (the numbering loop with its `while True`, the label
   and the resolution of the labelled references) computes exactly Foot.number_footnotes and logs exactly its
   labels, back-references, reference ids and texts; an anonymous footnote is never named (MyST footnotes always
   carry their label).  The remaining methods (number_footnote_references and the resolve methods) are tied to the
   transcription by running both, extracted, on every enumerated registry (props/C11.py corr_docutils_only). *)
From Coq Require Import List NArith Bool Lia PeanoNat Permutation.
From MV Require Import Base.PyStr Base.Res Refs.RUtil Refs.RUtilProofs Gen.Transforms Refs.Foot Refs.FootOps
                       Refs.FootProofs Refs.DocutilsOps Gen.DocutilsFootSrc.
Import ListNotations.
Open Scope N_scope.

Lemma fold_res_ok {S A} (g : S -> A -> S) l : forall s, fold_res (fun s x => Ok (g s x)) l s = Ok (fold_left g l s).
Proof. induction l as [|x l IH]; intro s; simpl; auto. Qed.

Lemma fold_res_ext' {S A} (f g : S -> A -> res S) l : (forall s x, f s x = g s x) -> forall s, fold_res f l s = fold_res g l s.
Proof. intro H. induction l as [|x l IH]; intro s; simpl; auto. rewrite H. destruct (g s x); simpl; auto. Qed.

(* what the innermost loop body of number_footnotes does to one reference *)
Definition touch (label : str) (f : fn) (ds : dstate) (r : rf) : dstate :=
  ref_set_resolved (add_backref (ref_set_refid (ref_del_refname (ref_add_text ds r label) r) r (fn_id f)) f r) r.

Definition touched (label : str) (f : fn) (ds : dstate) (refs : list rf) : dstate :=
  upd ds (ds_labels ds)
      (ds_backlog ds ++ map (fun r => (f_label f, r_idx r)) refs)
      (ds_text ds ++ map (fun r => (r_idx r, label)) refs)
      (ds_refid ds ++ map (fun r => (r_idx r, f_label f)) refs)
      (ds_norefname ds ++ map r_idx refs) (ds_resolved ds ++ map r_idx refs)
      (ds_problem ds) (ds_autolabels ds) (ds_errors ds) (ds_regs ds).

Lemma touched_nil label f ds : touched label f ds [] = ds.
Proof. unfold touched, upd. simpl. rewrite !app_nil_r. destruct ds; reflexivity. Qed.

Lemma touch_all label f refs : forall ds, fold_left (touch label f) refs ds = touched label f ds refs.
Proof.
  induction refs as [|r refs IH]; intro ds; simpl; [symmetry; apply touched_nil|].
  rewrite IH. unfold touched, touch, ref_set_resolved, add_backref, ref_set_refid, ref_del_refname, ref_add_text, upd, fn_id.
  simpl. rewrite <- !app_assoc. reflexivity.
Qed.

(* the `while True` loop is Foot.next_label *)
Lemma while_next ids : forall fuel l0 n,
  while_res fuel (fun '(label, startnum) =>
      let label := show startnum in let startnum := (startnum + 1)%N in
      if negb (mem_str label ids) then Ok ((label, startnum), true) else Ok ((label, startnum), false)) (l0, n)
  = match next_label ids fuel n with Ok (label, _, nxt) => Ok (label, nxt) | Raise e => Raise e end.
Proof.
  induction fuel as [|f IH]; intros l0 n; simpl; auto.
  destruct (mem_str (show n) ids); simpl; auto.
Qed.

(* the logs after a list of auto-numbered footnotes has been processed *)
Definition after_auto (ds : dstate) (outs : list fout) : dstate :=
  upd ds (ds_labels ds ++ map (fun o => (f_label (fo_fn o), fo_display o)) outs)
      (ds_backlog ds ++ flat_map (fun o => map (fun i => (f_label (fo_fn o), i)) (fo_backrefs o)) outs)
      (ds_text ds ++ flat_map (fun o => map (fun i => (i, fo_display o)) (fo_backrefs o)) outs)
      (ds_refid ds ++ flat_map (fun o => map (fun i => (i, f_label (fo_fn o))) (fo_backrefs o)) outs)
      (ds_norefname ds ++ flat_map fo_backrefs outs) (ds_resolved ds ++ flat_map fo_backrefs outs)
      (ds_problem ds) (ds_autolabels ds) (ds_errors ds) (ds_regs ds).

Lemma after_auto_nil ds : after_auto ds [] = ds.
Proof. unfold after_auto, upd. simpl. rewrite !app_nil_r. destruct ds; reflexivity. Qed.

(* one round of the outer loop of number_footnotes, with the innermost body folded into [touch] *)
Definition nf_step (st : dstate * N) (footnote : fn) : res (dstate * N) :=
  let '(ds, startnum) := st in
  do lab <- while_res (label_fuel ds) (fun '(label, startnum) =>
       let label := show startnum in let startnum := (startnum + 1)%N in
       if negb (mem_str label (g_nameids (ds_regs ds))) then Ok ((label, startnum), true)
       else Ok ((label, startnum), false)) ((@nil N), startnum);
  let '(label, startnum) := lab in
  Ok (touched label footnote (set_label ds footnote label)
              (refs_of (g_footnote_refs (ds_regs ds)) (f_label footnote)), startnum).

Fixpoint next_start (start : N) (outs : list fout) : N :=
  match outs with [] => start | o :: r => next_start (numv o + 1) r end.

Lemma nf_fold (fns : list fn) : forall (ds : dstate) (start : N),
  fold_res nf_step fns (ds, start)
  = match number_footnotes (ds_regs ds) fns start with
    | Ok outs => Ok (after_auto ds outs, next_start start outs)
    | Raise e => Raise e
    end.
Proof.
  induction fns as [|f fns IH]; intros ds start.
  - simpl. rewrite after_auto_nil. reflexivity.
  - cbn [fold_res number_footnotes]. unfold nf_step at 1. unfold label_fuel. rewrite while_next.
    destruct (next_label (g_nameids (ds_regs ds)) (S (length (g_nameids (ds_regs ds)))) start) as [[[label num] nxt]|e] eqn:En;
      cbn [bind]; [|reflexivity].
    set (ds1 := touched label f (set_label ds f label) (refs_of (g_footnote_refs (ds_regs ds)) (f_label f))).
    assert (Hregs1 : ds_regs ds1 = ds_regs ds) by reflexivity.
    rewrite (IH ds1 nxt), Hregs1.
    destruct (number_footnotes (ds_regs ds) fns nxt) as [rest|e]; cbn [bind]; [|reflexivity].
    apply next_label_ok in En as [_ [_ [Hn _]]]. subst nxt.
    f_equal. f_equal.
    subst ds1. unfold after_auto, touched, set_label, upd. simpl. rewrite !map_map, <- !app_assoc. reflexivity.
Qed.

(* the generated loop body is nf_step: the nested loops over footnote['names'] (one name) and its references
   collapse, and the branch for an unnamed footnote is never taken *)
Lemma generated_step_is_nf_step (st : dstate * N) (footnote : fn) :
  (let '(ds, startnum) := st in
   do lab <- while_res (label_fuel ds) (fun '(label, startnum) =>
        let label := show startnum in let startnum := (startnum + 1)%N in
        if negb (mem_str label (g_nameids (ds_regs ds))) then Ok ((label, startnum), true)
        else Ok ((label, startnum), false)) ((@nil N), startnum);
   let '(label, startnum) := lab in
   let ds := set_label ds footnote label in
   do ds <- fold_res (fun (ds : dstate) (name : str) =>
        do ds <- fold_res (fun (ds : dstate) (ref : rf) =>
             let ds := ref_add_text ds ref label in
             let ds := ref_del_refname ds ref in
             let ds := ref_set_refid ds ref (fn_id footnote) in
             let ds := add_backref ds footnote ref in
             let ds := ref_set_resolved ds ref in
             Ok ds) (refs_of (g_footnote_refs (ds_regs ds)) name) ds;
        Ok ds) (fn_names footnote) ds;
   if andb (negb (nonempty_l (fn_names footnote))) (negb (nonempty_l (fn_dupnames footnote))) then
     (let ds := name_anonymous ds footnote label in
      let ds := add_autolabel ds label in
      Ok (ds, startnum))
   else Ok (ds, startnum))
  = nf_step st footnote.
Proof.
  destruct st as [ds startnum]. unfold nf_step.
  destruct (while_res _ _ _) as [[label n]|e]; cbn [bind]; [|reflexivity].
  unfold fn_names. cbn [fold_res bind nonempty_l negb andb].
  change (fun (ds0 : dstate) (ref : rf) =>
            let ds1 := ref_add_text ds0 ref label in
            let ds2 := ref_del_refname ds1 ref in
            let ds3 := ref_set_refid ds2 ref (fn_id footnote) in
            let ds4 := add_backref ds3 footnote ref in
            let ds5 := ref_set_resolved ds4 ref in Ok ds5)
    with (fun (ds0 : dstate) (ref : rf) => Ok (touch label footnote ds0 ref)).
  rewrite fold_res_ok. cbn [bind]. change (fun (s : dstate) (x : rf) => ref_set_resolved (add_backref (ref_set_refid (ref_del_refname (ref_add_text s x label) x) x (fn_id footnote)) footnote x) x) with (touch label footnote). rewrite touch_all. reflexivity.
Qed.

Theorem number_footnotes_src_spec (ds : dstate) (start : N) :
  number_footnotes_src ds start
  = match number_footnotes (ds_regs ds) (g_autofootnotes (ds_regs ds)) start with
    | Ok outs => Ok (after_auto ds outs, next_start start outs)
    | Raise e => Raise e
    end.
Proof.
  unfold number_footnotes_src.
  rewrite (fold_res_ext' _ nf_step).
  - rewrite nf_fold. destruct (number_footnotes _ _ _); reflexivity.
  - intros st f. apply generated_step_is_nf_step.
Qed.

(* ================================================================ the remaining methods *)

Lemma mem_nat_In x l : mem_nat x l = true <-> In x l.
Proof.
  induction l as [|y l IH]; simpl; [split; [discriminate|tauto]|].
  rewrite orb_true_iff, IH, Nat.eqb_eq. split; intros [H|H]; auto.
Qed.

Lemma mem_nat_false x l : mem_nat x l = false <-> ~ In x l.
Proof.
  split; intro H.
  - intro Hin. apply mem_nat_In in Hin. congruence.
  - destruct (mem_nat x l) eqn:E; auto. apply mem_nat_In in E. contradiction.
Qed.

(* ---- number_footnote_references ---- *)
Definition nfr_inner (ds : dstate) (ref : rf) : res dstate :=
  if orb (ref_resolved ds ref) (ref_has_refname ds ref) then Ok ds
  else (let ds := mark_problematic ds ref in Ok ds).

Definition nfr_step (__st : dstate * nat * bool) (ref : rf) : res (dstate * nat * bool) :=
  let '(ds, i, __brk) := __st in
  if __brk then Ok (ds, i, __brk) else
  (if orb (ref_resolved ds ref) (ref_has_refid ds ref) then Ok (ds, i, __brk)
   else match nth_error (ds_autolabels ds) i with
        | Some label =>
            (let ds := ref_add_text ds ref label in
             do id <- nameid_lookup ds label;
             do footnote <- foot_by_id ds id;
             let ds := ref_set_refid ds ref id in
             let ds := add_backref ds footnote ref in
             let ds := ref_set_resolved ds ref in
             let i := S i in Ok (ds, i, __brk))
        | None =>
            (let ds := add_error ds WTooMany in
             do ds <- fold_res nfr_inner (skipn i (g_autofootnote_refs (ds_regs ds))) ds;
             Ok (ds, i, true))
        end).

Lemma nfr_unfold ds sn :
  number_footnote_references_src ds sn
  = do st <- fold_res nfr_step (g_autofootnote_refs (ds_regs ds)) (ds, O, false);
    let '(ds, i, __stopped) := st in Ok ds.
Proof. reflexivity. Qed.

Lemma nfr_stop L : forall ds i, fold_res nfr_step L (ds, i, true) = Ok (ds, i, true).
Proof. induction L as [|r L IH]; intros ds i; simpl; auto. Qed.

Lemma nfr_inner_noop L : forall ds,
  (forall r, orb (ref_resolved ds r) (ref_has_refname ds r) = true) -> fold_res nfr_inner L ds = Ok ds.
Proof.
  induction L as [|r L IH]; intros ds H; simpl; auto.
  unfold nfr_inner at 1. rewrite H. simpl. apply IH. exact H.
Qed.

Lemma nfr_run L : forall ds,
  ds_autolabels ds = [] ->
  (forall r, orb (ref_resolved ds r) (ref_has_refname ds r) = true) ->
  fold_res nfr_step L (ds, O, false)
  = Ok (if existsb (fun r => negb (orb (ref_resolved ds r) (ref_has_refid ds r))) L
        then (add_error ds WTooMany, O, true) else (ds, O, false)).
Proof.
  induction L as [|r L IH]; intros ds Hl Hp; simpl; auto.
  destruct (orb (ref_resolved ds r) (ref_has_refid ds r)) eqn:E; simpl.
  - apply IH; auto.
  - rewrite Hl. simpl.
    rewrite nfr_inner_noop by (intro r0; apply Hp). simpl. apply nfr_stop.
Qed.

(* ---- resolve_references ---- *)
Definition touch2 (f : fn) (ds : dstate) (r : rf) : dstate :=
  ref_set_resolved (add_backref (ref_set_refid (ref_del_refname ds r) r (fn_id f)) f r) r.

Definition touched2 (f : fn) (ds : dstate) (refs : list rf) : dstate :=
  upd ds (ds_labels ds)
      (ds_backlog ds ++ map (fun r => (f_label f, r_idx r)) refs)
      (ds_text ds)
      (ds_refid ds ++ map (fun r => (r_idx r, f_label f)) refs)
      (ds_norefname ds ++ map r_idx refs) (ds_resolved ds ++ map r_idx refs)
      (ds_problem ds) (ds_autolabels ds) (ds_errors ds) (ds_regs ds).

Lemma touched2_nil f ds : touched2 f ds [] = ds.
Proof. unfold touched2, upd. simpl. rewrite !app_nil_r. destruct ds; reflexivity. Qed.

Lemma resolve_references_spec f refs : forall ds,
  NoDup (ds_resolved ds ++ map r_idx refs) ->
  resolve_references_src ds f refs = Ok (touched2 f ds refs).
Proof.
  unfold resolve_references_src. cbv zeta.
  induction refs as [|r refs IH]; intros ds Hnd.
  - simpl. rewrite touched2_nil. reflexivity.
  - cbn [fold_res map] in *.
    assert (Hfresh : ref_resolved ds r = false).
    { unfold ref_resolved. apply mem_nat_false. intro Hin.
      apply NoDup_remove_2 in Hnd. apply Hnd. apply in_or_app. left. exact Hin. }
    rewrite Hfresh. cbn [bind].
    specialize (IH (touch2 f ds r)).
    unfold touch2 at 1 in IH.
    match goal with |- (do ds0 <- fold_res ?F refs ?D; Ok ds0) = _ =>
      change D with (touch2 f ds r) end.
    rewrite IH.
    + unfold touched2, touch2, ref_set_resolved, add_backref, ref_set_refid, ref_del_refname, upd, fn_id.
      simpl. rewrite <- !app_assoc. reflexivity.
    + unfold touch2, ref_set_resolved, add_backref, ref_set_refid, ref_del_refname, upd. simpl.
      rewrite <- app_assoc. simpl. exact Hnd.
Qed.

(* ================================================================ assembly: apply = the transcription *)
Lemma NoDup_map_unique {A B} (f : A -> B) (l : list A) x y :
  NoDup (map f l) -> In x l -> In y l -> f x = f y -> x = y.
Proof.
  induction l as [|a l IH]; simpl; [tauto|]. intros Hnd Hx Hy E. inversion Hnd; subst.
  destruct Hx as [->|Hx], Hy as [->|Hy]; auto.
  - exfalso. apply H1. rewrite E. apply in_map. exact Hy.
  - exfalso. apply H1. rewrite <- E. apply in_map. exact Hx.
Qed.

Lemma NoDup_map_filter {A B} (f : A -> B) (p : A -> bool) l : NoDup (map f l) -> NoDup (map f (filter p l)).
Proof.
  induction l as [|a l IH]; simpl; auto. intro H. inversion H; subst.
  destruct (p a); simpl; auto. constructor; auto.
  intro Hin. apply H2. apply in_map_iff in Hin as [x [E Hx]]. apply filter_In in Hx as [Hx _].
  rewrite <- E. apply in_map. exact Hx.
Qed.

Lemma NoDup_app_l {A} (a b : list A) : NoDup (a ++ b) -> NoDup a.
Proof.
  induction a as [|x a IH]; simpl; [constructor|]. intro H. inversion H; subst. constructor; auto.
  intro Hin. apply H2. apply in_or_app. left. exact Hin.
Qed.

Section Assembly.
  Variable isdigit : str -> bool.
  Variable g : regs.
  Hypothesis W : wf isdigit g.

  Definition idxs_of (ls : list str) : list nat :=
    flat_map (fun l => map r_idx (refs_of (g_footnote_refs g) l)) ls.

  Lemma idx_nodup : NoDup (map r_idx (g_allrefs g)).
  Proof. rewrite (wf_idx _ _ W). apply seq_NoDup. Qed.

  Lemma idxs_of_In i ls :
    In i (idxs_of ls) <-> exists r, In r (g_allrefs g) /\ r_idx r = i /\ In (r_label r) ls.
  Proof.
    unfold idxs_of. rewrite in_flat_map. split.
    - intros [l [Hl Hi]]. rewrite (wf_frefs _ _ W) in Hi. apply in_map_iff in Hi as [r [E Hr]].
      apply filter_In in Hr as [Hr Hlab]. apply str_eqb_eq in Hlab. exists r. subst. auto.
    - intros [r [Hr [E Hl]]]. exists (r_label r). split; auto. rewrite (wf_frefs _ _ W).
      apply in_map_iff. exists r. split; auto. apply filter_In. split; auto. apply str_eqb_refl.
  Qed.

  Lemma idxs_of_nodup ls : NoDup ls -> NoDup (idxs_of ls).
  Proof.
    induction ls as [|l ls IH]; intro H; [constructor|]. inversion H; subst.
    change (idxs_of (l :: ls)) with (map r_idx (refs_of (g_footnote_refs g) l) ++ idxs_of ls).
    apply NoDup_app_intro; auto.
    - rewrite (wf_frefs _ _ W). apply NoDup_map_filter, idx_nodup.
    - intros i Hi Hi2. rewrite (wf_frefs _ _ W) in Hi. apply in_map_iff in Hi as [r [E Hr]].
      apply filter_In in Hr as [Hr Hlab]. apply str_eqb_eq in Hlab.
      apply idxs_of_In in Hi2 as [r' [Hr' [E' Hl']]].
      assert (r = r') by (apply (NoDup_map_unique r_idx (g_allrefs g)); auto using idx_nodup; congruence).
      subst r'. rewrite Hlab in Hl'. contradiction.
  Qed.

  Lemma idxs_of_mem r ls : In r (g_allrefs g) -> mem_nat (r_idx r) (idxs_of ls) = mem_str (r_label r) ls.
  Proof.
    intro Hr. destruct (mem_str (r_label r) ls) eqn:E.
    - apply mem_nat_In, idxs_of_In. exists r. repeat split; auto. apply mem_str_In. exact E.
    - apply mem_nat_false. intro Hin. apply idxs_of_In in Hin as [r' [Hr' [E' Hl']]].
      assert (r' = r) by (apply (NoDup_map_unique r_idx (g_allrefs g)); auto using idx_nodup).
      subst r'. apply mem_str_In in Hl'. congruence.
  Qed.

  Lemma idxs_of_app a b : idxs_of (a ++ b) = idxs_of a ++ idxs_of b.
  Proof. unfold idxs_of. apply flat_map_app. Qed.

  (* ---- resolve_footnotes_and_citations ---- *)
  Definition after_manual (ds : dstate) (fs : list fn) : dstate :=
    upd ds (ds_labels ds)
        (ds_backlog ds ++ flat_map (fun f => map (fun r => (f_label f, r_idx r)) (refs_of (g_footnote_refs g) (f_label f))) fs)
        (ds_text ds)
        (ds_refid ds ++ flat_map (fun f => map (fun r => (r_idx r, f_label f)) (refs_of (g_footnote_refs g) (f_label f))) fs)
        (ds_norefname ds ++ idxs_of (map f_label fs)) (ds_resolved ds ++ idxs_of (map f_label fs))
        (ds_problem ds) (ds_autolabels ds) (ds_errors ds) (ds_regs ds).

  Lemma after_manual_nil ds : after_manual ds [] = ds.
  Proof. unfold after_manual, upd. simpl. rewrite !app_nil_r. destruct ds; reflexivity. Qed.

  Definition rfc_step (ds : dstate) (footnote : fn) : res dstate :=
    do ds <- fold_res (fun (ds : dstate) (label : str) =>
         if dmem (g_footnote_refs (ds_regs ds)) label then
           (let reflist := refs_of (g_footnote_refs (ds_regs ds)) label in
            do ds <- resolve_references_src ds footnote reflist; Ok ds)
         else Ok ds) (fn_names footnote) ds;
    Ok ds.

  Lemma rfc_fold fs : forall ds,
    ds_regs ds = g ->
    NoDup (ds_resolved ds ++ idxs_of (map f_label fs)) ->
    fold_res rfc_step fs ds = Ok (after_manual ds fs).
  Proof.
    induction fs as [|f fs IH]; intros ds Hg Hnd.
    - simpl. rewrite after_manual_nil. reflexivity.
    - cbn [fold_res]. unfold rfc_step at 1, fn_names. cbn [fold_res bind]. rewrite Hg.
      cbn [map] in Hnd. change (idxs_of (f_label f :: map f_label fs))
        with (map r_idx (refs_of (g_footnote_refs g) (f_label f)) ++ idxs_of (map f_label fs)) in Hnd.
      rewrite app_assoc in Hnd.
      assert (Hstep : (if dmem (g_footnote_refs g) (f_label f)
                       then (do ds0 <- resolve_references_src ds f (refs_of (g_footnote_refs g) (f_label f)); Ok ds0)
                       else Ok ds)
                      = Ok (touched2 f ds (refs_of (g_footnote_refs g) (f_label f)))).
      { destruct (dmem (g_footnote_refs g) (f_label f)) eqn:E.
        - rewrite resolve_references_spec; [reflexivity|]. eapply NoDup_app_l. exact Hnd.
        - unfold refs_of. apply dmem_false in E. rewrite E. rewrite touched2_nil. reflexivity. }
      cbv zeta. rewrite Hstep. cbn [bind].
      rewrite IH; auto.
      unfold after_manual, touched2, upd. simpl. rewrite <- !app_assoc. reflexivity.
  Qed.
End Assembly.

(* ---- reading the logs back ---- *)
Lemma filter_key_map (k0 k : str) (vs : list nat) :
  filter (fun p : str * nat => str_eqb (fst p) k) (map (fun v => (k0, v)) vs)
  = if str_eqb k0 k then map (fun v => (k0, v)) vs else [].
Proof.
  induction vs as [|v vs IH]; simpl; [destruct (str_eqb k0 k); reflexivity|].
  rewrite IH. destruct (str_eqb k0 k); reflexivity.
Qed.

Definition kv_log (kv : list (str * list nat)) : list (str * nat) :=
  flat_map (fun p => map (fun v => (fst p, v)) (snd p)) kv.

Lemma kv_filter_none kv k : ~ In k (map fst kv) -> filter (fun p : str * nat => str_eqb (fst p) k) (kv_log kv) = [].
Proof.
  unfold kv_log. induction kv as [|[k0 v0] kv IH]; simpl; auto. intro H.
  rewrite filter_app, filter_key_map, IH by tauto.
  destruct (str_eqb k0 k) eqn:E; auto. apply str_eqb_eq in E. subst. tauto.
Qed.

Lemma kv_lookup kv k vs :
  NoDup (map fst kv) -> In (k, vs) kv ->
  map snd (filter (fun p : str * nat => str_eqb (fst p) k) (kv_log kv)) = vs.
Proof.
  unfold kv_log. induction kv as [|[k0 v0] kv IH]; simpl; [tauto|]. intros Hnd Hin.
  inversion Hnd; subst. rewrite filter_app, filter_key_map, map_app.
  destruct Hin as [Hin|Hin].
  - inversion Hin; subst. rewrite str_eqb_refl.
    fold (kv_log kv). rewrite kv_filter_none by assumption. simpl. rewrite app_nil_r, map_map. simpl. apply map_id.
  - assert (Hne : str_eqb k0 k = false).
    { apply str_eqb_neq. intro. subst k0. apply H1. change k with (fst (k, vs)). apply in_map. exact Hin. }
    rewrite Hne. simpl. apply IH; auto.
Qed.

Lemma dget_map_key {X} (key : X -> str) (d : X -> str) (xs : list X) x :
  NoDup (map key xs) -> In x xs -> dget (map (fun y => (key y, d y)) xs) (key x) = Some (d x).
Proof.
  induction xs as [|y xs IH]; simpl; [tauto|]. intros Hnd Hin. inversion Hnd; subst.
  destruct Hin as [->|Hin]; [rewrite str_eqb_refl; reflexivity|].
  destruct (str_eqb (key x) (key y)) eqn:E; auto.
  apply str_eqb_eq in E. exfalso. apply H1. rewrite <- E. apply in_map. exact Hin.
Qed.

Lemma flat_map_map' {A B C} (g : A -> B) (f : B -> list C) l : flat_map f (map g l) = flat_map (fun x => f (g x)) l.
Proof. induction l as [|x l IH]; simpl; auto. rewrite IH. reflexivity. Qed.

Lemma existsb_ext_in {A} (f g : A -> bool) l : (forall x, In x l -> f x = g x) -> existsb f l = existsb g l.
Proof. induction l as [|x l IH]; simpl; auto. intro H. rewrite H, IH; auto. Qed.

(* the whole transform, as translated from the installed docutils *)
Definition docutils_footnotes_src (s : fstate) : res fstate :=
  do ds <- footnotes_apply_src (ds_init (s_regs s)); Ok (project s ds).

Theorem docutils_footnotes_src_eq isdigit (s : fstate) :
  wf isdigit (s_regs s) -> docutils_footnotes_src s = docutils_footnotes s.
Proof.
  intro W. unfold docutils_footnotes_src, docutils_footnotes, footnotes_apply_src. cbv zeta.
  set (g := s_regs s) in *.
  change (reset_autolabels (ds_init g)) with (ds_init g).
  rewrite number_footnotes_src_spec. change (ds_regs (ds_init g)) with g. unfold autofootnote_start.
  destruct (number_footnotes g (g_autofootnotes g) 1) as [outs|e] eqn:En; cbn [bind]; [|reflexivity].
  destruct (number_footnotes_spec _ _ _ _ En) as [Hfn [Hall _]]. rewrite Forall_forall in Hall.
  cbn [fst].
  set (ds1 := after_auto (ds_init g) outs).
  (* labels *)
  pose proof (wf_nodup _ _ W) as Hnd_ids. pose proof (wf_labels _ _ W) as Hperm.
  assert (HndL : NoDup (map f_label (g_autofootnotes g) ++ map f_label (g_footnotes g))).
  { rewrite <- map_app. eapply Permutation_NoDup; [apply Permutation_sym, Hperm|exact Hnd_ids]. }
  assert (Hlbl : map (fun o => f_label (fo_fn o)) outs = map f_label (g_autofootnotes g)).
  { rewrite <- Hfn, map_map. reflexivity. }
  assert (Hback : flat_map fo_backrefs outs = idxs_of g (map f_label (g_autofootnotes g))).
  { rewrite <- Hlbl. unfold idxs_of. rewrite flat_map_map'. apply flat_map_ext_in.
    intros o Ho. destruct (Hall o Ho) as [_ [_ [_ [_ B]]]]. exact B. }
  assert (Hres1 : ds_resolved ds1 = idxs_of g (map f_label (g_autofootnotes g))) by (subst ds1; simpl; exact Hback).
  assert (Hnor1 : ds_norefname ds1 = ds_resolved ds1) by reflexivity.
  assert (Hrid1 : map fst (ds_refid ds1) = ds_resolved ds1).
  { subst ds1. simpl. clear. induction outs as [|o outs IH]; simpl; auto.
    rewrite map_app, IH, map_map. simpl. rewrite map_id. reflexivity. }
  (* number_footnote_references *)
  rewrite nfr_unfold. change (ds_regs ds1) with g.
  rewrite nfr_run; [|reflexivity|].
  2: { intro r. unfold ref_resolved, ref_has_refname. rewrite Hnor1. apply orb_negb_r. }
  cbn [bind].
  assert (Hex : existsb (fun r => negb (ref_resolved ds1 r || ref_has_refid ds1 r)) (g_autofootnote_refs g)
                = existsb (fun r => negb (mem_str (r_label r) (g_nameids g))) (g_autofootnote_refs g)).
  { apply existsb_ext_in. intros r Hr. rewrite (wf_arefs _ _ W) in Hr. apply filter_In in Hr as [Hr Ha].
    unfold ref_resolved, ref_has_refid. rewrite Hrid1, Hres1, orb_diag, (idxs_of_mem isdigit g W r _ Hr).
    f_equal.
    pose proof (wf_rauto _ _ W) as Hra. rewrite Forall_forall in Hra. rewrite (Hra r Hr) in Ha.
    apply negb_true_iff in Ha.
    pose proof (wf_manual _ _ W) as Hm. rewrite Forall_forall in Hm.
    destruct (mem_str (r_label r) (g_nameids g)) eqn:E.
    - apply mem_str_In in E. apply mem_str_In.
      apply (Permutation_in _ (Permutation_sym Hperm)) in E. rewrite map_app in E.
      apply in_app_or in E as [E|E]; auto.
      apply in_map_iff in E as [f [Ef Hf]]. destruct (Hm f Hf) as [_ Hd]. rewrite Ef in Hd. congruence.
    - apply mem_str_false_notin in E. apply mem_str_false_notin. intro Hin. apply E.
      apply (Permutation_in _ Hperm). rewrite map_app. apply in_or_app. left. exact Hin. }
  rewrite Hex. clear Hex.
  set (ds2 := if existsb (fun r => negb (mem_str (r_label r) (g_nameids g))) (g_autofootnote_refs g)
              then add_error ds1 WTooMany else ds1).
  assert (Hds2 : (let '(ds, _, _) := (if existsb (fun r => negb (mem_str (r_label r) (g_nameids g))) (g_autofootnote_refs g)
                                      then (add_error ds1 WTooMany, O, true) else (ds1, O, false)) in Ok ds)
                 = @Ok dstate ds2).
  { subst ds2. destruct (existsb _ _); reflexivity. }
  rewrite Hds2. cbn [bind].
  assert (Hregs2 : ds_regs ds2 = g) by (subst ds2; destruct (existsb _ _); reflexivity).
  assert (Hres2 : ds_resolved ds2 = ds_resolved ds1) by (subst ds2; destruct (existsb _ _); reflexivity).
  assert (Hlab2 : ds_labels ds2 = ds_labels ds1) by (subst ds2; destruct (existsb _ _); reflexivity).
  assert (Hbl2 : ds_backlog ds2 = ds_backlog ds1) by (subst ds2; destruct (existsb _ _); reflexivity).
  assert (Herr2 : ds_errors ds2 = too_many g).
  { subst ds2. unfold too_many. destruct (existsb _ _); reflexivity. }
  (* resolve_footnotes_and_citations *)
  assert (Hrfc : resolve_footnotes_and_citations_src ds2
                 = do ds' <- fold_res rfc_step (g_footnotes (ds_regs ds2)) ds2; Ok ds') by reflexivity.
  rewrite Hrfc, Hregs2, (rfc_fold g); auto.
  2: { rewrite Hres2, Hres1, <- idxs_of_app. apply (idxs_of_nodup isdigit g W). exact HndL. }
  cbn [bind]. unfold project. fold g.
  set (dsF := after_manual g ds2 (g_footnotes g)).
  (* the back-reference log as a key/value list *)
  set (kv := map (fun o => (f_label (fo_fn o), fo_backrefs o)) outs
             ++ map (fun f => (f_label f, map r_idx (refs_of (g_footnote_refs g) (f_label f)))) (g_footnotes g)).
  assert (Hkv : ds_backlog dsF = kv_log kv).
  { subst dsF kv. unfold after_manual, upd, kv_log. cbn [ds_backlog]. rewrite Hbl2. subst ds1. cbn [ds_backlog after_auto upd ds_init app].
    rewrite flat_map_app, !flat_map_map'. cbn [fst snd]. f_equal.
    apply flat_map_ext. intro f. rewrite map_map. reflexivity. }
  assert (Hkvnd : NoDup (map fst kv)).
  { subst kv. rewrite map_app, !map_map. cbn [fst]. rewrite Hlbl. exact HndL. }
  assert (Hbr : forall k vs, In (k, vs) kv -> forall f, f_label f = k -> backrefs_of dsF f = vs).
  { intros k vs Hin f Hf. unfold backrefs_of. rewrite Hkv, Hf. apply kv_lookup; auto. }
  f_equal. f_equal.
  - (* manual footnotes *)
    unfold resolve_footnotes. apply map_ext_in. intros f Hf. unfold manual_out. f_equal.
    apply (Hbr (f_label f)); auto. subst kv. apply in_or_app. right.
    apply in_map_iff. exists f. auto.
  - (* auto-numbered footnotes *)
    rewrite <- Hfn at 1. rewrite map_map. rewrite <- (map_id outs) at 2. apply map_ext_in. intros o Ho.
    destruct (Hall o Ho) as [Hnum [Hdisp _]].
    assert (Hl : label_of dsF (fo_fn o) = fo_display o).
    { unfold label_of. subst dsF. unfold after_manual, upd. cbn [ds_labels]. rewrite Hlab2. subst ds1. cbn [ds_labels after_auto upd ds_init app].
      rewrite (dget_map_key (fun o => f_label (fo_fn o)) fo_display outs o); auto.
      rewrite Hlbl. eapply NoDup_app_l. exact HndL. }
    unfold auto_out. rewrite Hl.
    rewrite (Hbr (f_label (fo_fn o)) (fo_backrefs o)); auto.
    + rewrite Hdisp at 2. rewrite dval_show, <- Hnum. destruct o; reflexivity.
    + subst kv. apply in_or_app. left. apply in_map_iff. exists o. auto.
  - rewrite <- Herr2. subst dsF. reflexivity.
Qed.

(* ================================================================ docutils/nodes.py: the registry methods *)
Theorem note_methods_doc_eq g (f : fn) (r : rf) :
  note_autofootnote_doc g f = note_autofootnote g f /\
  note_footnote_doc g f = note_footnote g f /\
  note_autofootnote_ref_doc g r = note_autofootnote_ref g r /\
  note_footnote_ref_doc g r = note_footnote_ref g r.
Proof. repeat split; reflexivity. Qed.

(* note_explicit_target -> set_name_id_map: when the name is not registered yet (the only case for a footnote
   that render_footnote_reference lets through in a document whose names are footnote labels) it is the model
   operation; the branch through set_duplicate_name_id (dupnames) is not modelled *)
Theorem note_explicit_target_doc_eq g (f : fn) :
  mem_str (f_label f) (g_nameids g) = false ->
  note_explicit_target_doc g f = Ok (note_explicit_target g f).
Proof.
  intro H. unfold note_explicit_target_doc, set_name_id_map_doc, fn_names. cbn [fold_res bind].
  rewrite H. reflexivity.
Qed.
