(* docutils' Footnotes transform as translated from the installed source (Gen/DocutilsFootSrc.v) against its
   transcription in Foot.v.  Proved here: number_footnotes (the numbering loop with its `while True`, the label
   and the resolution of the labelled references) computes exactly Foot.number_footnotes and logs exactly its
   labels, back-references, reference ids and texts; an anonymous footnote is never named (MyST footnotes always
   carry their label).  The remaining methods (number_footnote_references and the resolve methods) are tied to the
   transcription by running both, extracted, on every enumerated registry (props/C11.py corr_docutils_only). *)
From Coq Require Import List NArith Bool Lia PeanoNat Permutation.
From MV Require Import Base.PyStr Base.Res Refs.RUtil Refs.RUtilProofs Gen.Transforms Refs.Foot Refs.FootOps
                       Refs.FootProofs Refs.DocutilsOps Gen.DocutilsFootSrc.
Import ListNotations.
Open Scope N_scope.

Lemma fold_res_ok {S A} (g : S -> A -> S) l : forall s, fold_res (fun s x => Ok (g s x)) l s = Ok (fold_left g l s).
Proof. induction l as [|x l IH]; intro s; simpl; auto. Qed.

Lemma fold_res_ext' {S A} (f g : S -> A -> res S) l : (forall s x, f s x = g s x) -> forall s, fold_res f l s = fold_res g l s.
Proof. intro H. induction l as [|x l IH]; intro s; simpl; auto. rewrite H. destruct (g s x); simpl; auto. Qed.

(* what the innermost loop body of number_footnotes does to one reference *)
Definition touch (label : str) (f : fn) (ds : dstate) (r : rf) : dstate :=
  ref_set_resolved (add_backref (ref_set_refid (ref_del_refname (ref_add_text ds r label) r) r (fn_id f)) f r) r.

Definition touched (label : str) (f : fn) (ds : dstate) (refs : list rf) : dstate :=
  upd ds (ds_labels ds)
      (ds_backlog ds ++ map (fun r => (f_label f, r_idx r)) refs)
      (ds_text ds ++ map (fun r => (r_idx r, label)) refs)
      (ds_refid ds ++ map (fun r => (r_idx r, f_label f)) refs)
      (ds_norefname ds ++ map r_idx refs) (ds_resolved ds ++ map r_idx refs)
      (ds_problem ds) (ds_autolabels ds) (ds_errors ds) (ds_regs ds).

Lemma touched_nil label f ds : touched label f ds [] = ds.
Proof. unfold touched, upd. simpl. rewrite !app_nil_r. destruct ds; reflexivity. Qed.

Lemma touch_all label f refs : forall ds, fold_left (touch label f) refs ds = touched label f ds refs.
Proof.
  induction refs as [|r refs IH]; intro ds; simpl; [symmetry; apply touched_nil|].
  rewrite IH. unfold touched, touch, ref_set_resolved, add_backref, ref_set_refid, ref_del_refname, ref_add_text, upd, fn_id.
  simpl. rewrite <- !app_assoc. reflexivity.
Qed.

(* the `while True` loop is Foot.next_label *)
Lemma while_next ids : forall fuel l0 n,
  while_res fuel (fun '(label, startnum) =>
      let label := show startnum in let startnum := (startnum + 1)%N in
      if negb (mem_str label ids) then Ok ((label, startnum), true) else Ok ((label, startnum), false)) (l0, n)
  = match next_label ids fuel n with Ok (label, _, nxt) => Ok (label, nxt) | Raise e => Raise e end.
Proof.
  induction fuel as [|f IH]; intros l0 n; simpl; auto.
  destruct (mem_str (show n) ids); simpl; auto.
Qed.

(* the logs after a list of auto-numbered footnotes has been processed *)
Definition after_auto (ds : dstate) (outs : list fout) : dstate :=
  upd ds (ds_labels ds ++ map (fun o => (f_label (fo_fn o), fo_display o)) outs)
      (ds_backlog ds ++ flat_map (fun o => map (fun i => (f_label (fo_fn o), i)) (fo_backrefs o)) outs)
      (ds_text ds ++ flat_map (fun o => map (fun i => (i, fo_display o)) (fo_backrefs o)) outs)
      (ds_refid ds ++ flat_map (fun o => map (fun i => (i, f_label (fo_fn o))) (fo_backrefs o)) outs)
      (ds_norefname ds ++ flat_map fo_backrefs outs) (ds_resolved ds ++ flat_map fo_backrefs outs)
      (ds_problem ds) (ds_autolabels ds) (ds_errors ds) (ds_regs ds).

Lemma after_auto_nil ds : after_auto ds [] = ds.
Proof. unfold after_auto, upd. simpl. rewrite !app_nil_r. destruct ds; reflexivity. Qed.

(* one round of the outer loop of number_footnotes, with the innermost body folded into [touch] *)
Definition nf_step (st : dstate * N) (footnote : fn) : res (dstate * N) :=
  let '(ds, startnum) := st in
  do lab <- while_res (label_fuel ds) (fun '(label, startnum) =>
       let label := show startnum in let startnum := (startnum + 1)%N in
       if negb (mem_str label (g_nameids (ds_regs ds))) then Ok ((label, startnum), true)
       else Ok ((label, startnum), false)) ((@nil N), startnum);
  let '(label, startnum) := lab in
  Ok (touched label footnote (set_label ds footnote label)
              (refs_of (g_footnote_refs (ds_regs ds)) (f_label footnote)), startnum).

Fixpoint next_start (start : N) (outs : list fout) : N :=
  match outs with [] => start | o :: r => next_start (numv o + 1) r end.

Lemma nf_fold (fns : list fn) : forall (ds : dstate) (start : N),
  fold_res nf_step fns (ds, start)
  = match number_footnotes (ds_regs ds) fns start with
    | Ok outs => Ok (after_auto ds outs, next_start start outs)
    | Raise e => Raise e
    end.
Proof.
  induction fns as [|f fns IH]; intros ds start.
  - simpl. rewrite after_auto_nil. reflexivity.
  - cbn [fold_res number_footnotes]. unfold nf_step at 1. unfold label_fuel. rewrite while_next.
    destruct (next_label (g_nameids (ds_regs ds)) (S (length (g_nameids (ds_regs ds)))) start) as [[[label num] nxt]|e] eqn:En;
      cbn [bind]; [|reflexivity].
    set (ds1 := touched label f (set_label ds f label) (refs_of (g_footnote_refs (ds_regs ds)) (f_label f))).
    assert (Hregs1 : ds_regs ds1 = ds_regs ds) by reflexivity.
    rewrite (IH ds1 nxt), Hregs1.
    destruct (number_footnotes (ds_regs ds) fns nxt) as [rest|e]; cbn [bind]; [|reflexivity].
    apply next_label_ok in En as [_ [_ [Hn _]]]. subst nxt.
    f_equal. f_equal.
    subst ds1. unfold after_auto, touched, set_label, upd. simpl. rewrite !map_map, <- !app_assoc. reflexivity.
Qed.

(* the generated loop body is nf_step: the nested loops over footnote['names'] (one name) and its references
   collapse, and the branch for an unnamed footnote is never taken *)
Lemma generated_step_is_nf_step (st : dstate * N) (footnote : fn) :
  (let '(ds, startnum) := st in
   do lab <- while_res (label_fuel ds) (fun '(label, startnum) =>
        let label := show startnum in let startnum := (startnum + 1)%N in
        if negb (mem_str label (g_nameids (ds_regs ds))) then Ok ((label, startnum), true)
        else Ok ((label, startnum), false)) ((@nil N), startnum);
   let '(label, startnum) := lab in
   let ds := set_label ds footnote label in
   do ds <- fold_res (fun (ds : dstate) (name : str) =>
        do ds <- fold_res (fun (ds : dstate) (ref : rf) =>
             let ds := ref_add_text ds ref label in
             let ds := ref_del_refname ds ref in
             let ds := ref_set_refid ds ref (fn_id footnote) in
             let ds := add_backref ds footnote ref in
             let ds := ref_set_resolved ds ref in
             Ok ds) (refs_of (g_footnote_refs (ds_regs ds)) name) ds;
        Ok ds) (fn_names footnote) ds;
   if andb (negb (nonempty_l (fn_names footnote))) (negb (nonempty_l (fn_dupnames footnote))) then
     (let ds := name_anonymous ds footnote label in
      let ds := add_autolabel ds label in
      Ok (ds, startnum))
   else Ok (ds, startnum))
  = nf_step st footnote.
Proof.
  destruct st as [ds startnum]. unfold nf_step.
  destruct (while_res _ _ _) as [[label n]|e]; cbn [bind]; [|reflexivity].
  unfold fn_names. cbn [fold_res bind nonempty_l negb andb].
  change (fun (ds0 : dstate) (ref : rf) =>
            let ds1 := ref_add_text ds0 ref label in
            let ds2 := ref_del_refname ds1 ref in
            let ds3 := ref_set_refid ds2 ref (fn_id footnote) in
            let ds4 := add_backref ds3 footnote ref in
            let ds5 := ref_set_resolved ds4 ref in Ok ds5)
    with (fun (ds0 : dstate) (ref : rf) => Ok (touch label footnote ds0 ref)).
  rewrite fold_res_ok. cbn [bind]. change (fun (s : dstate) (x : rf) => ref_set_resolved (add_backref (ref_set_refid (ref_del_refname (ref_add_text s x label) x) x (fn_id footnote)) footnote x) x) with (touch label footnote). rewrite touch_all. reflexivity.
Qed.

Theorem number_footnotes_src_spec (ds : dstate) (start : N) :
  number_footnotes_src ds start
  = match number_footnotes (ds_regs ds) (g_autofootnotes (ds_regs ds)) start with
    | Ok outs => Ok (after_auto ds outs, next_start start outs)
    | Raise e => Raise e
    end.
Proof.
  unfold number_footnotes_src.
  rewrite (fold_res_ext' _ nf_step).
  - rewrite nf_fold. destruct (number_footnotes _ _ _); reflexivity.
  - intros st f. apply generated_step_is_nf_step.
Qed.

(* ================================================================ the remaining methods *)

Lemma mem_nat_In x l : mem_nat x l = true <-> In x l.
Proof.
  induction l as [|y l IH]; simpl; [split; [discriminate|tauto]|].
  rewrite orb_true_iff, IH, Nat.eqb_eq. split; intros [H|H]; auto.
Qed.

Lemma mem_nat_false x l : mem_nat x l = false <-> ~ In x l.
Proof.
  split; intro H.
  - intro Hin. apply mem_nat_In in Hin. congruence.
  - destruct (mem_nat x l) eqn:E; auto. apply mem_nat_In in E. contradiction.
Qed.

(* ---- number_footnote_references ---- *)
Definition nfr_inner (ds : dstate) (ref : rf) : res dstate :=
  if orb (ref_resolved ds ref) (ref_has_refname ds ref) then Ok ds
  else (let ds := mark_problematic ds ref in Ok ds).

Definition nfr_step (__st : dstate * nat * bool) (ref : rf) : res (dstate * nat * bool) :=
  let '(ds, i, __brk) := __st in
  if __brk then Ok (ds, i, __brk) else
  (if orb (ref_resolved ds ref) (ref_has_refid ds ref) then Ok (ds, i, __brk)
   else match nth_error (ds_autolabels ds) i with
        | Some label =>
            (let ds := ref_add_text ds ref label in
             do id <- nameid_lookup ds label;
             do footnote <- foot_by_id ds id;
             let ds := ref_set_refid ds ref id in
             let ds := add_backref ds footnote ref in
             let ds := ref_set_resolved ds ref in
             let i := S i in Ok (ds, i, __brk))
        | None =>
            (let ds := add_error ds WTooMany in
             do ds <- fold_res nfr_inner (skipn i (g_autofootnote_refs (ds_regs ds))) ds;
             Ok (ds, i, true))
        end).

Lemma nfr_unfold ds sn :
  number_footnote_references_src ds sn
  = do st <- fold_res nfr_step (g_autofootnote_refs (ds_regs ds)) (ds, O, false);
    let '(ds, i, __stopped) := st in Ok ds.
Proof. reflexivity. Qed.

Lemma nfr_stop L : forall ds i, fold_res nfr_step L (ds, i, true) = Ok (ds, i, true).
Proof. induction L as [|r L IH]; intros ds i; simpl; auto. Qed.

Lemma nfr_inner_noop L : forall ds,
  (forall r, orb (ref_resolved ds r) (ref_has_refname ds r) = true) -> fold_res nfr_inner L ds = Ok ds.
Proof.
  induction L as [|r L IH]; intros ds H; simpl; auto.
  unfold nfr_inner at 1. rewrite H. simpl. apply IH. exact H.
Qed.

Lemma nfr_run L : forall ds,
  ds_autolabels ds = [] ->
  (forall r, orb (ref_resolved ds r) (ref_has_refname ds r) = true) ->
  fold_res nfr_step L (ds, O, false)
  = Ok (if existsb (fun r => negb (orb (ref_resolved ds r) (ref_has_refid ds r))) L
        then (add_error ds WTooMany, O, true) else (ds, O, false)).
Proof.
  induction L as [|r L IH]; intros ds Hl Hp; simpl; auto.
  destruct (orb (ref_resolved ds r) (ref_has_refid ds r)) eqn:E; simpl.
  - apply IH; auto.
  - rewrite Hl. simpl.
    rewrite nfr_inner_noop by (intro r0; apply Hp). simpl. apply nfr_stop.
Qed.

(* ---- resolve_references ---- *)
Definition touch2 (f : fn) (ds : dstate) (r : rf) : dstate :=
  ref_set_resolved (add_backref (ref_set_refid (ref_del_refname ds r) r (fn_id f)) f r) r.

Definition touched2 (f : fn) (ds : dstate) (refs : list rf) : dstate :=
  upd ds (ds_labels ds)
      (ds_backlog ds ++ map (fun r => (f_label f, r_idx r)) refs)
      (ds_text ds)
      (ds_refid ds ++ map (fun r => (r_idx r, f_label f)) refs)
      (ds_norefname ds ++ map r_idx refs) (ds_resolved ds ++ map r_idx refs)
      (ds_problem ds) (ds_autolabels ds) (ds_errors ds) (ds_regs ds).

Lemma touched2_nil f ds : touched2 f ds [] = ds.
Proof. unfold touched2, upd. simpl. rewrite !app_nil_r. destruct ds; reflexivity. Qed.

Lemma resolve_references_spec f refs : forall ds,
  NoDup (ds_resolved ds ++ map r_idx refs) ->
  resolve_references_src ds f refs = Ok (touched2 f ds refs).
Proof.
  unfold resolve_references_src. cbv zeta.
  induction refs as [|r refs IH]; intros ds Hnd.
  - simpl. rewrite touched2_nil. reflexivity.
  - cbn [fold_res map] in *.
    assert (Hfresh : ref_resolved ds r = false).
    { unfold ref_resolved. apply mem_nat_false. intro Hin.
      apply NoDup_remove_2 in Hnd. apply Hnd. apply in_or_app. left. exact Hin. }
    rewrite Hfresh. cbn [bind].
    specialize (IH (touch2 f ds r)).
    unfold touch2 at 1 in IH.
    match goal with |- (do ds0 <- fold_res ?F refs ?D; Ok ds0) = _ =>
      change D with (touch2 f ds r) end.
    rewrite IH.
    + unfold touched2, touch2, ref_set_resolved, add_backref, ref_set_refid, ref_del_refname, upd, fn_id.
      simpl. rewrite <- !app_assoc. reflexivity.
    + unfold touch2, ref_set_resolved, add_backref, ref_set_refid, ref_del_refname, upd. simpl.
      rewrite <- app_assoc. simpl. exact Hnd.
Qed.
