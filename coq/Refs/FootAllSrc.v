(* Everything regenerated: the pipeline whose MyST transforms come from transforms.py (Gen/FootSrc.v) AND whose
   docutils Footnotes transform comes from the installed docutils source (Gen/DocutilsFootSrc.v) equals the
   model pipeline run with the transcription - without any oracle hypothesis. *)
From Coq Require Import List NArith ZArith Bool Lia Permutation Sorted.
From MV Require Import Base.PyStr Base.Res Refs.RUtil Refs.RUtilProofs Gen.Transforms Refs.Foot Refs.FootOps
                       Refs.FootProofs Gen.FootSrc Refs.FootSrcProofs Refs.DocutilsOps Gen.DocutilsFootSrc
                       Refs.DocutilsSrcProofs.
Import ListNotations.
Open Scope N_scope.

Section AllSrc.
  Variable isdigit : str -> bool.
  Variable int_of : str -> option N.

  Let O_id : forall s, docutils_footnotes s = docutils_footnotes s := fun _ => eq_refl.

  Theorem run_all_src_eq fs ft d :
    run_src isdigit int_of docutils_footnotes_src fs ft d = run isdigit int_of docutils_footnotes fs ft d.
  Proof.
    destruct (run_total isdigit int_of docutils_footnotes O_id fs ft d) as [r Hr].
    rewrite Hr.
    destruct (run_facts isdigit int_of docutils_footnotes O_id fs ft d r Hr)
      as [g0 [g1 [ly [autos [F [Hl Hw]]]]]].
    pose proof (foots_labels_nodup _ _ _ _ _ _ _ _ F) as Hnd.
    pose proof (fa_foots _ _ _ _ _ _ _ _ F) as Hfoots.
    pose proof (fa_refs _ _ _ _ _ _ _ _ F) as Hrefs.
    pose proof (fa_g1 _ _ _ _ _ _ _ _ F) as Hg1.
    unfold run_src. rewrite (fa_render _ _ _ _ _ _ _ _ F), pipeline_order.
    cbn [apply_all_src apply_xform_src bind s_regs s_manual s_auto s_layout s_warn].
    rewrite sort_footnotes_src_eq, <- Hg1.
    rewrite (docutils_footnotes_src_eq isdigit) by (exact (fa_wf1 _ _ _ _ _ _ _ _ F)).
    unfold docutils_footnotes. cbn [s_regs s_manual s_auto s_layout s_warn].
    rewrite (fa_num _ _ _ _ _ _ _ _ F). cbn [bind].
    rewrite unreferenced_src_eq.
    change {| s_regs := g1; s_manual := resolve_footnotes g1; s_auto := autos; s_layout := ly;
              s_warn := g_warn g0 ++ too_many g1 |} with (stage_state g0 g1 ly autos).
    rewrite collect_footnotes_src_eq.
    - destruct r as [xr xf xl xw]. cbn [x_refs x_foots x_layout x_warn] in *.
      assert (Hs : forall s, s_manual (collect_footnotes int_of fs ft s) = s_manual s /\
                             s_auto (collect_footnotes int_of fs ft s) = s_auto s /\
                             s_regs (collect_footnotes int_of fs ft s) = s_regs s).
      { intro s. unfold collect_footnotes. destruct (negb fs); simpl; auto. }
      destruct (Hs (unreferenced (stage_state g0 g1 ly autos))) as [A [B C]].
      rewrite A, B, C. cbn [unreferenced stage_state s_manual s_auto s_regs].
      rewrite Hfoots, Hrefs, Hl, Hw. reflexivity.
    - cbn [unreferenced stage_state s_manual s_auto]. rewrite <- Hfoots. exact Hnd.
    - cbn [unreferenced stage_state s_manual s_auto s_layout]. rewrite <- Hfoots. intros l Hin.
      destruct (fa_step _ _ _ _ _ _ _ _ F) as [_ [Hn [_ [_ Hf]]]]. simpl in Hn.
      simpl in Hf. rewrite Hf, <- Hn in Hin.
      eapply Permutation_in; [apply Permutation_sym, (foots_labels_perm _ _ _ _ _ _ _ _ F)|].
      destruct (sort_same fs g0) as [Hids _]. rewrite Hg1, Hids. exact Hin.
  Qed.

  (* the main statements for the fully regenerated pipeline: no premise left *)
  Notation run_all := (run_src isdigit int_of docutils_footnotes_src).

  Lemma refs_point_to_defs_all fs ft d r :
    run_all fs ft d = Ok r ->
    map ro_idx (x_refs r) = seq 0 (length (x_refs r)) /\
    (forall f, In f (x_foots r) ->
       fo_backrefs f = map ro_idx (filter (fun o => str_eqb (ro_label o) (lbl f)) (x_refs r))) /\
    (forall o f, In o (x_refs r) -> In f (x_foots r) -> lbl f = ro_label o ->
       ro_refid o = Some (lbl f) /\ ro_text o = Some (fo_display f) /\ In (ro_idx o) (fo_backrefs f)) /\
    (forall o, In o (x_refs r) -> (forall f, In f (x_foots r) -> lbl f <> ro_label o) -> ro_refid o = None).
  Proof. rewrite run_all_src_eq. exact (refs_point_to_defs isdigit int_of docutils_footnotes O_id fs ft d r). Qed.

  Lemma labels_distinct_all fs ft d r : run_all fs ft d = Ok r -> NoDup (map fo_display (x_foots r)).
  Proof. rewrite run_all_src_eq. exact (labels_distinct isdigit int_of docutils_footnotes O_id fs ft d r). Qed.

  Lemma auto_order_all ft d r :
    run_all true ft d = Ok r ->
    forall fa fb ka kb i j,
      In fa (x_foots r) -> In fb (x_foots r) ->
      fo_num fa = Some ka -> fo_num fb = Some kb ->
      index_of (lbl fa) (auto_ref_labels isdigit r) = Some i ->
      index_of (lbl fb) (auto_ref_labels isdigit r) = Some j ->
      (i < j)%nat -> ka < kb.
  Proof. rewrite run_all_src_eq. exact (auto_order_sorted isdigit int_of docutils_footnotes O_id ft d r). Qed.

  Lemma total_all fs ft d : exists r, run_all fs ft d = Ok r.
  Proof. rewrite run_all_src_eq. exact (run_total isdigit int_of docutils_footnotes O_id fs ft d). Qed.
End AllSrc.
