(* The definition regenerated from transforms.py (Gen/AnchorsSrc.v: ResolveAnchorIds.apply) equals the
   hand-written model (Anchors.v).  This is the proof obligation that an edit of the method breaks. *)
From Coq Require Import List NArith Bool Lia.
From MV Require Import Base.PyStr Base.Res Refs.RUtil Refs.RUtilProofs Refs.Anchors Refs.AnchorsOps
                       Refs.AnchorsProofs Gen.AnchorsSrc.
Import ListNotations.
Open Scope N_scope.

Lemma find_caption cs :
  find (fun subnode => kind_eqb (n_kind subnode) KCaptionTitle) cs = first_caption_title cs.
Proof. induction cs as [|c cs IH]; simpl; auto. Qed.

Lemma fold_res_ext {S A} (f g : S -> A -> res S) l : (forall s x, f s x = g s x) -> forall s, fold_res f l s = fold_res g l s.
Proof. intro H. induction l as [|x l IH]; intro s; simpl; auto. rewrite H. destruct (g s x); simpl; auto. Qed.

Lemma fold_res_explicit lr rg nts : forall acc,
  fold_res (fun acc '(name, ie) => explicit_step lr rg acc name ie) nts acc = build_explicit_from lr rg nts acc.
Proof.
  induction nts as [|[name ie] nts IH]; intro acc; simpl; auto.
  destruct (explicit_step lr rg acc name ie); simpl; auto.
Qed.

Lemma fold_res_map {A B} (f : A -> B) l : forall acc,
  fold_res (fun outs x => Ok (outs ++ [f x])) l acc = Ok (acc ++ map f l).
Proof.
  induction l as [|x l IH]; intro acc; simpl; [rewrite app_nil_r; reflexivity|].
  rewrite IH, <- app_assoc. reflexivity.
Qed.

(* the tail of the first loop body: skip test and the three implicit_title blocks, for a node and label id *)
Ltac nsimp := cbn [bind n_tag n_kind n_refid n_has_refuri n_names n_astext n_children kind_eqb andb orb negb].

(* closed case analysis: split on whatever test, list or kind variable the goal still branches on *)
Ltac grind :=
  nsimp;
  repeat (first
    [ reflexivity
    | match goal with
      | |- context [kind_eqb ?k _] => is_var k; destruct k
      | |- context [match ?l with [] => _ | _ :: _ => _ end] => is_var l; destruct l as [|[? ? ? ? ? ? ?] ?]
      | |- context [match first_caption_title ?c with _ => _ end] => destruct (first_caption_title c)
      | |- context [str_eqb ?a ?b] => destruct (str_eqb a b)
      | |- context [startswith ?a ?b] => destruct (startswith a b)
      | |- context [andb ?b _] => is_var b; destruct b
      | |- context [andb _ ?b] => is_var b; destruct b
      | |- context [orb ?b _] => is_var b; destruct b
      | |- context [orb _ ?b] => is_var b; destruct b
      | |- context [if ?b then _ else _] => is_var b; destruct b
      end ]; nsimp).

Theorem apply_src_eq nl sphinx suppressed rg slugs refs :
  apply_src nl sphinx suppressed rg slugs refs = apply nl sphinx suppressed true false rg slugs refs.
Proof.
  unfold apply_src, apply, build_explicit. cbv zeta.
  match goal with |- context [fold_res ?f (nametypes rg) _] => set (step1 := f) end.
  assert (H1 : forall acc x, step1 acc x = (fun acc '(name, ie) => explicit_step false rg acc name ie) acc x).
  { intros acc [name ie]. subst step1. cbv beta iota.
    unfold explicit_step, skipped, implicit_title_of, descend, py_getitem, py_get, is_kind, has_refid, get_refid,
           unwrap_typeerror, py_hd, py_child0, nonempty_c, s_footnote, s_desc_, s_rubric.
    destruct ie; cbn [negb]; [|reflexivity].
    destruct (dget (nameids rg) name) as [[labelid|]|]; cbn [bind]; try reflexivity.
    destruct (dget (ids rg) labelid) as [node|]; cbn [bind]; try reflexivity.
    (* both sides are now closed case analyses over the same tests: enumerate them *)
    destruct node as [tag k refid uri names txt ch]; cbn [n_tag n_kind n_refid n_has_refuri n_names n_astext n_children].
    destruct k, refid as [rid|]; nsimp; try (rewrite ?find_caption; grind).
    (* the indirect target *)
    destruct (dget (ids rg) rid) as [node2|]; nsimp; try reflexivity.
    destruct node2 as [tagb kb refidb urib namesb txtb chb]. nsimp.
    destruct namesb as [|nm ?]; nsimp; try reflexivity.
    rewrite ?find_caption. grind. }
  rewrite (fold_res_ext _ _ _ H1), fold_res_explicit.
  destruct (build_explicit_from false rg (nametypes rg) []) as [explicit|e]; cbn [bind]; [|reflexivity].
  match goal with |- context [fold_res ?f refs _] => set (step2 := f) end.
  assert (H2 : forall outs r, step2 outs r = Ok (outs ++ [resolve_one nl sphinx suppressed true explicit slugs r])).
  { intros outs r. subst step2. cbv beta.
    unfold r_id_link, resolve_one, dmem, py_getitem, st_init, set_refid, add_inline, warn_append, set_pline, set_pending,
           finish, truthy_ostr, ostr_val. cbn [negb].
    destruct (dget explicit (r_frag r)) as [[ref_id title]|]; cbn [bind].
    - destruct (r_has_text r), title as [t|]; cbn; try reflexivity. destruct (nonempty t); reflexivity.
    - destruct (dget slugs (r_frag r)) as [[[line sid] title]|]; cbn [bind].
      + destruct (r_has_text r); cbn; try reflexivity. destruct (nonempty title); reflexivity.
      + destruct sphinx; cbn; [reflexivity|]. destruct suppressed, (r_has_text r); reflexivity. }
  rewrite (fold_res_ext _ _ _ H2), fold_res_map. reflexivity.
Qed.

(* ---------------------------------------------------------------- the main theorems for the regenerated transform *)
Lemma forall2_map {A B} (f : A -> B) (P : A -> B -> Prop) l : (forall x, P x (f x)) -> Forall2 P l (map f l).
Proof. intro H. induction l; simpl; constructor; auto. Qed.

Lemma resolution_order_src nl sphinx suppressed rg slugs refs outs :
  apply_src nl sphinx suppressed rg slugs refs = Ok outs ->
  exists ex, build_explicit false rg = Ok ex /\
    Forall2 (fun r o =>
      (forall lid title, dget ex (r_frag r) = Some (lid, title) ->
         o_refid o = Some lid /\ o_warn o = [] /\ o_pending o = false /\ o_msg o = false) /\
      (forall line sid title, dget ex (r_frag r) = None -> dget slugs (r_frag r) = Some (line, sid, title) ->
         o_refid o = Some sid /\ o_warn o = [] /\ o_pending o = false /\ o_msg o = false)) refs outs.
Proof.
  rewrite apply_src_eq. intro H. apply apply_ok in H as [ex [Hb ->]]. exists ex. split; [exact Hb|].
  apply forall2_map. intro r. apply resolution_order.
Qed.

Lemma missing_warns_once_src nl rg slugs refs outs :
  apply_src nl false false rg slugs refs = Ok outs ->
  exists ex, build_explicit false rg = Ok ex /\
    Forall2 (fun r o =>
      dget ex (r_frag r) = None -> dget slugs (r_frag r) = None ->
      o_warn o = [{| w_line := r_line r; w_target := r_frag r |}] /\
      o_refid o = Some (nl (r_frag r)) /\ o_fill o = None /\ o_msg o = true /\ o_pending o = false) refs outs /\
    warnings_of outs =
      map (fun r => {| w_line := r_line r; w_target := r_frag r |})
          (filter (fun r => negb (dmem ex (r_frag r)) && negb (dmem slugs (r_frag r)) && negb false && negb false) refs).
Proof.
  rewrite apply_src_eq. intro H. apply apply_ok in H as [ex [Hb ->]]. exists ex. split; [exact Hb|]. split.
  - apply forall2_map. intros r H1 H2. exact (missing_docutils nl true ex slugs r H1 H2).
  - apply warnings_filter.
Qed.

Lemma implicit_text_src nl sphinx suppressed rg slugs refs outs :
  apply_src nl sphinx suppressed rg slugs refs = Ok outs ->
  exists ex, build_explicit false rg = Ok ex /\
    Forall2 (fun r o => r_has_text r = false ->
      (forall lid title, dget ex (r_frag r) = Some (lid, title) ->
         o_fill o = Some (match title with
                          | Some t => if nonempty t then t else s_hash ++ r_frag r
                          | None => s_hash ++ r_frag r
                          end)) /\
      (forall line sid title, dget ex (r_frag r) = None -> dget slugs (r_frag r) = Some (line, sid, title) ->
         o_fill o = Some (if nonempty title then title else s_hash ++ r_frag r))) refs outs.
Proof.
  rewrite apply_src_eq. intro H. apply apply_ok in H as [ex [Hb ->]]. exists ex. split; [exact Hb|].
  apply forall2_map. intros r Ht. apply implicit_text. exact Ht.
Qed.
