(* C09 under Sphinx: what happens to the pending_xref that ResolveAnchorIds leaves for a '#x' link it
   could not resolve in the document.  MystReferenceResolver.run / resolve_myst_ref_any /
   _resolve_ref_nested are modelled by the C12 development (XRef/XRefModel.v: resolve_any,
   any_candidates, resolve_ref_nested, resolve_doc_nested, log_missing; theorems
   C12_missing_once_any, C12_missing_at_most_once, C12_text_title_label in Props/C12.v) - nothing of
   it is repeated here; this file only composes it with the C09 model. *)
From Coq Require Import List NArith Bool Lia.
From MV Require Import Base.PyStr Base.Res Refs.RUtil Refs.Anchors Refs.AnchorsProofs.
From MV Require XRef.XRefModel.
Import ListNotations.
Open Scope N_scope.

Section Fallthrough.
  (* the oracles of the C12 model: other std object types, other domains, intersphinx *)
  Variable std_objects other_domains : str -> list XRefModel.cand.
  Variable intersphinx : str -> option XRefModel.cand.

  Notation resolve_any := (XRefModel.resolve_any std_objects other_domains intersphinx).
  Notation any_candidates := (XRefModel.any_candidates std_objects other_domains).

  (* the warnings the resolver logs for the pending node of reference r (refexplicit =
     bool(refnode.children), reftarget = the fragment), located at the pending node's line *)
  Definition resolver_warnings (P : XRefModel.project) (from : str) (r : ref) : list XRefModel.warn :=
    XRefModel.o_warns (resolve_any P from (r_has_text r) (r_frag r)).

  Lemma sphinx_fallthrough nl suppressed slug_hash ex slugs r P from :
    dget ex (r_frag r) = None -> dget slugs (r_frag r) = None ->
    mem_str (r_frag r) (XRefModel.p_nitpick P) = false ->
    let o := resolve_one nl true suppressed slug_hash ex slugs r in
    o_pending o = true /\ o_warn o = [] /\ o_pline o = r_line r /\
    (XRefModel.count_missing (resolver_warnings P from r) <= 1)%nat /\
    (XRefModel.count_missing (resolver_warnings P from r) = 1%nat <->
       any_candidates P from (r_has_text r) (r_frag r) = [] /\ intersphinx (r_frag r) = None) /\
    (XRefModel.count_missing (resolver_warnings P from r) = 1%nat ->
       resolver_warnings P from r = [XRefModel.W_missing (r_frag r)]).
  Proof.
    intros H1 H2 Hn. cbv zeta.
    destruct (missing_sphinx nl suppressed slug_hash ex slugs r H1 H2) as [A [B [_ [_ C]]]].
    split; [exact A|]. split; [exact B|]. split; [exact C|].
    unfold resolver_warnings, XRefModel.resolve_any.
    destruct (any_candidates P from (r_has_text r) (r_frag r)) as [|c rest] eqn:Ec.
    - destruct (intersphinx (r_frag r)) as [c|] eqn:Ei; simpl.
      + unfold XRefModel.count_missing; simpl.
        split; [lia|]. split; [split; [discriminate|intros [_ ?]; discriminate]|discriminate].
      + unfold XRefModel.log_missing. rewrite Hn, andb_false_r.
        unfold XRefModel.count_missing; simpl.
        split; [lia|]. split; [tauto|reflexivity].
    - simpl. destruct rest; unfold XRefModel.count_missing; simpl;
        (split; [lia|]; split; [split; [discriminate|intros [? _]; discriminate]|discriminate]).
  Qed.
End Fallthrough.
