import os
p=os.environ['MUTDIR']+'/myst_parser/mdit_to_docutils/transforms.py'
s=open(p).read(); old='                refnode["refid"] = ref_id\n'; assert old in s
open(p,'w').write(s.replace(old,'                refnode["refid"] = target\n',1))
