"""Round-3 mutant harness for the source-translation tie (scratch, deleted afterwards):
mutate a COPY of options.py text, translate, compile OptSrc + refinement proofs."""
import subprocess, sys, time
from pathlib import Path
sys.path.insert(0, "/verif")
from gen import c07_src
SRC = Path("/repo/myst_parser/parsers/options.py").read_text(encoding="utf8")
OUT = Path("/verif/coq/Gen/OptSrc.v")
ORIG = OUT.read_text()

MUT = [
 ("S01 plain fold appends '' instead of ' ' (_scan_plain_spaces)", '        elif not breaks:\n            chunks.append(" ")\n        chunks.extend(breaks)\n    elif whitespaces:', '        elif not breaks:\n            chunks.append("")\n        chunks.extend(breaks)\n    elif whitespaces:'),
 ("S02 stream.column <= indent (_scan_plain_scalar)", "(stream.column < indent)", "(stream.column <= indent)"),
 ("S03 hex check range(length - 1)", "for k in range(length):", "for k in range(length - 1):"),
 ("S04 drop the '' branch", """        if not double and ch == "'" and stream.peek(1) == "'":
            chunks.append("'")
            stream.forward(2)
        elif (double""", """        if (double"""),
 ("S05 code >= 0x10FFFF", "if code > 0x10FFFF:", "if code >= 0x10FFFF:"),
 ("S06 keep chomping extends breaks twice", "    if chomping is True:\n        chunks.extend(breaks)\n", "    if chomping is True:\n        chunks.extend(breaks)\n        chunks.extend(breaks)\n"),
 ("S07 indent = min(min_indent, max_indent)", "indent = max(min_indent, max_indent)", "indent = min(min_indent, max_indent)"),
 ("S08 folded: drop `and leading_non_space`", "                and leading_non_space\n", ""),
 ("S09 chomping is not None", "if chomping is not False:", "if chomping is not None:"),
 ("S10 BOM char FFFE", 'stream.peek() == "\\ufeff"', 'stream.peek() == "\\ufffe"'),
 ("S11 CRLF forward(1)", '        if stream.prefix(2) == "\\r\\n":\n            stream.forward(2)', '        if stream.prefix(2) == "\\r\\n":\n            stream.forward(1)'),
 ("S12 flow spaces: ' \\t' -> ' '", '    while stream.peek(length) in " \\t":\n        length += 1\n    whitespaces', '    while stream.peek(length) in " ":\n        length += 1\n    whitespaces'),
 ("S13 increment == 1 rejected", "            if increment == 0:\n                raise TokenizeError(\n                    \"expected indentation indicator in the range 1-9, but found 0\",\n                    stream.get_position(),\n                    \"while scanning a block scalar\",\n                    start_mark,\n                )\n            stream.forward()\n    elif", "            if increment == 1:\n                raise TokenizeError(\n                    \"expected indentation indicator in the range 1-9, but found 0\",\n                    stream.get_position(),\n                    \"while scanning a block scalar\",\n                    start_mark,\n                )\n            stream.forward()\n    elif"),
 ("S14 block indentation: column >= max_indent", "if stream.column > max_indent:", "if stream.column >= max_indent:"),
 ("S15 key colon test peeks length + 2", "stream.peek(length + 1) in _CHARS_END_SPACE_TAB_NEWLINE", "stream.peek(length + 2) in _CHARS_END_SPACE_TAB_NEWLINE"),
 ("S16 flow non-spaces: escaped break does not call _scan_line_break", "            elif ch in _CHARS_NEWLINE:\n                _scan_line_break(stream)\n                chunks", "            elif ch in _CHARS_NEWLINE:\n                chunks"),
 ("S17 flow scalar loop: spaces/non_spaces swapped", "        chunks.extend(_scan_flow_scalar_spaces(stream, start_mark))\n        chunks.extend(_scan_flow_scalar_non_spaces(stream, double, start_mark))\n", "        chunks.extend(_scan_flow_scalar_non_spaces(stream, double, start_mark))\n        chunks.extend(_scan_flow_scalar_spaces(stream, start_mark))\n"),
 ("S18 block: line_break != '\\n' in fold test", '                and line_break == "\\n"\n', '                and line_break != "\\n"\n'),
 ("S19 error mark of a translated raise is start_mark", '            "found unexpected end of stream",\n            stream.get_position(),', '            "found unexpected end of stream",\n            start_mark,'),
 ("S20 comment skipping stops at NUL only (_scan_to_next_token)", "            while stream.peek() not in _CHARS_END_NEWLINE:\n                stream.forward()\n        if not _scan_line_break", "            while stream.peek() not in _CHARS_END:\n                stream.forward()\n        if not _scan_line_break"),
 ("T01 _tokenize: key column test `column == 1`", "        if not stream.column == 0:\n            raise TokenizeError(\n                \"expected key to start at column 0\"", "        if not stream.column == 1:\n            raise TokenizeError(\n                \"expected key to start at column 0\""),
 ("T02 _tokenize: colon test against ';'", 'if stream.peek() != ":":', 'if stream.peek() != ";":'),
 ("T03 _tokenize: error mark Position(0, 0, 0)", 'raise TokenizeError("expected \':\' after key", stream.get_position())', 'raise TokenizeError("expected \':\' after key", Position(0, 0, 0))'),
 ("T04 _tokenize: value scanned with is_key=True", "            yield _scan_plain_scalar(stream, state, is_key=False)", "            yield _scan_plain_scalar(stream, state, is_key=True)"),
 ("T05 _tokenize: `|` only (folded values become plain)", '        elif ch in ("|", ">"):', '        elif ch in ("|",):'),
 ("T06 scanner returns ValueToken for keys (_scan_plain_scalar)", '        KeyToken(start_mark, end_mark, "".join(chunks))\n        if is_key\n        else ValueToken(start_mark, end_mark, "".join(chunks))', '        ValueToken(start_mark, end_mark, "".join(chunks))\n        if is_key\n        else ValueToken(start_mark, end_mark, "".join(chunks))'),
 ("T07 _tokenize: no skip before the colon", "            yield _scan_plain_scalar(stream, state, is_key=True)\n\n        _scan_to_next_token(stream, state)\n", "            yield _scan_plain_scalar(stream, state, is_key=True)\n\n"),
 ("H08 _tokenize: `if stream.column == 0 or ch == _CHARS_END: pass` (same pairs)", "        if stream.column == 0:\n            pass", "        if stream.column == 0 or ch == _CHARS_END:\n            pass"),
 ("H09 _tokenize: `not stream.column == 0` -> `stream.column != 0`", "        if not stream.column == 0:", "        if stream.column != 0:"),
 # harmless rewrites
 ("H01 rename local whitespaces -> ws (_scan_flow_scalar_spaces)", None, None),
 ("H02 reorder independent assignments chunks/length (_scan_plain_spaces)", "def _scan_plain_spaces(stream: StreamBuffer, allow_newline: bool = True) -> list[str]:\n    chunks = []\n    length = 0\n", "def _scan_plain_spaces(stream: StreamBuffer, allow_newline: bool = True) -> list[str]:\n    length = 0\n    chunks = []\n"),
 ("H03 comment + reworded message", '            "found unexpected end of stream",\n', '            "unexpected end",  # reworded\n'),
 ("H06 `x in (a, b)` tuple instead of string (_scan_block_scalar_indicators)", '    if ch in "+-":\n        chomping = ch == "+"\n        stream.forward()\n        ch = stream.peek()\n        if ch in "0123456789":', '    if ch in ("+", "-"):\n        chomping = ch == "+"\n        stream.forward()\n        ch = stream.peek()\n        if ch in "0123456789":'),
 ("H07 extra unused local (_scan_line_break)", '    ch = stream.peek()\n    if ch in "\\r\\n\\x85":', '    ch = stream.peek()\n    unused = 0\n    if ch in "\\r\\n\\x85":'),
 ("H04 `length += 1` -> `length = length + 1` (block scalar)", "        while stream.peek(length) not in _CHARS_END_NEWLINE:\n            length += 1\n        chunks.append", "        while stream.peek(length) not in _CHARS_END_NEWLINE:\n            length = length + 1\n        chunks.append"),
 ("H05 `not x == y` -> `x != y` style (plain_spaces: line_break != newline -> not ==)", '        if line_break != "\\n":\n            chunks.append(line_break)\n        elif not breaks:\n            chunks.append(" ")\n        chunks.extend(breaks)\n    elif whitespaces:', '        if not line_break == "\\n":\n            chunks.append(line_break)\n        elif not breaks:\n            chunks.append(" ")\n        chunks.extend(breaks)\n    elif whitespaces:'),
]

def apply(name, old, new):
    if name.startswith("H01"):
        i = SRC.index("def _scan_flow_scalar_spaces"); j = SRC.index("def _scan_flow_scalar_breaks")
        return SRC[:i] + SRC[i:j].replace("whitespaces", "ws") + SRC[j:]
    assert SRC.count(old) == 1, (name, SRC.count(old))
    return SRC.replace(old, new)

def coqc(f):
    r = subprocess.run(["timeout", "900", "coqc", "-Q", ".", "MV", f], cwd="/verif/coq", capture_output=True, text=True)
    return r.returncode, (r.stdout + r.stderr)

def main(sel):
    for name, old, new in MUT:
        if sel and not any(name.startswith(s) for s in sel):
            continue
        t0 = time.time()
        src = apply(name, old, new)
        try:
            text = c07_src.translate(src, None)
        except Exception as e:
            print(f"{name} :: GEN refuses: {str(e)[:150]}", flush=True); continue
        if text == ORIG:
            print(f"{name} :: translation unchanged (passes)", flush=True); continue
        OUT.write_text(text)
        verdict = "proofs pass"
        for f in ["Gen/OptSrc.v", "Opt/OptSrcProofs.v", "Opt/OptSrcTop.v", "Opt/OptSrcCompose.v"]:
            rc, out = coqc(f)
            if rc != 0:
                import re
                m = re.search(r'File "([^"]+)", line (\d+)', out)
                lem = ""
                if m and m.group(1).endswith(".v"):
                    lines = Path("/verif/coq", m.group(1)).read_text().splitlines()
                    for k in range(int(m.group(2)) - 1, -1, -1):
                        if lines[k].startswith(("Lemma", "Theorem", "Definition", "Fixpoint")):
                            lem = lines[k].split()[1]; break
                verdict = f"BREAKS {f} at {lem or '?'} (line {m.group(2) if m else '?'})"
                break
        print(f"{name} :: {verdict} [{time.time()-t0:.0f}s]", flush=True)
    OUT.write_text(ORIG)
    for f in ["Gen/OptSrc.v", "Opt/OptSrcProofs.v", "Opt/OptSrcTop.v", "Opt/OptSrcCompose.v"]:
        rc, out = coqc(f)
        assert rc == 0, out
    print("restored", flush=True)

main(sys.argv[1:])
