"""C18 - inventory loading agrees with Sphinx and is independent of stream chunking."""
import io
import itertools
import posixpath
import zlib

from lib.common import (dec_str, enc_bytes, enc_ostr, enc_str, model_run_parallel, src_hashes)

PID = "C18"
RULE = ("correspondence: inventories (format v1 and v2) serialised from generated object tables with line mutations "
        "(truncated lines, missing fields, extra spaces, non-numeric priority, colon-less type, unicode names, duplicates, "
        "missing final newline, blank lines, CR LF, invalid UTF-8, header mutations, truncated / padded zlib streams), each "
        "loaded through a chunk-limited stream under every single split point, pairs of split points, one-byte reads and "
        "random chunk sizes: extracted Coq model (zlib given as a per-byte output table measured on the real zlib, UTF-8 "
        "decoder, regex engine on the AST regenerated from the source literal) vs myst_parser.inventory.load; plus the "
        "helper models (utf8 decode, rstrip, split, splitlines, posixpath.join, line regex) vs CPython and "
        "from_sphinx/to_sphinx on generated inventories. search: on the implementation directly: result under every "
        "chunking == result with one read; entries == sphinx.util.inventory.InventoryFile.loads on the same bytes; "
        "to_sphinx/from_sphinx round trip; bad-line isolation; inventory_cli([...]) on scratch files in json and yaml format "
        "(stdout parsed back) = the loaded entries filtered by an independent implementation of the wildcard semantics, and the "
        "source / base URL taken by inventory_cli and fetch_inventory under a fake urlopen (corr: the same against the extracted "
        "cli_filter / cli_fetch / fetch_inventory models). non-trivial = the load yields at least one entry or an "
        "exception and the partition has at least two chunks, or (helpers) the input is non-empty")
TRUSTED = ["InventoryFileReader.read_buffer/readline/readlines/read_compressed_chunks/read_compressed_lines, load/_load_v1/_load_v2, from_sphinx/to_sphinx: "
           "translated from the source statement by statement on every run (gen/c18_src.py -> coq/Gen/InventorySrc.v) and proved equal to the "
           "hand-written models coq/InvLoad/{Reader,Load}.v (C18_inventory_src_refines); trusted there: the walker and its DOMAIN MAPPING "
           "(coq/InvLoad/SrcPrims.v): self.attr = v -> record update; b.find(c) -> zfind (Python int, -1); b[:z], b[z:] -> zslice_to/zslice_from "
           "(Python slice semantics); x[k:] for a literal k -> skipn; x[:-1] -> removelast; ==/!= on str/bytes -> str_eqb; 'c' in s -> mem_N; "
           "s in t -> contains; truthiness of str/bytes -> non-empty; x.decode() -> the decode oracle (raises UnicodeDecodeError); "
           "stream.read(_BUFSIZE) -> next chunk of the chunk list; zlib.decompressobj()/decompress/flush -> dinit/dstep+derr/dflush; "
           "re.match(<literal>, s) -> match_line s, `if not m: continue` + m.groups() -> match on the option; s.rstrip() -> rstrip; "
           "s.split(None, 2) into three names -> split_ws 2 (else ValueError); s.split(':', 1) into two names -> split_at (guarded in the source "
           "by `':' not in s: continue`); dicts -> association lists: d.setdefault(k, {}) / d[k1][k2] = v / k in d / d.get(k, {}) -> al_setdefault / "
           "al_update+al_set / al_mem / al_get_or_empty, d[k] in read position -> d.get(k, {}) (KeyError not modelled; guarded by a membership "
           "test); TypedDict literals -> records; x = None on a string variable / `t or '-'` -> option; while -> Fixpoint with fuel "
           "(readline: len(stream)+1, readlines: pending bytes+1, read_compressed_chunks: len(stream)+1, inner loop of read_compressed_lines: "
           "len(buf)); for over d.items() / a generator -> structural Fixpoint; a generator = (items yielded, optional exception)",
           "coq/InvLoad/Cli.v (fetch_inventory / inventory_cli glue) is a hand transcription, tied by correspondence",
           "coq/InvLoad/SphinxInv.v is a hand transcription of sphinx.util.inventory.InventoryFile.loads/_loads_v1/_loads_v2 (Sphinx 8.2.3, modelled external)",
           "zlib (decompressobj/decompress), bytes.decode, re: oracles with the stated O_ hypotheses, each exercised on the real library by the correspondence run",
           "the chunk-limited stream wrapper of the harness behaves like a file object whose read(n) returns between 1 and n bytes until the end and b'' afterwards"]
ORACLES = {
    "O_zlib_stream": "zlib.decompressobj: feeding a++b = feeding a then b (outputs concatenate, state determined by the consumed prefix), "
                     "feeding b'' is the identity, an error is raised no later than the chunk containing the offending byte: checked per case by "
                     "measuring the per-byte output table of the real zlib and comparing the implementation (real zlib, arbitrary chunks) with the "
                     "model (table), and directly by the zlib oracle test (random partitions vs one shot)",
    "O_zlib_oneshot": "zlib.decompress(z) = out implies the streaming decompressor yields out without error (zlib oracle test)",
    "O_decode": "bytes.decode() (strict UTF-8): an ASCII byte is never part of a multi-byte sequence, so decoding commutes with splitting at "
                "ASCII bytes (decode_ok); PROVED for the executable Gallina UTF-8 decoder (C18_oracles_satisfiable), which is compared with "
                "bytes.decode on random and mutated byte strings on every run (cmd decode)",
    "O_urlopen": "urllib.request.urlopen / open: what loading from a URL or a path returns (Section variables url_load / file_load of "
                 "Cli.v); exercised with a fake urlopen serving inventories, garbage or raising URLError, and real scratch files",
    "O_match_line": "re.match of the v2 line regex: an abstract function in the theorems (both loaders use the same literal: Gen.regex_same); the "
                    "executable regex engine on the regenerated AST is compared with re.match on generated and mutated lines (cmd match)",
}
ASSUMPTIONS = ["dict iteration order = insertion order (CPython >= 3.7)",
               "the stream's read(n) returns at most n bytes, b'' only at end of stream, and then b'' forever",
               "Python recursion limit / memory limits are outside the model"]

BUFSIZE = 16 * 1024
SEPS = "\r\x0b\x0c\x1c\x1d\x1e\x85\u2028\u2029"      # str.splitlines separators other than \n
HDR2 = "# Sphinx inventory version 2"
HDR1 = "# Sphinx inventory version 1"
ZLINE = "# The remainder of this file is compressed using zlib."


# ------------------------------------------------------------------ stream wrapper

class ChunkStream:
    """File-like object whose read(n) returns the next piece of a given partition of data
    (never more than n bytes), then b'' forever."""

    def __init__(self, data: bytes, cuts):
        self.parts = []
        prev = 0
        for c in sorted(set(cuts)) + [len(data)]:
            if prev < c <= len(data):
                self.parts.append(data[prev:c])
                prev = c
        self.parts.reverse()
        self.reads = 0

    def read(self, n=-1):
        self.reads += 1
        if not self.parts:
            return b""
        p = self.parts.pop()
        if n is not None and 0 <= n < len(p):
            self.parts.append(p[n:])
            p = p[:n]
        return p


def parts_of(data: bytes, cuts):
    """the chunks a ChunkStream(data, cuts) delivers to read(BUFSIZE) calls"""
    s = ChunkStream(data, cuts)
    out = []
    while True:
        c = s.read(BUFSIZE)
        if not c:
            return out
        out.append(c)


# ------------------------------------------------------------------ generators

NAMES = ["a", "mod", "pkg.mod", "pkg.mod.Class", "Class.method", "a b", "name with  spaces", "ünï", "日本語",
         "x$y", "f-1", "-", "$", "a:b", "1", "-1", "0 1", "a py:x 1", "Term", "term", "TERM", "x\u00a0y", "t٣", "q\u3000r",
         "index", "genindex", "py-modindex", "a\tb", "\U0001f600", "m"]
DOMS = [("py", "module"), ("py", "function"), ("py", "class"), ("py", "method"), ("std", "label"), ("std", "term"),
        ("std", "doc"), ("c", "function"), ("js", "class"), ("std", "cmd:option"), ("", "x"), ("d", "")]
LOCS = ["index.html#$", "api.html#$", "a/b.html", "$", "x.html#module-$", "", "/abs.html#$", "q.html#a$b", "uü.html", "p.html#$$"]
DISP = ["-", "-", "Title", "A longer title", "Über", "", "x  y", "- x", "-\t"]
V1TYPES = ["mod", "class", "function", "method", "attribute", "exception", "data", "module"]


def rand_word(rng, alpha, lo, hi):
    return "".join(rng.choice(alpha) for _ in range(rng.randint(lo, hi)))


def gen_table(rng, n=None, clean=False):
    """object table: list of (name, domain, type, prio, loc, disp)"""
    rows = []
    n = rng.randint(0, 7) if n is None else n
    for _ in range(n):
        if rows and rng.random() < 0.25:            # duplicate (name, type) of an earlier row, other data maybe different
            nm, d, t = rng.choice(rows)[:3]
            if rng.random() < 0.3:
                nm = rng.choice([nm.upper(), nm.lower(), nm.title()])
        else:
            nm = rng.choice(NAMES) if rng.random() < 0.8 else rand_word(rng, "abc. _-$:é", 1, 6).strip() or "z"
            d, t = rng.choice(DOMS)
        if clean:
            nm = nm.replace("\t", "_")
        prio = rng.choice(["1", "0", "-1", "2", "10", "1", "1"])
        loc = rng.choice(LOCS)
        disp = rng.choice(DISP[:5] if clean else DISP)
        rows.append((nm, d, t, prio, loc, disp))
    return rows


def v2_line(row):
    nm, d, t, prio, loc, disp = row
    return f"{nm} {d}:{t} {prio} {loc} {disp}"


def mutate_line(rng, line):
    k = rng.randrange(16)
    f = line.split(" ")
    if k == 0:
        return line[:rng.randint(0, len(line))]                      # truncated
    if k == 1 and len(f) > 1:
        del f[rng.randrange(len(f))]                                  # missing field
        return " ".join(f)
    if k == 2:
        return line.replace(" ", rng.choice(["  ", "\t", " \t ", "\u00a0", "\u3000 "]), rng.randint(1, 5))   # extra / odd spaces
    if k == 3:
        return rng.choice([" ", "\t", "  "]) + line + rng.choice([" ", "\t ", "\r", " \x0c"])           # leading/trailing space
    if k == 4 and len(f) >= 3:
        f[-3] = rng.choice(["x", "1x", "+1", "--1", "1.0", "", "\u0661", "-", "1-"])                       # non-numeric priority
        return " ".join(f)
    if k == 5:
        return line.replace(":", rng.choice(["", " ", ";", "::"]), 1)                                      # colon-less type
    if k == 6:
        return ""                                                                                          # blank line
    if k == 7:
        return rng.choice(["   ", "\t", "#", "# comment", "x", "x y", "x y:z", "x y:z 1", "x y:z 1 ", "x y:z 1 loc", "x y:z 1  -"])
    if k == 8:
        p = rng.randint(0, len(line))
        return line[:p] + rng.choice(SEPS) + line[p:]                                                      # other line separator inside
    if k == 9:
        return line + " " + line                                                                           # doubled
    return line


def gen_body_v2(rng, rows, mutate=True):
    lines = [v2_line(r) for r in rows]
    if mutate:
        lines = [mutate_line(rng, l) if rng.random() < 0.35 else l for l in lines]
        for _ in range(rng.choice([0, 0, 0, 1, 2])):
            lines.insert(rng.randint(0, len(lines)), rng.choice(["", " ", "garbage", "# c", "no colon 1 x -", "a b:c x d e"]))
    nl = "\r\n" if mutate and rng.random() < 0.06 else "\n"
    body = "".join(l + nl for l in lines)
    if mutate and body and rng.random() < 0.2:
        body = body[:-len(nl)]                                                                            # missing final newline
    return body


def compress(rng, raw: bytes, damage=True):
    k = rng.randrange(10)
    if k < 5:
        z = zlib.compress(raw, rng.choice([0, 1, 6, 9]))
    else:
        co = zlib.compressobj(rng.choice([1, 6, 9]))
        z = b""
        p = 0
        while p < len(raw):
            q = min(len(raw), p + rng.randint(1, max(2, len(raw) // 2)))
            z += co.compress(raw[p:q])
            if rng.random() < 0.6:
                z += co.flush(rng.choice([zlib.Z_SYNC_FLUSH, zlib.Z_FULL_FLUSH]))
            p = q
        z += co.flush()
    if damage:
        r = rng.random()
        if r < 0.04:
            z = z[:rng.randint(0, len(z))]                      # truncated stream
        elif r < 0.08:
            z = z + rng.choice([b"\n", b"garbage\n", b"\x00"])  # trailing bytes
        elif r < 0.10 and z:
            p = rng.randrange(len(z))
            z = z[:p] + bytes([z[p] ^ (1 << rng.randrange(8))]) + z[p + 1:]   # bit flip
    return z


def gen_header(rng, version, mutate=True):
    project = rng.choice(["proj", "My Project", "", "Pü", "x" * 30])
    ver = rng.choice(["1.0", "", "2.1rc1", "v 3"])
    l0 = HDR2 if version == 2 else HDR1
    l1 = "# Project: " + project
    l2 = "# Version: " + ver
    l3 = ZLINE
    if mutate and rng.random() < 0.25:
        k = rng.randrange(10)
        if k == 0:
            l0 += rng.choice([" ", "\r", "  \t", "\x1f", "x", "\u00a0"])
        elif k == 1:
            l0 = rng.choice(["# Sphinx inventory version 3", "", "#", "# sphinx inventory version 2", " " + l0])
        elif k == 2:
            l1 += rng.choice([" ", "\r", "\u00a0", "\x1c"])
        elif k == 3:
            l1 = rng.choice(["", "# Proj", "#Project:x", "# Pr\u00f6ject: x"])
        elif k == 4:
            l3 = rng.choice(["", "zlib", "# not compressed", "# ZLIB", "# zlib\r", "é zlib"])
        elif k == 5:
            l2 += rng.choice(["\r", " ", "\x85"])
    hs = [l0, l1, l2] + ([l3] if version == 2 else [])
    text = "".join(h + "\n" for h in hs)
    if mutate and rng.random() < 0.05:
        text = text[:rng.randint(0, len(text))]                 # file ends inside the header
    return text


def gen_v2(rng, mutate=True, rows=None, clean=False):
    rows = gen_table(rng, clean=clean) if rows is None else rows
    body = gen_body_v2(rng, rows, mutate)
    raw = body.encode("utf-8", "surrogatepass")
    if mutate and raw and rng.random() < 0.04:
        p = rng.randint(0, len(raw))
        raw = raw[:p] + rng.choice([b"\xff", b"\xc3", b"\xe6\x97", b"\xc0\xaf", b"\xed\xa0\x80"]) + raw[p:]   # invalid UTF-8
    return gen_header(rng, 2, mutate).encode() + compress(rng, raw, damage=mutate)


def v1_line(rng, row):
    nm, d, t, prio, loc, disp = row
    return f"{nm} {rng.choice(V1TYPES)} {loc or 'x.html'}"


def gen_v1(rng, mutate=True, rows=None):
    rows = gen_table(rng) if rows is None else rows
    lines = [v1_line(rng, r) for r in rows]
    if mutate:
        out = []
        for l in lines:
            r = rng.random()
            if r < 0.08:
                l = mutate_line(rng, l)
            out.append(l)
            if rng.random() < 0.05:
                out.append(rng.choice(["", " ", "x", "x y", "\t"]))
        lines = out
    nl = "\r\n" if mutate and rng.random() < 0.06 else "\n"
    body = "".join(l + nl for l in lines)
    if mutate and body and rng.random() < 0.25:
        body = body[:-len(nl)]
    raw = (gen_header(rng, 1, mutate) + body).encode("utf-8", "surrogatepass")
    if mutate and rng.random() < 0.03:
        p = rng.randint(0, len(raw))
        raw = raw[:p] + rng.choice([b"\xff", b"\xc3", b"\xe6\x97"]) + raw[p:]
    return raw


def gen_large(rng, version):
    n = rng.randint(1500, 4000)
    rows = []
    for i in range(n):
        d, t = rng.choice(DOMS[:9])
        rows.append((rand_word(rng, "abcdefghijklmnopqrstuvwxyz._", 4, 30) + (" x" if rng.random() < 0.05 else ""), d, t, "1",
                     rand_word(rng, "abcdefghijklmnopqrstuvwxyz/", 3, 20) + ".html#$", rng.choice(["-", rand_word(rng, "abcdef ghij", 3, 25).strip() or "-"])))
    if version == 2:
        body = "".join(v2_line(r) + "\n" for r in rows)
        return gen_header(rng, 2, False).encode() + zlib.compress(body.encode(), rng.choice([1, 6]))
    return (gen_header(rng, 1, False) + "".join(v1_line(rng, r) + "\n" for r in rows)).encode()


def gen_file(rng):
    r = rng.random()
    if r < 0.62:
        return gen_v2(rng)
    if r < 0.9:
        return gen_v1(rng)
    if r < 0.95:
        return gen_v2(rng, mutate=False)
    return gen_v1(rng, mutate=False)


def partitions(rng, data: bytes, n_pairs, n_random):
    """cut lists: no cut, every single split point, pairs of split points, all one-byte reads, random chunk sizes"""
    L = len(data)
    yield []
    for c in range(1, L):
        yield [c]
    if L > 1:
        yield list(range(1, L))
    allp = L * (L - 1) // 2
    if allp <= n_pairs:
        for a in range(1, L):
            for b in range(a + 1, L):
                yield [a, b]
    else:
        for _ in range(n_pairs):
            a = rng.randrange(1, L)
            b = rng.randrange(1, L)
            if a != b:
                yield sorted((a, b))
    for _ in range(n_random):
        yield random_cuts(rng, L)


def random_cuts(rng, L):
    mx = rng.choice([1, 2, 3, 5, 8, 16, 64, 700, 5000, BUFSIZE])
    cuts, p = [], 0
    while True:
        p += rng.randint(1, mx)
        if p >= L:
            return cuts
        cuts.append(p)


# ------------------------------------------------------------------ observations on the implementation

def observe(f):
    """canonical observation of a load: ('ok', name, version, base_url, ordered entries) or ('exc', class)"""
    try:
        inv = f()
    except RecursionError:
        return ["exc", "RecursionError"]
    except Exception as e:
        return ["exc", type(e).__name__]
    ents = [[d, t, n, it["loc"], it["text"]] for d, ts in inv["objects"].items() for t, es in ts.items() for n, it in es.items()]
    empties = [[d, t] for d, ts in inv["objects"].items() for t, es in ts.items() if not es] + [[d] for d, ts in inv["objects"].items() if not ts]
    return ["ok", inv["name"], inv["version"], inv["base_url"], ents, empties]


def impl_load(data: bytes, cuts=None, base=None):
    from myst_parser import inventory as I
    if cuts is None:
        return observe(lambda: I.load(io.BytesIO(data), base_url=base))
    return observe(lambda: I.load(ChunkStream(data, cuts), base_url=base))


def sphinx_load(data: bytes, uri: str):
    """Sphinx's own loader on the same bytes: ('ok', {(type, name): (project, version, uri, dispname)}) or ('exc', class)"""
    from sphinx.util.inventory import InventoryFile
    try:
        inv = InventoryFile.loads(data, uri=uri)
    except Exception as e:
        return ["exc", type(e).__name__]
    out = {}
    for typ, names in inv.data.items():
        for name, item in names.items():
            out[(typ, name)] = (item.project_name, item.project_version, item.uri, item.display_name)
    return ["ok", out]


def norm_disp(d):
    return None if (not d or d == "-") else d


def plain_header(data: bytes):
    """the first four lines are ASCII without the C0 separators that str.rstrip strips and bytes.rstrip does not"""
    head = b"\n".join(data.split(b"\n", 4)[:4])
    return all(c < 128 and not (28 <= c <= 31) for c in head)


def body_text(data: bytes):
    """decoded body text of a well-formed file (None if it cannot be obtained)"""
    try:
        if data.startswith(HDR2.encode()):
            return zlib.decompress(data.split(b"\n", 4)[4]).decode()
        return data.decode()
    except Exception:
        return None


def compare_with_sphinx(data: bytes, base: str):
    """None if MyST agrees with Sphinx on these bytes (or Sphinx rejects them); else (signature, expected, observed)."""
    s = sphinx_load(data, base)
    if s[0] != "ok":
        return None                                   # Sphinx rejects the file: 'the load fails with an error' is allowed
    m = impl_load(data, None, base)
    if m[0] != "ok":
        return ("sphinx:myst-raises:" + m[1], "loads", m)
    mine = {}
    for d, t, n, loc, text in m[4]:
        mine[(f"{d}:{t}", n)] = (posixpath.join(base, loc) if base else loc, text)
    theirs = {k: (v[2], norm_disp(v[3])) for k, v in s[1].items()}
    if mine != theirs:
        diff = sorted(set(mine.items()) ^ set(theirs.items()), key=repr)[:6]
        return ("sphinx:entries", repr(sorted(theirs.items(), key=repr))[:1500], repr(sorted(mine.items(), key=repr))[:1500] + " diff=" + repr(diff)[:600])
    if plain_header(data) and s[1]:
        pv = {(v[0], v[1]) for v in s[1].values()}
        if pv != {(m[1], m[2])}:
            return ("sphinx:project-version", repr(sorted(pv)), repr((m[1], m[2])))
    return None


def classify_sphinx_diff(data: bytes, base: str, sig: str):
    """name the failing sub-predicate: re-run the comparison on repaired variants of the same file"""
    try:
        if data.startswith(HDR2.encode()):
            parts = data.split(b"\n", 4)
            head = b"\n".join(parts[:4]) + b"\n"
            txt = zlib.decompress(parts[4]).decode()

            def rebuild(t):
                return head + zlib.compress(t.encode())
        else:
            parts = data.split(b"\n", 1)          # Sphinx splits everything after the format line with splitlines
            head = parts[0] + b"\n"
            txt = parts[1].decode()

            def rebuild(t):
                return head + t.encode()
    except Exception:
        return sig

    def ok(t):
        return compare_with_sphinx(rebuild(t), base) is None
    if any(c in txt for c in SEPS):
        t2 = txt.replace("\r\n", "\n")
        for c in SEPS:
            t2 = t2.replace(c, "_")
        if ok(t2):
            return "sphinx:splitlines-separator"
        txt = t2                     # something else is wrong as well: keep looking on the normalised text
    if txt and not txt.endswith("\n"):
        if ok(txt + "\n"):
            return "sphinx:final-line-without-newline"
        txt = txt + "\n"
    # duplicate py:module lines
    seen, keep = set(), []
    for ln in txt.split("\n"):
        f = ln.split()
        key = None
        for i, x in enumerate(f):
            if x == "py:module" and i > 0:
                key = " ".join(f[:i])
                break
        if key is not None:
            if key in seen:
                continue
            seen.add(key)
        keep.append(ln)
    if len(keep) < len(txt.split("\n")) and ok("\n".join(keep)):
        return "sphinx:py-module-duplicate"
    return sig


# ------------------------------------------------------------------ correspondence (model vs implementation)

def gen(ctx):
    from gen import c18_inventory
    info = c18_inventory.run(ctx)
    ctx.gen_info["sources"] = src_hashes(["myst_parser/inventory.py"])
    # round 3: the reader methods, the loaders and the converters translated statement by statement
    from gen import c18_src
    ctx.gen_info["Gen/InventorySrc.v"] = c18_src.run(ctx)
    ctx.gen_info["inventory"] = {k: info[k] for k in ("myst_regex", "sphinx_regex", "regex_same", "BUFSIZE", "headers", "slices")}
    import hashlib
    import sphinx
    import sphinx.util.inventory as sui
    ctx.gen_info["sphinx"] = {"version": sphinx.__version__, "inventory.py": hashlib.sha256(open(sui.__file__, "rb").read()).hexdigest()[:16]}
    if info["BUFSIZE"] != BUFSIZE:
        ctx.notes.append(f"_BUFSIZE is {info['BUFSIZE']}, the harness partitions assume {BUFSIZE}")


def ztable(z: bytes):
    """per byte of z: the bytes the real zlib.decompressobj emits when that byte is fed ('!' = zlib.error, later bytes unmeasured)"""
    d = zlib.decompressobj()
    outs = []
    for i in range(len(z)):
        try:
            outs.append(enc_bytes(d.decompress(z[i:i + 1])))
        except zlib.error:
            outs.append("!")
            break
    outs += ["-"] * (len(z) - len(outs))
    return ";".join(outs) if outs else "."


def zpart(data: bytes):
    """the bytes after the fourth newline (what a v2 loader hands to zlib), b'' if there is none"""
    p = data.split(b"\n", 4)
    return p[4] if len(p) == 5 else b""


def load_request(data: bytes, cuts, base, zt=None):
    z = zpart(data)
    chunks = parts_of(data, cuts)
    return "\t".join(["load", enc_ostr(base), enc_bytes(z), zt if zt is not None else ztable(z)] + [enc_bytes(c) for c in chunks])


def dec_inv(line: str):
    """model reply -> the same shape as observe()"""
    if line.startswith("!"):
        return ["exc", line[1:]]
    t = line.split(" ")
    assert t[0] == "ok", line[:80]
    name, version, base = dec_str(t[1]), dec_str(t[2]), (None if t[3] == "~" else dec_str(t[3]))
    ents, empties = [], []
    i, d, ty = 4, None, None
    pend_d, pend_t = None, None
    while i < len(t):
        if t[i] == "D":
            if pend_t is not None:
                empties.append(pend_t)
            if pend_d is not None:
                empties.append(pend_d)
            d = dec_str(t[i + 1]); pend_d = [d]; pend_t = None; i += 2
        elif t[i] == "T":
            if pend_t is not None:
                empties.append(pend_t)
            ty = dec_str(t[i + 1]); pend_t = [d, ty]; pend_d = None; i += 2
        else:
            ents.append([d, ty, dec_str(t[i + 1]), dec_str(t[i + 2]), None if t[i + 3] == "~" else dec_str(t[i + 3])])
            pend_t = None; i += 4
    if pend_t is not None:
        empties.append(pend_t)
    if pend_d is not None:
        empties.append(pend_d)
    # observe() lists empty type tables first, then empty domains
    empties = [e for e in empties if len(e) == 2] + [e for e in empties if len(e) == 1]
    return ["ok", name, version, base, ents, empties]


def enc_inv(inv):
    toks = ["I", enc_str(inv["name"]), enc_str(inv["version"]), enc_ostr(inv["base_url"])]
    for d, ts in inv["objects"].items():
        toks += ["D", enc_str(d)]
        for t, es in ts.items():
            toks += ["T", enc_str(t)]
            for n, it in es.items():
                toks += ["E", enc_str(n), enc_str(it["loc"]), enc_ostr(it["text"])]
    return toks


def enc_sinv(s):
    toks = []
    for k, m in s.items():
        toks += ["K", enc_str(k)]
        for n, (p, v, u, d) in m.items():
            toks += ["N", enc_str(n), enc_str(p), enc_str(v), enc_str(u), enc_str(d)]
    return toks


def dec_sinv(line):
    if line.startswith("!"):
        return ["exc", line[1:]]
    t = line.split(" ")
    out, i, k = [], 1, None
    while i < len(t):
        if t[i] == "K":
            k = dec_str(t[i + 1]); out.append([k, []]); i += 2
        else:
            out[-1][1].append([dec_str(x) for x in t[i + 1:i + 6]]); i += 6
    return ["ok", out]


def rand_text(rng, maxlen=12):
    alpha = "ab c:$-1\t\n\r\x0b\x0c\x1c\x1d\x1e\x1f\x85\xa0\u2028\u2029\u3000٣é /#"
    return "".join(rng.choice(alpha) for _ in range(rng.randint(0, maxlen)))


def rand_bytes(rng):
    k = rng.randrange(4)
    if k == 0:
        return bytes(rng.randrange(256) for _ in range(rng.randint(0, 6)))
    s = "".join(rng.choice(["a", "\n", " ", "é", "\u07ff", "\u0800", "日", "\ud7ff", "\ue000", "\uffff", "\U00010000", "\U0010ffff", "\x7f", "\x80"])
                for _ in range(rng.randint(0, 6))).encode()
    if k == 1:
        return s
    b = bytearray(s)
    for _ in range(rng.randint(1, 2)):
        r = rng.randrange(4)
        if r == 0 and b:
            del b[rng.randrange(len(b))]
        elif r == 1:
            b.insert(rng.randint(0, len(b)), rng.choice([0x80, 0xBF, 0xC0, 0xC1, 0xC2, 0xE0, 0xED, 0xF0, 0xF4, 0xF5, 0xFF, 0xA0, 0x9F, 0x90, 0x8F, 0x0A]))
        elif r == 2 and b:
            i = rng.randrange(len(b)); b[i] = (b[i] + rng.choice([1, -1, 0x20, 0x40])) % 256
        else:
            b = b[:rng.randint(0, len(b))]
    return bytes(b)


def corr_helpers(ctx):
    import re
    from gen import c18_inventory as G
    import ast as _ast
    from lib.common import REPO
    pat, verbose = G.line_regex(G.find_func(_ast.parse((REPO / "myst_parser" / "inventory.py").read_text()), "_load_v2"))
    rx = re.compile(pat, re.VERBOSE if verbose else 0)
    rng = ctx.rng
    reqs, exps, cases = [], [], []

    def add(cmd, args, expected, case):
        reqs.append("\t".join([cmd] + args)); exps.append(expected); cases.append(case)
    n = ctx.budget(4000, 40000, 40000)
    for _ in range(n):
        b = rand_bytes(rng)
        try:
            e = "ok " + enc_str(b.decode())
        except UnicodeDecodeError:
            e = "!UnicodeDecodeError"
        add("decode", [enc_bytes(b)], e, {"kind": "helper", "cmd": "decode", "arg": b.hex()})
    for _ in range(n):
        s = rand_text(rng)
        add("rstrip", [enc_str(s)], enc_str(s.rstrip()), {"kind": "helper", "cmd": "rstrip", "arg": s})
        add("split3", [enc_str(s)], ";".join(enc_str(x) for x in s.split(None, 2)) or ".", {"kind": "helper", "cmd": "split3", "arg": s})
        add("splitlines", [enc_str(s)], ";".join(enc_str(x) for x in s.splitlines()) or ".", {"kind": "helper", "cmd": "splitlines", "arg": s})
        bb = bytes(rng.choice(b"ab \t\n\r\x0b\x0c\x1c\x1f\x85\xa0") for _ in range(rng.randint(0, 8)))
        add("brstrip", [enc_bytes(bb)], enc_bytes(bb.rstrip()), {"kind": "helper", "cmd": "brstrip", "arg": bb.hex()})
        a, b2 = rng.choice(["", "a", "a/", "/", "https://x.org/d", "a/b/", "//"]), rng.choice(["", "b", "/b", "b/", "#x", "/", "b/c#d"])
        add("pjoin", [enc_str(a), enc_str(b2)], enc_str(posixpath.join(a, b2)), {"kind": "helper", "cmd": "pjoin", "arg": [a, b2]})
        sub, hay = rng.choice(["zlib", "z", "", "ab"]), rng.choice(["", "zlib", "# zlib.", "zli", "zzlib", "abab", "zl ib", "b a"]) + rand_text(rng, 3)
        add("contains", [enc_str(sub), enc_str(hay)], "1" if sub in hay else "0", {"kind": "helper", "cmd": "contains", "arg": [sub, hay]})
    for _ in range(ctx.budget(8000, 80000, 80000)):
        row = gen_table(rng, n=1)[0]
        line = v2_line(row)
        for _ in range(rng.choice([0, 1, 1, 2])):
            line = mutate_line(rng, line)
        if rng.random() < 0.1:
            line = rand_text(rng, 14)
        if rng.random() < 0.5:
            line = line.rstrip()
        m = rx.match(line)
        e = "~" if m is None else " ".join(enc_str(g) for g in m.groups())
        add("match", [enc_str(line)], e, {"kind": "helper", "cmd": "match", "arg": line})
    outs = model_run_parallel(PID, reqs)
    for r, e, c, o in zip(reqs, exps, cases, outs):
        ctx.corr_cases += 1
        ctx.count("helper:" + c["cmd"])
        if c["arg"]:
            ctx.nontriv(("h", c["cmd"], repr(c["arg"])))
        if o != e:
            if sum(1 for d in ctx.disagreements if d["what"].startswith("helper")) < 20:
                ctx.disagree("helper " + c["cmd"], c, e, o)


def corr_zlib_oracle(ctx):
    """O_zlib_stream / O_zlib_oneshot on the real zlib: outputs concatenate over any partition, b'' is neutral,
    flush() adds nothing and never raises, one-shot success implies the same streamed output."""
    rng = ctx.rng
    for i in range(ctx.budget(300, 3000, 3000)):
        raw = gen_body_v2(rng, gen_table(rng), True).encode("utf-8", "surrogatepass")
        z = compress(rng, raw, damage=True)
        case = {"kind": "zlib", "z": z.hex()}
        ctx.corr_cases += 1
        ctx.count("oracle:zlib")

        def stream(cuts):
            d = zlib.decompressobj()
            outs, prev = [], 0
            try:
                for c in list(cuts) + [len(z)]:
                    outs.append(d.decompress(z[prev:c])); prev = c
                    if rng.random() < 0.2:
                        outs.append(d.decompress(b""))
                fl = d.flush()
            except zlib.error:
                return "error", b"".join(outs)
            return b"".join(outs) + fl, fl
        one, fl1 = stream([])
        per_byte, _ = stream(range(1, len(z)))
        rnd, fl2 = stream(sorted(rng.sample(range(1, len(z)), min(len(z) - 1, rng.randint(0, 5)))) if len(z) > 1 else [])
        try:
            whole = zlib.decompress(z)
        except zlib.error:
            whole = None
        if not (one == per_byte == rnd) or fl1 not in (b"",) and one != "error" or (whole is not None and one != whole):
            ctx.disagree("oracle O_zlib_stream (real zlib)", case, repr((one, per_byte, rnd, fl1))[:600], repr(whole)[:300])
        if z:
            ctx.nontriv(("z", z.hex()))


def corr_loads(ctx):
    rng = ctx.rng
    reqs, cases, impls = [], [], []
    n_files = ctx.budget(40, 300, 600)
    for i in range(n_files):
        data = gen_file(rng)
        base = rng.choice([None, "https://x.org/d", ""])
        zt = ztable(zpart(data))
        ctx.count("corr:files:" + ("v2" if data.startswith(HDR2.encode()) else "v1" if data.startswith(HDR1.encode()) else "other"))
        for cuts in partitions(rng, data, ctx.budget(150, 500, 1000), ctx.budget(4, 10, 20)):
            reqs.append(load_request(data, cuts, base, zt))
            cases.append({"kind": "load", "data": hexs(data), "cuts": cuts, "base": base})
            impls.append(impl_load(data, cuts, base))
        if i < 2:
            ctx.sample({"file": repr(data)[:400], "example_cuts": cases[-1]["cuts"][:10], "impl": repr(impls[-1])[:300]})
    for i in range(ctx.budget(1, 4, 8)):
        data = gen_large(rng, 2 if i % 2 == 0 else 1)
        zt = ztable(zpart(data))
        for _ in range(ctx.budget(2, 4, 6)):
            cuts = random_cuts(rng, len(data))
            reqs.append(load_request(data, cuts, None, zt))
            cases.append({"kind": "load", "data": hexs(data), "cuts": cuts, "base": None})
            impls.append(impl_load(data, cuts, None))
        ctx.count("corr:files:large")
    outs = model_run_parallel(PID, reqs)
    bad = 0
    for c, im, o in zip(cases, impls, outs):
        ctx.corr_cases += 1
        mo = dec_inv(o)
        ctx.count("corr:load:" + (im[0] if im[0] == "ok" else "exc:" + im[1]))
        if (im[0] == "exc" or im[4]) and len(c["cuts"]) >= 1:
            ctx.nontriv(("l", c["data"][:4000], tuple(c["cuts"][:50])))
        if mo != im:
            bad += 1
            if bad <= 20:
                small = dict(c)
                if len(small["data"]) > 4000:
                    small = {**small, "note": "large file"}
                ctx.disagree("load", small, repr(im)[:800], repr(mo)[:800])


def corr_sphinx_model(ctx):
    """SphinxInv.v (transcription of the installed Sphinx loader) vs the real InventoryFile.loads"""
    rng = ctx.rng
    reqs, cases, exps = [], [], []
    for i in range(ctx.budget(1500, 15000, 15000)):
        data = gen_file(rng)
        uri = rng.choice(["https://x.org/d", "https://x.org/d/", "", "rel"])
        p = data.split(b"\n", 4)
        z = p[4] if len(p) == 5 else b""
        try:
            res = enc_bytes(zlib.decompress(z))
        except zlib.error:
            res = "!"
        reqs.append("\t".join(["sphinx", enc_str(uri), enc_bytes(z), res, enc_bytes(data)]))
        cases.append({"kind": "sphinx", "data": hexs(data), "base": uri})
        s = sphinx_load(data, uri)
        if s[0] == "ok":
            d = {}
            for (typ, name), v in s[1].items():
                d.setdefault(typ, []).append([name] + list(v))
            s = ["ok", [[k, v] for k, v in d.items()]]
        exps.append(s)
    outs = model_run_parallel(PID, reqs)
    bad = 0
    for c, e, o in zip(cases, exps, outs):
        ctx.corr_cases += 1
        ctx.count("corr:sphinx-model:" + (e[0] if e[0] == "ok" else "exc:" + e[1]))
        if e[0] == "ok" and e[1]:
            ctx.nontriv(("s", c["data"][:4000], c["base"]))
        if dec_sinv(o) != e:
            bad += 1
            if bad <= 10:
                ctx.disagree("sphinx model vs InventoryFile.loads", c, repr(e)[:800], repr(dec_sinv(o))[:800])


def corr_convert(ctx):
    from myst_parser import inventory as I
    rng = ctx.rng
    reqs, cases, exps = [], [], []
    for i in range(ctx.budget(1500, 15000, 15000)):
        inv = gen_wf_inventory(rng) if i % 3 == 0 else gen_any_inventory(rng)
        s = I.to_sphinx(inv)
        reqs.append("\t".join(["tosphinx"] + enc_inv(inv)))
        cases.append({"kind": "roundtrip", "inv": inv})
        exps.append(["ok", [[k, [[n] + list(v) for n, v in m.items()]] for k, m in s.items()]])
        if rng.random() < 0.3:       # keys without ':' and empty tables on the Sphinx side
            s = dict(s)
            s[rng.choice(["nocolon", "a:b:c", "x:"])] = rng.choice([{}, {"n": ("p2", "v2", "u", rng.choice(["", "-", "d"]))}])
        reqs.append("\t".join(["fromsphinx"] + enc_sinv(s)))
        cases.append({"kind": "fromsphinx", "sinv": {k: {n: list(v) for n, v in m.items()} for k, m in s.items()}})
        exps.append(observe(lambda: I.from_sphinx(s)))
    outs = model_run_parallel(PID, reqs)
    for c, e, o in zip(cases, exps, outs):
        ctx.corr_cases += 1
        ctx.count("corr:" + ("to_sphinx" if c["kind"] == "roundtrip" else "from_sphinx"))
        got = dec_sinv(o) if c["kind"] == "roundtrip" else dec_inv(o)
        if e[-1] if c["kind"] == "fromsphinx" else e[1]:
            ctx.nontriv(("c", repr(c)))
        if got != e:
            ctx.disagree("to_sphinx" if c["kind"] == "roundtrip" else "from_sphinx", c, repr(e)[:800], repr(got)[:800])


# ------------------------------------------------------------------ glue: fetch_inventory / inventory_cli

CLI_PATS = ["*", "py", "p*", "*y", "std", "s*", "*", "function", "*o*", "m*", "a", "a*", "*a*", "\\*", "", "x", "-", "-1", "*1",
            "*.html*", "a.html*", "*#*", "/abs*", "*$*", "T*", "name*", "* *"]


def wild_spec(p, n):
    """documented wildcard semantics, independently: '*' any run, '\\*' a literal star, anything else itself"""
    toks, i = [], 0
    while i < len(p):
        if p[i] == "\\" and i + 1 < len(p) and p[i + 1] == "*":
            toks.append(("L", "*")); i += 2
        elif p[i] == "*":
            toks.append(("S", None)); i += 1
        else:
            toks.append(("L", p[i])); i += 1
    cur = {0}
    for kind, ch in toks:
        if kind == "S":
            cur = set(range(min(cur), len(n) + 1)) if cur else set()
        else:
            cur = {k + 1 for k in cur if k < len(n) and n[k] == ch}
        if not cur:
            return False
    return len(n) in cur


class FakeUrlopen:
    """stands for urllib.request.urlopen: table url -> bytes (served) | Exception instance (raised)"""

    def __init__(self, table):
        self.table = table
        self.calls = []

    def __call__(self, url, timeout=None):
        self.calls.append(url)
        v = self.table.get(url, OSError("no such url"))
        if isinstance(v, Exception):
            raise v
        return _Ctx(io.BytesIO(v))


class _Ctx:
    def __init__(self, f):
        self.f = f

    def __enter__(self):
        return self.f

    def __exit__(self, *a):
        return False


def run_cli(argv, urlopen=None):
    """inventory_cli(argv) with stdout captured -> ('ok', parsed output) | ('exc', class)"""
    import contextlib
    import json as _json
    import yaml
    from myst_parser import inventory as I
    out = io.StringIO()
    old = I.urlopen
    if urlopen is not None:
        I.urlopen = urlopen
    try:
        with contextlib.redirect_stdout(out), contextlib.redirect_stderr(io.StringIO()):
            I.inventory_cli(argv)
    except SystemExit as e:
        return ["exc", "SystemExit"]
    except Exception as e:
        return ["exc", type(e).__name__]
    finally:
        I.urlopen = old
    text = out.getvalue()
    fmt = "json" if "json" in argv else "yaml"
    return ["ok", _json.loads(text) if fmt == "json" else yaml.safe_load(text)]


def obs_of_invdict(inv):
    return observe(lambda: inv)


def gen_cli_case(rng):
    rows = gen_table(rng, n=rng.randint(0, 8), clean=True)
    data = gen_v2(rng, mutate=False, rows=rows, clean=True) if rng.random() < 0.8 else gen_v1(rng, mutate=False, rows=rows)
    q = [rng.choice(CLI_PATS[:16]) for _ in range(3)]
    loc = rng.choice([None, None, ""] + CLI_PATS[19:] + ["*"])
    return {"kind": "cli", "data": hexs(data), "q": q, "loc": loc, "fmt": rng.choice(["json", "yaml"])}


def cli_argv(path, case):
    argv = [path, "--domain=" + case["q"][0], "--object-type=" + case["q"][1], "--name=" + case["q"][2], "-f", case["fmt"]]
    if case["loc"] is not None:
        argv.append("--loc=" + case["loc"])
    return argv


def cli_expected(inv, case):
    """independent spec: the loaded entries that match the four filters, nested in order of first appearance"""
    out = {"name": inv["name"], "version": inv["version"], "base_url": None, "objects": {}}
    for d, ts in inv["objects"].items():
        for t, es in ts.items():
            for n, it in es.items():
                if wild_spec(case["q"][0], d) and wild_spec(case["q"][1], t) and wild_spec(case["q"][2], n) \
                        and (not case["loc"] or wild_spec(case["loc"], it["loc"])):
                    out["objects"].setdefault(d, {}).setdefault(t, {})[n] = {"loc": it["loc"], "text": it["text"]}
    return out


def check_cli_case(ctx, case, d):
    import os
    from myst_parser import inventory as I
    data = bytes.fromhex(case["data"])
    path = os.path.join(d, "objects.inv")
    with open(path, "wb") as f:
        f.write(data)
    try:
        inv = I.load(io.BytesIO(data))
    except Exception:
        return True
    got = run_cli(cli_argv(path, case))
    want = cli_expected(inv, case)
    if got[0] != "ok" or got[1] != want or order_of(got[1]) != order_of(want):
        ctx.fail("cli:filter", case, "inventory_cli output differs from the loaded entries filtered by the documented wildcard semantics",
                 expected=repr(want)[:1200], observed=repr(got)[:1200])
        return False
    return True


FETCH_URIS = ["http://h.org/a/objects.inv", "https://h.org/a", "http://h.org", "https://h.org/a/", "http://h.org/a/b/c.inv"]


def gen_fetch_case(rng):
    return {"kind": "fetch", "uri": rng.choice(FETCH_URIS + ["FILE", "MISSING", "httpx://h.org/x", "HTTP://h.org/a", "http:/h.org/x", "https:x", "http//h", "xhttp://h.org/a"]),
            "r1": rng.choice(["ok", "exc", "bad"]), "r2": rng.choice(["ok", "exc", "bad"])}


def fetch_outcome(case, d):
    """drive inventory_cli / fetch_inventory through a fake urlopen; returns (cli outcome, fetch outcome, urls opened)"""
    import os
    from urllib.error import URLError
    from myst_parser import inventory as I

    def inv_bytes(tag):
        return (HDR2 + f"\n# Project: {tag}\n# Version: 1\n" + ZLINE + "\n").encode() + zlib.compress(b"a py:function 1 a.html -\n")

    def served(r, tag):
        return inv_bytes(tag) if r == "ok" else URLError("refused") if r == "exc" else b"not an inventory\n"
    uri = case["uri"]
    if uri == "FILE":
        uri = os.path.join(d, "f.inv")
        with open(uri, "wb") as f:
            f.write(inv_bytes("F"))
    elif uri == "MISSING":
        uri = os.path.join(d, "missing.inv")
    fake = FakeUrlopen({uri: served(case["r1"], "U1"), uri + "/objects.inv": served(case["r2"], "U2")})
    cli = run_cli([uri, "-f", "json"], urlopen=fake)
    cli_obs = ["ok", cli[1]["name"], cli[1]["base_url"]] if cli[0] == "ok" else ["exc"]
    fake2 = FakeUrlopen({uri: served("ok", "U")})
    old = I.urlopen
    I.urlopen = fake2
    try:
        try:
            fo = I.fetch_inventory(uri, base_url="B")
            fetch_obs = [fo["name"], fo["base_url"]]
        except Exception as e:
            fetch_obs = ["exc"]
    finally:
        I.urlopen = old
    return uri, cli_obs, fetch_obs, fake.calls


def expected_fetch(uri, case, file_exists):
    """what the docstrings promise: a URL is fetched with urlopen (the URL itself, then URL + /objects.inv), anything else is opened"""
    http = uri.startswith("http://") or uri.startswith("https://")
    if not http:
        return (["ok", "F", None], ["F", "B"]) if file_exists else (["exc"], ["exc"])
    if case["r1"] == "ok":
        cli = ["ok", "U1", uri.rsplit("/", 1)[0]]
    elif case["r2"] == "ok":
        cli = ["ok", "U2", uri]
    else:
        cli = ["exc"]
    return cli, ["U", "B"]


def check_fetch_case(ctx, case, d):
    uri, cli_obs, fetch_obs, calls = fetch_outcome(case, d)
    want_cli, want_fetch = expected_fetch(uri, case, case["uri"] == "FILE")
    if cli_obs != want_cli or fetch_obs != want_fetch:
        ctx.fail("cli:fetch-dispatch", case, "inventory_cli / fetch_inventory did not take the documented source or base URL",
                 expected=repr((want_cli, want_fetch)), observed=repr((cli_obs, fetch_obs, calls)))
        return False
    return True


def corr_cli(ctx):
    from lib.impl import scratch_dir
    from myst_parser import inventory as I
    rng = ctx.rng
    reqs, cases, exps = [], [], []
    with scratch_dir() as d:
        import os
        path = os.path.join(d, "objects.inv")
        for i in range(ctx.budget(400, 4000, 4000)):
            case = gen_cli_case(rng)
            data = bytes.fromhex(case["data"])
            with open(path, "wb") as f:
                f.write(data)
            try:
                inv = I.load(io.BytesIO(data))
            except Exception:
                continue
            got = run_cli(cli_argv(path, case))
            reqs.append("\t".join(["cli", enc_str(case["q"][0]), enc_str(case["q"][1]), enc_str(case["q"][2]),
                                   enc_ostr(case["loc"]), "~"] + enc_inv(inv)))
            cases.append(case)
            exps.append(obs_of_invdict(got[1]) if got[0] == "ok" else got)
            if i == 0:
                ctx.sample({"cli_argv": cli_argv("<scratch>/objects.inv", case), "output": repr(got)[:300]})
        for i in range(ctx.budget(150, 600, 600)):
            case = gen_fetch_case(rng)
            uri, cli_obs, fetch_obs, calls = fetch_outcome(case, d)
            exists = case["uri"] == "FILE"
            reqs.append("\t".join(["clifetch", enc_str(uri), "ok" if case["r1"] == "ok" else "exc",
                                   "ok" if case["r2"] == "ok" else "exc", "ok" if exists else "exc"]))
            cases.append(dict(case, what="cli"))
            exps.append(cli_obs)
            reqs.append("\t".join(["fetch", enc_str(uri)]))
            cases.append(dict(case, what="fetch"))
            exps.append(fetch_obs)
    outs = model_run_parallel(PID, reqs)
    for c, e, o in zip(cases, exps, outs):
        ctx.corr_cases += 1
        if c["kind"] == "cli":
            ctx.count("corr:cli:" + c["fmt"])
            got = dec_inv(o)
            if e[0] == "ok" and e[4]:
                ctx.nontriv(("cli", c["data"][:2000], tuple(c["q"]), c["loc"]))
        elif c["what"] == "cli":
            ctx.count("corr:cli-fetch")
            ctx.nontriv(("clifetch", c["uri"], c["r1"], c["r2"]))
            if o.startswith("!"):
                got = ["exc"]
            else:
                f = o.split(" ")
                got = ["ok", dec_str(f[1]), None if f[2] == "~" else dec_str(f[2])]
        else:
            ctx.count("corr:fetch_inventory")
            # the model names the opener; the implementation result shows it through the project name served
            got = ["exc"] if e == ["exc"] and dec_str(o) == "F" else [dec_str(o), "B"]
        if got != e:
            ctx.disagree("inventory_cli" if c["kind"] == "cli" or c.get("what") == "cli" else "fetch_inventory", c, repr(e)[:800], repr(got)[:800])


def corr(ctx):
    if not ctx.have_runner:
        return
    corr_helpers(ctx)
    corr_zlib_oracle(ctx)
    corr_loads(ctx)
    corr_sphinx_model(ctx)
    corr_convert(ctx)
    corr_cli(ctx)


# ------------------------------------------------------------------ direct property oracle

def hexs(b: bytes):
    return b.hex()


def chunk_ok(ref, got):
    """same result; or the zlib stream itself is corrupt (one read raises zlib.error) and the chunked read fails too,
    with zlib.error or - if an undecodable line came out first - UnicodeDecodeError (C18_chunking_independent)"""
    return ref == got or (ref == ["exc", "error"] and got[0] == "exc" and got[1] in ("error", "UnicodeDecodeError"))


def check_case(ctx, case):
    k = case["kind"]
    if k == "chunk":
        data = bytes.fromhex(case["data"])
        ref = impl_load(data, None, case.get("base"))
        got = impl_load(data, case["cuts"], case.get("base"))
        if not chunk_ok(ref, got):
            ver = "v2" if data.startswith(HDR2.encode()) else "v1" if data.startswith(HDR1.encode()) else "other"
            what = got[1] if got[0] == "exc" else ref[1] if ref[0] == "exc" else "result"
            ctx.fail(f"chunking:{ver}:{what}", case,
                     f"load() through reads split at {case['cuts'][:8]}{'...' if len(case['cuts']) > 8 else ''} differs from load() with one read",
                     expected=repr(ref)[:1200], observed=repr(got)[:1200])
            return False
        return True
    if k == "sphinx":
        data = bytes.fromhex(case["data"])
        r = compare_with_sphinx(data, case["base"])
        if r is not None:
            sig = classify_sphinx_diff(data, case["base"], r[0])
            ctx.fail(sig, case, f"load() differs from sphinx.util.inventory.InventoryFile.loads on the same bytes ({sig})",
                     expected=r[1], observed=r[2])
            return False
        return True
    if k == "roundtrip":
        from myst_parser import inventory as I
        inv = case["inv"]
        try:
            back = I.from_sphinx(I.to_sphinx(inv))
        except Exception as e:
            ctx.fail("roundtrip:exception:" + type(e).__name__, case, f"from_sphinx(to_sphinx(inv)) raised {e!r}")
            return False
        if back != inv or order_of(back) != order_of(inv):
            ctx.fail("roundtrip:lossy", case, "from_sphinx(to_sphinx(inv)) != inv for a well-formed inventory",
                     expected=repr(inv)[:1200], observed=repr(back)[:1200])
            return False
        return True
    if k in ("cli", "fetch"):
        from lib.impl import scratch_dir
        with scratch_dir() as d:
            return check_cli_case(ctx, case, d) if k == "cli" else check_fetch_case(ctx, case, d)
    if k == "badline":
        with_bad = bytes.fromhex(case["data"])
        without = bytes.fromhex(case["without"])
        a, b = impl_load(with_bad), impl_load(without)
        if case["expect"] == "skipped":
            if a != b:
                ctx.fail("badline:not-isolated", case, f"inserting the malformed line {case['line']!r} changes the other entries",
                         expected=repr(b)[:1200], observed=repr(a)[:1200])
                return False
        else:
            if a != ["exc", case["expect"]]:
                ctx.fail("badline:v1-no-error", case, f"v1 line {case['line']!r} with fewer than 3 fields neither skipped nor rejected with {case['expect']}",
                         expected=case["expect"], observed=repr(a)[:1200])
                return False
        return True
    return True


def order_of(inv):
    return [(d, [(t, list(es)) for t, es in ts.items()]) for d, ts in inv["objects"].items()]


def gen_wf_inventory(rng):
    """a well-formed native inventory: non-empty, no empty tables, base_url None, text not in {'', '-'}, no ':' in domains"""
    objs = {}
    for _ in range(rng.randint(1, 4)):
        d = objs.setdefault(rng.choice(["py", "std", "c", "", "js", "dé"]), {})
        for _ in range(rng.randint(1, 3)):
            t = d.setdefault(rng.choice(["module", "function", "label", "a:b", "", ":", "x"]), {})
            for _ in range(rng.randint(1, 3)):
                t[rng.choice(NAMES)] = {"loc": rng.choice(LOCS), "text": rng.choice([None, None, "T", "some text", "- ", " "])}
    return {"name": rng.choice(["proj", "", "P q"]), "version": rng.choice(["1.0", ""]), "base_url": None, "objects": objs}


def gen_any_inventory(rng):
    """arbitrary native inventory (also the ones that do not survive the round trip)"""
    objs = {}
    for _ in range(rng.randint(0, 3)):
        d = objs.setdefault(rng.choice(["py", "std", "a:b", "", "py:x", ":"]), {})
        for _ in range(rng.randint(0, 3)):
            t = d.setdefault(rng.choice(["module", "function", "a:b", "", ":", "x:module"]), {})
            for _ in range(rng.randint(0, 3)):
                t[rng.choice(NAMES[:8])] = {"loc": rng.choice(LOCS[:4]), "text": rng.choice([None, "T", "", "-", "x y"])}
    return {"name": rng.choice(["proj", "", "P q"]), "version": rng.choice(["1.0", ""]),
            "base_url": rng.choice([None, None, "https://x.org/"]), "objects": objs}


def gen_badline_case(rng):
    rows = gen_table(rng, n=rng.randint(1, 6), clean=True)
    if rng.random() < 0.7:
        lines = [v2_line(r) for r in rows]
        bad = rng.choice(["", " ", "garbage", "x y", "name nocolon 1 loc -", "a b:c x d e", "a b:c 1", "# comment", "a  b 1 c d",
                          "only", "x y:z", "name std;label 1 loc -", "a b:c 1x d e", "日本 no 1 x -"])
        p = rng.randint(0, len(lines))
        hdr = gen_header(rng, 2, False).encode()
        lvl = rng.choice([1, 6, 9])
        with_bad = hdr + zlib.compress("".join(l + "\n" for l in lines[:p] + [bad] + lines[p:]).encode(), lvl)
        without = hdr + zlib.compress("".join(l + "\n" for l in lines).encode(), lvl)
        return {"kind": "badline", "data": hexs(with_bad), "without": hexs(without), "line": bad, "expect": "skipped"}
    lines = [v1_line(rng, r) for r in rows]
    hdr = gen_header(rng, 1, False)
    p = rng.randint(0, len(lines))
    if rng.random() < 0.5:
        bad, expect = "", "skipped"
    else:
        bad, expect = rng.choice(["x", "x y", "  ", "\t", "x  mod"]), "ValueError"
    with_bad = (hdr + "".join(l + "\n" for l in lines[:p] + [bad] + lines[p:])).encode()
    without = (hdr + "".join(l + "\n" for l in lines)).encode()
    return {"kind": "badline", "data": hexs(with_bad), "without": hexs(without), "line": bad, "expect": expect}


# fixed regression inputs for the defects this check found on the original tree (see notes/C18.md)
def regression_cases():
    h2 = (HDR2 + "\n# Project: proj\n# Version: 1.0\n" + ZLINE + "\n").encode()
    dup = h2 + zlib.compress(b"m py:module 0 a.html#$ -\nm py:module 0 b.html#$ -\nf py:function 1 a.html -\nf py:function 1 b.html -\n")
    last = h2 + zlib.compress(b"m py:module 0 a.html#$ -\nf py:function 1 a.html Text X")
    v1 = (HDR1 + "\n# Project: p\n# Version: 1\n" + "x" * 1500 + " mod a.html\n").encode()
    return [{"kind": "sphinx", "data": hexs(dup), "base": "https://x.org/d"},
            {"kind": "sphinx", "data": hexs(last), "base": "https://x.org/d"},
            {"kind": "chunk", "data": hexs(v1), "cuts": list(range(1, len(v1))), "base": None}]


def known_open_cases():
    """witnesses of the open findings (must keep reproducing; see notes/C18.findings.json)"""
    h2 = (HDR2 + "\n# Project: proj\n# Version: 1.0\n" + ZLINE + "\n").encode()
    sep = h2 + zlib.compress("a py:function 1 a.html#$ -\x0cb py:function 1 b.html#$ -\n".encode())
    return [{"kind": "sphinx", "data": hexs(sep), "base": "https://x.org/d"}]


def search(ctx):
    rng = ctx.rng
    for c in ctx.suspects[:300]:
        if c and c.get("kind") in ("chunk", "sphinx", "roundtrip", "badline", "cli", "fetch"):
            ctx.search_cases += 1
            check_case(ctx, c)
        elif c and c.get("kind") == "load":
            # a correspondence disagreement on a load: evaluate both oracles on the same bytes / partition
            ctx.search_cases += 2
            check_case(ctx, {"kind": "chunk", "data": c["data"], "cuts": c["cuts"], "base": c.get("base")})
            check_case(ctx, {"kind": "sphinx", "data": c["data"], "base": "https://x.org/d"})
    for c in regression_cases() + known_open_cases():
        ctx.search_cases += 1
        check_case(ctx, c)
    deep = ctx.deep
    # (a) chunking independence, small files: every split point, pairs, one-byte reads, random partitions
    n_files = ctx.budget(60, 500, 1200)
    fails = 0
    for i in range(n_files):
        data = gen_file(rng)
        base = rng.choice([None, "https://x.org/d"])
        ref = impl_load(data, None, base)
        for cuts in partitions(rng, data, ctx.budget(300, 1500, 3000), ctx.budget(5, 20, 40)):
            ctx.search_cases += 1
            if not chunk_ok(ref, impl_load(data, cuts, base)):
                check_case(ctx, {"kind": "chunk", "data": hexs(data), "cuts": cuts, "base": base})
                fails += 1
                break
        ctx.count("search:chunk-files:" + ref[0])
        if fails > 10:
            break
    # large files: random chunk sizes
    for i in range(ctx.budget(2, 10, 20)):
        data = gen_large(rng, 2 if i % 2 == 0 else 1)
        ref = impl_load(data, None, None)
        ctx.count("search:large-files")
        for _ in range(ctx.budget(6, 20, 40)):
            cuts = random_cuts(rng, len(data))
            ctx.search_cases += 1
            if not chunk_ok(ref, impl_load(data, cuts, None)):
                check_case(ctx, {"kind": "chunk", "data": hexs(data), "cuts": cuts, "base": None})
                break
    # (b) agreement with Sphinx's loader on the same bytes
    seen_sigs = {}
    for i in range(ctx.budget(3000, 40000, 80000)):
        data = gen_file(rng)
        base = rng.choice(["https://x.org/d", "https://x.org/d/", "", "rel/dir"])
        ctx.search_cases += 1
        r = compare_with_sphinx(data, base)
        if r is not None:
            sig = classify_sphinx_diff(data, base, r[0])
            seen_sigs[sig] = seen_sigs.get(sig, 0) + 1
            if seen_sigs[sig] <= 3:
                check_case(ctx, {"kind": "sphinx", "data": hexs(data), "base": base})
    for s, n in seen_sigs.items():
        ctx.count("search:" + s, n)
    for i in range(ctx.budget(1, 4, 8)):
        data = gen_large(rng, 2 if i % 2 == 0 else 1)
        ctx.search_cases += 1
        check_case(ctx, {"kind": "sphinx", "data": hexs(data), "base": "https://x.org/d"})
    # (c) to_sphinx / from_sphinx round trip on well-formed inventories
    for i in range(ctx.budget(1500, 20000, 40000)):
        ctx.search_cases += 1
        case = {"kind": "roundtrip", "inv": gen_wf_inventory(rng)}
        if i == 0:
            ctx.sample(case)
        check_case(ctx, case)
    # (d) bad-line isolation
    for i in range(ctx.budget(1500, 20000, 40000)):
        ctx.search_cases += 1
        case = gen_badline_case(rng)
        if i == 0:
            ctx.sample({k: v for k, v in case.items() if k != "without"})
        check_case(ctx, case)
    # (e) glue: inventory_cli output = loaded entries filtered by the documented semantics; source / base URL dispatch
    search_cli(ctx)


def search_cli(ctx):
    from lib.impl import scratch_dir
    rng = ctx.rng
    with scratch_dir() as d:
        for i in range(ctx.budget(400, 4000, 8000)):
            ctx.search_cases += 1
            check_cli_case(ctx, gen_cli_case(rng), d)
        for i in range(ctx.budget(100, 500, 1000)):
            ctx.search_cases += 1
            check_fetch_case(ctx, gen_fetch_case(rng), d)


def replay(ctx, data):
    w = data.get("witness")
    if not w:
        print("replay file names no concrete input:", data.get("no_longer_checks"))
        return 1
    ok = check_case(ctx, w)
    print("replay:", "property holds on this input" if ok else ctx.failures[-1])
    return 0 if ok else 1


LEVEL_TEXT = (
    "Proof (Coq 8.16, 32 theorems in coq/Props/C18.v, every one closed under the global context, coqchk clean). "
    "CODE TIE: InventoryFileReader.read_buffer / readline / readlines / read_compressed_chunks / read_compressed_lines, load, _load_v1, _load_v2, "
    "from_sphinx and to_sphinx are regenerated from inventory.py statement by statement on every run (gen/c18_src.py -> Gen/InventorySrc.v) "
    "and proved equal to the hand-written models (C18_inventory_src_refines); the line regex, _BUFSIZE, header literals and slice offsets of "
    "MyST and of the installed Sphinx are regenerated and proved identical (C18_same_literals). "
    "CHUNKING: for every list of read() results load equals load of the same bytes in one read - header lines, the buffer carried over "
    "into the compressed part, the compressed body - except that for a stream zlib itself rejects every chunking fails, with zlib.error or "
    "UnicodeDecodeError (C18_chunking_independent[_src], C18_any_two_chunkings, C18_live_is_concat; witness that the exception class can differ: "
    "C18_chunking_exception_class_refuted); readline / load never exhaust their fuel (C18_readline_terminates, C18_load_terminates[_src]). "
    "SPHINX: whenever sphinx.util.inventory.InventoryFile.loads accepts the bytes, load accepts them under every chunking and yields "
    "extensionally the same entries (names with spaces, '$', '-', priorities, duplicates incl. py:module, v1 and v2), and the same "
    "project / version for plain-ASCII headers (C18_agrees_with_sphinx[_src]); premises: the header lines are valid UTF-8, and in the decoded "
    "body \\n is the only line separator except \\r directly before \\n (CR LF files are covered); premises are jointly satisfiable "
    "(C18_agrees_premises_satisfiable). The remaining disagreement is characterised, not only witnessed: for EVERY text Sphinx's entries are "
    "MyST's entries of the text with all separators normalised to \\n (C18_sphinx_lines_normalised, C18_separator_characterisation, "
    "C18_separator_agreement_criterion), and each of the nine other separators does disagree (C18_separator_family_refuted, C18_nosep_needed = "
    "the open finding sphinx:splitlines-separator). "
    "BAD LINES: a malformed v2 line / a blank v1 line is skipped and the file loads as without it under every chunking, a short v1 line makes "
    "the load fail (C18_bad_line_isolated, C18_bad_line_isolated_any_chunking, C18_blank_line_skipped_v1, C18_short_line_fails_v1, "
    "C18_bad_line_premises_satisfiable). "
    "ROUND TRIP: from_sphinx(to_sphinx inv) = inv for well-formed inv and each of the seven conditions is needed (C18_sphinx_roundtrip[_src], "
    "C18_roundtrip_conditions_needed, C18_wf_inv_example). "
    "GLUE: fetch_inventory / inventory_cli source and base-URL dispatch, every loaded inventory has unique keys, the CLI loop keeps exactly "
    "the entries matching -d/-o/-n/-l (C18_fetch_dispatch, C18_load_unique_keys, C18_cli_filter_exact); posixpath.join case by case "
    "(C18_posixpath_join, cited by C19). The oracle hypotheses are satisfiable and the UTF-8 ones are PROVED for the executable decoder "
    "(C18_oracles_satisfiable). Every run also compares the extracted model with inventory.load on every split point of generated and mutated "
    "files (quick ~55 k, thorough ~620 k cases) and evaluates the property directly on the implementation (quick ~36 k, thorough ~940 k).")
LEVEL_NOTE = (
    "Trusted: the Coq kernel; the statement-level translator gen/c18_src.py with its domain mapping (coq/InvLoad/SrcPrims.v; listed in TRUSTED: "
    "Python slices / find / dict operations / generators / fuel terms; d[k] in read position is d.get(k, {}), guarded in the source) - the "
    "hand-written models are no longer trusted, they are proved equal to the generated code; coq/InvLoad/SphinxInv.v, a hand transcription of the "
    "installed Sphinx 8.2.3 loader (modelled external, compared with InventoryFile.loads on every run); coq/InvLoad/Cli.v (hand transcription of "
    "the CLI / fetch glue, tied by correspondence through inventory_cli([...]) in json and yaml). Oracles (premises of the theorems, each "
    "exercised on the real library on every run): zlib as a streaming transducer whose state is determined by the consumed prefix "
    "(zlib_stream_ok, zlib_oneshot_ok; measured per byte on the real zlib for every correspondence case), bytes.decode (decode_ok; proved for the "
    "Gallina UTF-8 decoder, which is compared with bytes.decode), re.match of the line pattern (an arbitrary function in the theorems - the same "
    "literal on both sides; the executable engine runs the AST regenerated with re._parser and is compared with re), urlopen / open. "
    "Outside the model: Python's recursion limit and memory, the network. "
    "Defects found and repaired in /repo: duplicate py:module entries kept the last instead of the first (e050a46), the last line of a compressed "
    "body without final newline was dropped (6a08552), readline recursed once per read() -> RecursionError for a long line read in small pieces "
    "(fa52e20). Open finding (KNOWN-FINDING on every run): \\r, VT, FF, FS, GS, RS, NEL, LS, PS inside a line are line breaks for Sphinx 8.2 "
    "(str.splitlines) and ordinary whitespace for MyST; Sphinx's own dump does not escape them, so mimicking it is not obviously right.")
