"""C04 - nodes and warnings carry the true source line, at any nesting depth."""
import os
import random
import re

from lib.common import model_run, src_hashes

PID = "C04"
RULE = ("search: generated documents of nested blocks (block quotes, bullet/ordered lists, backtick and colon directives "
        "note/tip/warning/admonition with no/colon/dash option block, 0-3 blank lines before and 0-2 after the body, plain ::: divs, "
        "{include} of generated files with start-line/start-after/end-before, nesting depth <= 5; "
        "directives that reach the other line-carrying mock methods - epigraph/pull-quote/highlights (block_quote + attribution), "
        "topic/sidebar/admonition/rubric/table/list-table titles and parsed-literal (inline_text), line-block, role "
        "(parse_directive_block), compound/container, image/figure/code-block - each with 0-2 blank lines before the body, at top "
        "level and nested) in which every leaf "
        "(paragraph, heading, fenced/indented code, target, unknown role, unknown directive, unknown option, Markdown table, "
        "definition / field list, footnote definition, block break, line comment, html / math block, front matter) carries a "
        "unique marker; oracle: node.line == 1-based line of the construct in its file and node.source == that file, for "
        "paragraph/title/section/rubric/literal_block/target/bullet_list/enumerated_list/list_item/block_quote/admonitions/"
        "container/table/row/entry/attribution/topic/sidebar/compound/line_block/..., and the [myst.*] and ERROR-level warnings "
        "naming a marker carry that line and file; the same documents (174 fixed + random) are built by Sphinx (dummy builder, one "
        "project per batch) and every expected warning must be located at '<path of its file>:<true line>' (signatures sphinx:*); "
        "correspondence: the extracted Coq line model (Dir/Lines.v, which runs the C08 model of parse_directive_text on the "
        "printed directive content) predicts the line of every construct of the same documents; "
        "non-trivial = document with a directive, include or container at depth >= 2")
TRUSTED = ["gen/c04_linessrc.py: the arithmetic expressions of token_line, _render_tokens, nested_render_text, run_directive "
           "(content_offset, warning line), MockState.nested_parse, MockIncludeDirective.run (lineno, start-after advance) located "
           "structurally and regenerated into coq/Gen/LinesSrc.v; coq/Dir/Lines.v computes every line through them "
           "(C04_arithmetic_src); likewise MockState.block_quote (offset handed to nested_parse, attribution lineno and line), "
           "MockInliner.parse (lineno handed to nested_render_text), MockState.parse_directive_block, "
           "MockStateMachine.get_source_and_line (C04_mock_methods_src, C04_directive_title_offset); trusted: the site location and the mapping Python int -> Z, token.map[i] -> map_i, "
           "attribute -> parameter, str.count('\\n', 0, e) -> count_nl_upto",
           "coq/Dir/Lines.v is a hand transcription of the control structure around that arithmetic in _render_tokens / nested_render_text / "
           "render_directive / run_directive / MockState.nested_parse / MockIncludeDirective.run",
           "markdown-it-py block parser: token.map, fence content (oracles O_map, O_fence_content)",
           "docutils admonition directives call nested_parse(content, content_offset, node) (O_adm)"]
ORACLES = {
    "O_map": "a block token's map[0] is the 0-based index of its first line within the text handed to the parser: "
             "every generated document (the oracle compares against positions known by construction)",
    "O_fence_content": "a fence token's content is exactly the lines between the fences (container prefixes removed): "
                       "directives inside quotes/lists in the generated documents",
    "O_parse_ok": "Section hypothesis of coq/Dir/LinesProofs.v (C04_lines_nested): parse_directive_text succeeds on the printed "
                  "directive content (no MarkupError, the option block tokenizes); C04_parse_ok_when discharges it for classes "
                  "without arguments once the tokenizer accepts the block, C04_lines_nested_c07 discharges it with the C07 model; "
                  "exercised by every correspondence document with a directive (the model runs parse_directive_text on the "
                  "printed content and the implementation must place the body where the model says)",
    "O_adm": "admonition-type directives nested_parse their content at content_offset: note/tip/warning/admonition cases",
    "tokenize": "options_to_items on the printed option lines (C07/C08 oracle); C04_lines_nested_c07 instantiates it with the C07 "
                "model, whose C07_only_tokenize_error discharges the accepts-every-text premise for classes without arguments",
    "inline": "markdown-it gives inline tokens no map of their own; _render_tokens copies the block's (model: Leaf ins); "
              "correspondence on unknown-role warnings written on the 1st..3rd line of a paragraph",
}
ASSUMPTIONS = ["docutils front end (publish with MyST Parser); line numbers observed directly after Parser.parse (no transforms)",
               "Sphinx front end: only the location prefix 'path:line' of the warning stream is observed (dummy builder)",
               "option warnings of a directive may carry the line of the directive or of its option block opener "
               "(colon style reports the former, dash style the latter; both pinned by the repository's fixtures)"]

EXT = ["colon_fence", "deflist", "fieldlist", "dollarmath", "amsmath", "attrs_block"]
# container-type directives -> the node they produce.  Beyond the admonitions (which call state.nested_parse themselves):
# epigraph / pull-quote / highlights go through MockState.block_quote (+ attribution), topic / sidebar through
# inline_text (title) + nested_parse, compound / container through nested_parse.
ADM = {"note": "note", "tip": "tip", "warning": "warning", "admonition": "admonition",
       "epigraph": "block_quote", "pull-quote": "block_quote", "highlights": "block_quote",
       "topic": "topic", "sidebar": "sidebar", "compound": "compound", "container": "container"}
TITLED = ("admonition", "topic", "sidebar")          # need an argument (the title)
QUOTED = ("epigraph", "pull-quote", "highlights")    # no option_spec, body through state.block_quote
NO_CLASS_OPT = QUOTED + ("container",)


def gen(ctx):
    from gen import c08_unicode, c08_dirsrc, c04_linessrc
    from lib import common
    c08_unicode.generate(ctx)
    # source-translation tie: the line arithmetic of base.py / mocking.py and the splitter of directives.py
    text = c04_linessrc.generate(common.REPO)
    changed = common.write_if_changed(common.COQ / "Gen" / "LinesSrc.v", text)
    ctx.gen_info["LinesSrc"] = {"definitions": text.count("Definition"), "rewritten": changed}
    text = c08_dirsrc.generate(common.REPO)
    common.write_if_changed(common.COQ / "Gen" / "DirSrc.v", text)
    ctx.gen_info["sources"] = src_hashes(["myst_parser/parsers/directives.py", "myst_parser/mdit_to_docutils/base.py",
                                          "myst_parser/mocking.py"])


# ------------------------------------------------------------------ document trees

class B:
    __slots__ = ("kind", "mk", "ch", "p", "start", "file", "chain")

    def __init__(self, kind, mk, ch=None, **p):
        self.kind, self.mk, self.ch, self.p = kind, mk, ch or [], p
        self.start = None      # 1-based line of the construct's first line within its file
        self.file = None
        self.chain = ()        # re-parse contexts from the outermost to the innermost

    def to_json(self):
        return {"kind": self.kind, "mk": self.mk, "p": self.p,
                "ch": [[c.to_json() for c in it] for it in self.ch] if self.kind in ("blist", "olist")
                else [c.to_json() for c in self.ch]}

    @staticmethod
    def from_json(d):
        if d["kind"] in ("blist", "olist"):
            ch = [[B.from_json(c) for c in it] for it in d["ch"]]
        else:
            ch = [B.from_json(c) for c in d["ch"]]
        return B(d["kind"], d["mk"], ch, **d["p"])


# further leaf constructs: kind -> (lines, [(tag, which marker, line offset)], [(warning needle prefix, offset)])
# markers: 0 = the block's own marker mk, 1.. = the extra markers in p["x"]
def _m(b, i):
    return b.mk if i == 0 else b.p["x"][i - 1]


XLEAF = {
    "table": (2, lambda b: [f"| th mk{_m(b,0)} | b |", "|---|---|", f"| td mk{_m(b,1)} | 2 |", f"| td mk{_m(b,2)} | 4 |"],
              [("table", 0, 0), ("row", 0, 0), ("entry", 0, 0), ("paragraph", 0, 0),
               ("row", 1, 2), ("entry", 1, 2), ("paragraph", 1, 2), ("row", 2, 3), ("entry", 2, 3), ("paragraph", 2, 3)]),
    "deflist": (1, lambda b: [f"Term mk{_m(b,0)}", f": Definition mk{_m(b,1)}"],
                [("definition_list", 0, 0), ("definition_list_item", 0, 0), ("term", 0, 0), ("definition", 1, 1), ("paragraph", 1, 1)]),
    "fieldlist": (1, lambda b: [f":field: value mk{_m(b,0)}", f":other: value mk{_m(b,1)}"],
                  [("field_list", 0, 0), ("field", 0, 0), ("paragraph", 0, 0), ("field", 1, 1), ("paragraph", 1, 1)]),
    "footdef": (0, lambda b: [f"[^fn{_m(b,0)}]: footnote mk{_m(b,0)}", "    more"], [("footnote", 0, 0), ("paragraph", 0, 0)]),
    "bbreak": (0, lambda b: [f"+++ mk{_m(b,0)}"], [("comment", 0, 0)]),
    "lcomment": (0, lambda b: [f"% cmk{_m(b,0)}"], [("comment", 0, 0)]),
    "html": (0, lambda b: ["<div>", f"html mk{_m(b,0)}", "</div>"], [("raw", 0, 0)]),
    "math": (0, lambda b: ["$$", f"x mk{_m(b,0)}", "$$"], [("math_block", 0, 0)]),
    "amsmath": (0, lambda b: ["\\begin{equation}", f"mk{_m(b,0)}", "\\end{equation}"], [("math_block", 0, 0)]),
    # inline constructs on later lines of a paragraph carry the line of the paragraph (see notes: reading)
    "para3": (0, lambda b: [f"para mk{_m(b,0)} text", f"second [lmk{_m(b,0)}](http://x.org/a) ![imk{_m(b,0)}](i.png) <span>h</span>",
                            f"third {{rmk{_m(b,0)}}}`x` end"],
              [("paragraph", 0, 0), ("reference", 0, 0), ("image", 0, 0)]),
    # directives with their own line logic (search only)
    "figure": (1, lambda b: ["```{figure} img.png", f":name: fmk{_m(b,0)}", "", f"caption mk{_m(b,0)}", "", f"legend mk{_m(b,1)}", "```"],
               [("figure", 0, 0), ("caption", 0, 3), ("paragraph", 1, 5)]),
    "codeblock": (0, lambda b: ["```{code-block} python", f":name: cbmk{_m(b,0)}", "", f"code mk{_m(b,0)}", "```"],
                  [("literal_block", 0, 0)]),
    "tabledir": (2, lambda b: [f"```{{table}} Title mk{_m(b,0)}", f":name: tbmk{_m(b,0)}", "", f"| th mk{_m(b,1)} | b |", "|---|---|",
                               f"| td mk{_m(b,2)} | 2 |", "```"],
                 [("table", 0, 3), ("title", 0, 0), ("row", 1, 3), ("paragraph", 1, 3), ("row", 2, 5), ("paragraph", 2, 5)]),
}
def _bb(b):
    return [""] * b.p.get("bb", 0)


# directives whose body goes through other MockState / MockInliner methods, each with 0-2 blank lines before the body
XLEAF.update({
    # LineBlock: state.inline_text(line, self.lineno + self.content_offset) per line, then nest_line_block_lines
    "lineblock": (1, lambda b: ["```{line-block}"] + _bb(b) + [f"line mk{_m(b,0)} {{rmk{_m(b,0)}}}`x`",
                                                                f"  second mk{_m(b,1)} {{rmk{_m(b,1)}}}`x`", "```"],
                  [("line_block", 0, 0, "inherit")]),
    # ParsedLiteral: state.inline_text(text, self.lineno); node.line = content_offset + 1
    "parsedlit": (0, lambda b: ["```{parsed-literal}"] + _bb(b) + [f"lit mk{_m(b,0)} {{rmk{_m(b,0)}}}`x`", "```"],
                  [("literal_block", 0, "body")]),
    # titles through state.inline_text(title, self.lineno)
    "rubricdir": (0, lambda b: [f":::{{rubric}} Rubric mk{_m(b,0)} {{rmk{_m(b,0)}}}`x`", ":::"], [("rubric", 0, 0, "inherit")]),
    "topictitle": (1, lambda b: [f":::{{topic}} Topic mk{_m(b,0)} {{rmk{_m(b,0)}}}`x`"] + _bb(b) + [f"body mk{_m(b,1)}", ":::"],
                   [("topic", 0, 0), ("paragraph", 1, "body")]),
    "admtitle": (1, lambda b: [f":::{{admonition}} Adm mk{_m(b,0)} {{rmk{_m(b,0)}}}`x`"] + _bb(b) + [f"body mk{_m(b,1)}", ":::"],
                 [("admonition", 0, 0), ("paragraph", 1, "body")]),
    # Contents: title through state.inline_text(title, self.lineno); only directly in the document / a section
    "contentsdir": (0, lambda b: [f":::{{contents}} Contents mk{_m(b,0)} {{rmk{_m(b,0)}}}`x`", ":::"], [("topic", 0, 0)]),
    # Meta: state.nested_list_parse, which the mock does not provide: 'cannot be mocked' error at the directive's line
    "metadir": (0, lambda b: ["```{meta}"] + _bb(b) + [f":keywords: mk{_m(b,0)}", "```"], []),
    "imagedir": (0, lambda b: ["```{image} img.png", f":alt: alt mk{_m(b,0)}", "```"], [("image", 0, 0)]),
    # Role: state.parse_directive_block; its error is reported at self.lineno
    "roledir": (0, lambda b: [f"```{{role}} rolemk{_m(b,0)}(basemk{_m(b,0)})", "```"], []),
    # ListTable: nested_parse of a bullet list that becomes the table body
    "listtable": (2, lambda b: [f":::{{list-table}} LT mk{_m(b,0)}"] + _bb(b) + [f"* - a mk{_m(b,1)} {{rmk{_m(b,1)}}}`x`", "  - b",
                                                                               f"* - c mk{_m(b,2)}", "  - d", ":::"],
                  [("title", 0, 0), ("paragraph", 1, "body"), ("paragraph", 2, "body+2")]),
})
MOCK_LEAVES = ("lineblock", "parsedlit", "rubricdir", "topictitle", "admtitle", "imagedir", "roledir", "listtable",
               "contentsdir", "metadir")
COLON_LEAVES = ("rubricdir", "topictitle", "admtitle", "listtable", "contentsdir")
TOP_ONLY_LEAVES = ("topictitle", "contentsdir")
FIXED_ONLY_LEAVES = ("metadir",)      # its error message names no marker: one per document, fixed cases only
XWARN = {"para3": [("rmk", 0, 0, "role")],
         "lineblock": [("rmk", 0, "body", "role"), ("rmk", 1, "body+1", "role")],
         "parsedlit": [("rmk", 0, "body", "role")],
         "rubricdir": [("rmk", 0, 0, "role")], "topictitle": [("rmk", 0, 0, "role")], "admtitle": [("rmk", 0, 0, "role")],
         "contentsdir": [("rmk", 0, 0, "role")], "metadir": [("nested_list_parse", None, 0, "mocking-error")],
         "roledir": [("basemk", 0, 0, "role-directive")],
         "listtable": [("rmk", 1, "body", "role")]}


def _off(b, off):
    """line offset of a record inside a mock-directive leaf: numbers, or 'body(+k)' = first body line (+k)."""
    if isinstance(off, int):
        return off
    k = int(off[5:]) if len(off) > 4 else 0
    nopt = 1 if b.kind == "imagedir" else 0
    return 1 + nopt + b.p.get("bb", 0) + k
BACKTICK_LEAVES = ("figure", "codeblock", "tabledir", "lineblock", "parsedlit", "imagedir", "roledir", "metadir")


class Gen:
    def __init__(self, rng, max_depth=5, allow_include=True):
        self.rng, self.n, self.max_depth, self.allow_include = rng, 0, max_depth, allow_include
        self.files = {}

    def mk(self):
        self.n += 1
        return self.n

    def leaf(self, prev_kind, in_item_first=False, top=False):
        r = self.rng
        kinds = ["para", "para", "para2", "heading", "code", "target", "badrole", "baddir"]
        if not in_item_first and r.random() < 0.45:
            # two adjacent definition / field lists would merge into one (and markdown-it maps the definitions of
            # such a loose list to their term's line)
            # docutils allows topic (and sidebar) only directly in the document / a section
            k = r.choice(sorted(x for x in XLEAF if (x != prev_kind or x not in ("deflist", "fieldlist"))
                                and (top or x not in TOP_ONLY_LEAVES) and x not in FIXED_ONLY_LEAVES))
            b = B(k, self.mk())
            b.p["x"] = [self.mk() for _ in range(XLEAF[k][0])]
            if k in MOCK_LEAVES:
                b.p["bb"] = r.choice([0, 0, 1, 2])
            return b
        if prev_kind in ("para", "para2", "heading", "code", "target", "quote", "dir", "div", "badrole", "baddir") and not in_item_first:
            kinds.append("icode")
        if in_item_first:
            kinds = ["para", "para2", "heading", "code", "badrole"]
        b = B(r.choice(kinds), self.mk())
        if b.kind == "code":
            b.p["lang"] = r.choice(CODE_LANGS)
            if not in_item_first and r.random() < 0.4:
                b.p["attrs"] = r.choice(sorted(CODE_ATTRS))
        return b

    def block(self, depth, prev_kind, first_in=None):
        r = self.rng
        if depth >= self.max_depth or r.random() < 0.35:
            return self.leaf(prev_kind, in_item_first=(first_in == "item"), top=(depth == 1 and self.allow_include))
        opts = ["quote", "dir", "dir", "dir", "div"]
        if prev_kind not in ("blist", "olist"):
            opts += ["blist", "olist"]
        if self.allow_include and first_in != "item":
            opts.append("include")
        if first_in == "item":
            opts = ["quote", "dir"]
        k = r.choice(opts)
        if k == "quote":
            return B("quote", self.mk(), self.seq(depth + 1, r.randint(1, 3)))
        if k in ("blist", "olist"):
            items = [self.seq(depth + 1, r.randint(1, 2), first_in="item") for _ in range(r.randint(1, 3))]
            return B(k, self.mk(), items, tight=r.random() < 0.5)
        if k == "div":
            return B("div", self.mk(), self.seq(depth + 1, r.randint(1, 2)), blank_before=r.choice([0, 0, 1, 1, 2, 3]), blank_after=r.choice([0, 0, 1, 2]))
        if k == "include":
            return self.include(depth)
        name = r.choice(["note", "note", "tip", "warning", "admonition", "epigraph", "pull-quote", "highlights",
                         "topic", "sidebar", "compound", "container"])
        fence = "`" if first_in == "item" else r.choice(["`", "`", ":"])
        style = r.choice(["none", "none", "colon", "dash"])
        if name in ("topic", "sidebar") and not (depth == 1 and self.allow_include):
            name = "note"      # docutils allows these only directly in the document / a section
        if name in NO_CLASS_OPT:
            style = "none"
        nopts = r.randint(1, 2) if style != "none" else 0
        if name in QUOTED:
            # block_quote() looks for an attribution ("-- x" after a blank line) in the raw lines: leaves only
            kids = [self.leaf(None) for _ in range(r.randint(1, 3))]
            kids = [k if k.kind in ("para", "para2", "code", "heading", "target", "badrole", "baddir", "para3", "html", "math")
                    else B("para", k.mk) for k in kids]
        else:
            kids = self.seq(depth + 1, r.randint(1, 3))
        if kids[0].kind == "fieldlist":        # directly after the opening line it would be the directive's options
            kids[0] = B("para", kids[0].mk)
        bb = r.choice([0, 0, 1, 1, 2, 3])
        # a ':::' fence directly after the opening line or after ':key:' options would be read as an option line
        # (the renderer only handles it for a colon directive without options, by its prepended-line trick)
        if not bb and (kids[0].kind in COLON_LEAVES or
                       (kids[0].kind in ("div", "dir") and kids[0].p.get("fence", ":") == ":")):
            if not ((fence == ":" and style == "none") or style == "dash"):
                bb = 1
        blk = B("dir", self.mk(), kids, name=name, fence=fence, style=style, nopts=nopts,
                 badopt=(style != "none" and r.random() < 0.25), blank_before=bb, blank_after=r.choice([0, 0, 1, 2]),
                 firstline=False)
        if name in QUOTED and r.random() < 0.5:
            blk.p["attrib"] = self.mk()
        if name in ("container",):
            return blk
        if name not in TITLED and name not in ("container",) and r.random() < 0.12:
            # text on the first line is the first body line: keep it a paragraph of its own
            blk.p["firstline"], blk.p["blank_before"] = True, max(1, bb)
        return blk

    def seq(self, depth, n, first_in=None):
        out, prev = [], None
        for i in range(n):
            b = self.block(depth, prev, first_in=first_in if i == 0 else None)
            out.append(b)
            prev = b.kind
        return out

    def include(self, depth):
        r = self.rng
        fname = f"inc{self.mk()}.md"
        sub = Gen(r, max_depth=max(depth + 1, self.max_depth - 1), allow_include=False)
        sub.n = self.n + 1000 * (len(self.files) + 1)
        pre = sub.seq(depth + 1, r.randint(0, 2))
        body = sub.seq(depth + 1, r.randint(1, 3))
        post = sub.seq(depth + 1, r.randint(0, 1))
        mode = r.choice(["plain", "plain", "start-after", "start-after", "start-line", "end-before"])
        self.files[fname] = {"pre": pre, "body": body, "post": post, "mode": mode}
        return B("include", self.mk(), [], fname=fname, mode=mode)


def fence_heights(b):
    """minimal fence lengths so that nested fences of the same character close correctly."""
    hb = hc = 0
    kids = [c for it in b.ch for c in it] if b.kind in ("blist", "olist") else b.ch
    for c in kids:
        x, y = fence_heights(c)
        hb, hc = max(hb, x), max(hc, y)
    if b.kind == "dir":
        if b.p["fence"] == "`":
            hb += 1
        else:
            hc += 1
        b.p["flen"] = 2 + (hb if b.p["fence"] == "`" else hc)
    elif b.kind == "div":
        hc += 1
        b.p["flen"] = 2 + hc
    elif b.kind in ("baddir", "include") + BACKTICK_LEAVES:
        hb = max(hb, 1)
    elif b.kind in COLON_LEAVES:
        hc = max(hc, 1)
    return hb, hc


OPTS = [("class", "c1"), ("name", None)]
CODE_LANGS = ["text", "text", "", "python", "mermaidxyz", "mermaidxyz", "python extra words", "mermaidxyz extra words"]
CODE_ATTRS = {"lineno": ["{lineno-start=3}"], "emph": ['{emphasize-lines="1"}'], "both": ['{lineno-start=3 emphasize-lines="1"}']}


def print_seq(bs, start, file, chain, files, out_records):
    """lines of a block sequence; records (block, start) for every construct. [start] = 1-based line of the first line."""
    lines = []
    for i, b in enumerate(bs):
        if i:
            lines.append("")
        lines += print_block(b, start + len(lines), file, chain, files, out_records)
    return lines


def print_block(b, start, file, chain, files, rec):
    b.start, b.file, b.chain = start, file, chain
    rec.append(b)
    k, mk = b.kind, f"mk{b.mk}"
    if k == "para":
        return [f"para {mk} text"]
    if k == "para2":
        return [f"para {mk} text", "continued line"]
    if k == "badrole":
        return [f"para {mk} with {{r{mk}}}`x` role"]
    if k == "heading":
        return [f"# Head {mk}"]
    if k == "code":
        # fence variants: no / known / unknown-to-Pygments language, extra info words, attrs_block line before the fence
        pre = CODE_ATTRS.get(b.p.get("attrs"), [])
        b.start = start + len(pre)          # the literal_block sits on the fence's line
        return pre + ["~~~" + b.p.get("lang", "text"), f"code {mk}", "~~~"]
    if k == "icode":
        return [f"    icode {mk}"]
    if k == "target":
        return [f"({mk})="]
    if k in XLEAF:
        return XLEAF[k][1](b)
    if k == "baddir":
        return [f"```{{d{mk}}}", "x", "```"]
    if k == "quote":
        inner = print_seq(b.ch, start, file, chain, files, rec)
        return [("> " + l) if l else ">" for l in inner]
    if k in ("blist", "olist"):
        lines = []
        bullet = ("-*+"[len(chain) % 3] + " ") if k == "blist" else "1. "
        ind = " " * len(bullet)
        for j, item in enumerate(b.ch):
            if j and not b.p["tight"]:
                lines.append("")
            it = B("item", b.mk * 100 + j, item)
            it.start, it.file, it.chain = start + len(lines), file, chain
            rec.append(it)
            inner = print_seq(item, start + len(lines), file, chain, files, rec)
            lines += [(bullet if n == 0 else ind) + l if l else "" for n, l in enumerate(inner)]
        return lines
    if k == "div":
        f = ":" * b.p["flen"]
        head = [f + f"box{mk}"] + [""] * b.p["blank_before"]
        inner = print_seq(b.ch, start + len(head), file, chain + (("div", b.mk),), files, rec)
        return head + inner + [""] * b.p["blank_after"] + [f]
    if k == "dir":
        p = b.p
        f = p["fence"] * p["flen"]
        first = f + "{" + p["name"] + "}"
        if p["name"] in TITLED:
            first += f" Title {mk}"
        elif p["name"] == "container":
            first += " cls"
        elif p["firstline"]:
            first += f" firstline {mk}"
        opts = []
        pairs = [(kk, (vv or f"n{mk}")) for kk, vv in OPTS[:p["nopts"]]]
        if p["badopt"]:
            pairs.append((f"k{mk}", "v"))
        if p["style"] == "colon":
            opts = [f":{kk}: {vv}" for kk, vv in pairs]
        elif p["style"] == "dash":
            opts = ["---"] + [f"{kk}: {vv}" for kk, vv in pairs] + ["---"]
        head = [first] + opts + [""] * p["blank_before"]
        flags = ["dir"]
        if p["firstline"] and p["name"] not in TITLED:
            flags.append("firstline-body")
        first_child = b.ch[0] if b.ch else None
        if p["fence"] == ":" and not opts and not p["blank_before"] and first_child is not None and \
                first_child.kind in ("dir", "div") and first_child.p.get("fence", ":") == ":":
            flags.append("colon-nested-first")
        inner = print_seq(b.ch, start + len(head), file, chain + ((":".join(flags), b.mk, len(opts)),), files, rec)
        if p.get("attrib"):
            a = B("attrib", p["attrib"])
            a.start, a.file, a.chain = start + len(head) + len(inner) + 1, file, chain + ((":".join(flags), b.mk, len(opts)),)
            rec.append(a)
            inner = inner + ["", f"-- Author mk{p['attrib']} {{rmk{p['attrib']}}}`x`"]
        return head + inner + [""] * p["blank_after"] + [f]
    if k == "include":
        p = b.p
        spec = files[p["fname"]]
        ftext, fstart = print_file(spec, p["fname"], chain + (("include:" + p["mode"], b.mk),), files, rec)
        files[p["fname"]]["text"] = ftext
        o = []
        if p["mode"] == "start-after":
            o = [":start-after: STARTMARK"]
        elif p["mode"] == "start-line":
            o = [f":start-line: {spec['skip']}"]
        elif p["mode"] == "end-before":
            o = [":end-before: ENDMARK"]
        return ["```{include} " + p["fname"]] + o + ["```"]
    raise AssertionError(k)


def print_file(spec, fname, chain, files, rec):
    """an included file: pre blocks, (marker line), body blocks, (end marker), post blocks."""
    mode = spec["mode"]
    lines = []
    dead = []
    if spec["pre"] and mode in ("start-after", "start-line"):
        lines += print_seq(spec["pre"], 1, fname, chain, files, dead) + [""]
    if mode == "start-after":
        lines += ["STARTMARK", ""]
    spec["skip"] = len(lines)
    lines += print_seq(spec["body"], len(lines) + 1, fname, chain, files, rec)
    if mode == "end-before":
        lines += ["", "ENDMARK"]
        if spec["post"]:
            lines += [""] + print_seq(spec["post"], len(lines) + 2, fname, chain, files, dead)
    return "\n".join(lines) + "\n", spec["skip"]


def first_marker(b, files=None):
    """the first marker, in document order, that is visible as text inside the node of this construct
    (targets, unknown directives and empty includes leave no text)."""
    files = files or {}
    if b.kind in ("target", "baddir", "imagedir", "roledir", "metadir"):
        return None
    if b.kind == "lcomment":
        return b.mk
    if b.kind == "include":
        return first_of(files.get(b.p["fname"], {}).get("body", []), files)
    if b.kind in ("blist", "olist"):
        return first_of([c for it in b.ch for c in it], files)
    if b.kind == "attrib":
        return b.mk
    if b.kind == "dir" and (b.p["name"] in TITLED or b.p["firstline"]):
        return b.mk
    if b.kind in ("quote", "item", "dir", "div"):
        m = first_of(b.ch, files)
        return m if m is not None else b.p.get("attrib")
    return b.mk


def first_of(bs, files):
    for c in bs:
        m = first_marker(c, files)
        if m is not None:
            return m
    return None


TAGS = {"para": ["paragraph"], "para2": ["paragraph"], "badrole": ["paragraph"], "code": ["literal_block"],
        "icode": ["literal_block"], "target": ["target"], "quote": ["block_quote"], "blist": ["bullet_list"],
        "olist": ["enumerated_list"], "item": ["list_item"], "div": ["container"]}


def expected_records(recs, main, files=None):
    """(tag, first marker, line, file, chain) in pre-order, plus the expected warnings."""
    nodes, warns = [], []
    for b in recs:
        fm = first_marker(b, files)
        if b.kind == "target":
            fm = b.mk
        if b.kind == "heading":
            top = not any(c[0].split(":")[0] in ("dir", "div") for c in b.chain) and b.p.get("top", False)
            nodes.append(("heading", b.mk, b.start, b.file, b.chain))
        elif b.kind == "dir":
            nodes.append((ADM[b.p["name"]], fm, b.start, b.file, b.chain))
            if b.p["badopt"]:
                warns.append((f"kmk{b.mk}", {b.start, b.start + 1}, b.file, b.chain, "option"))
            if b.p["firstline"] and b.p["name"] not in TITLED:
                # the first-line text is a paragraph that starts on the directive's own line
                nodes.append(("paragraph", b.mk, b.start, b.file, b.chain + (("dir:firstline-body", b.mk, 0),)))
        elif b.kind == "attrib":
            nodes.append(("attribution", b.mk, b.start, b.file, b.chain))
            warns.append((f"rmk{b.mk}", {b.start}, b.file, b.chain, "role"))
        elif b.kind == "baddir":
            warns.append((f"dmk{b.mk}", {b.start}, b.file, b.chain, "directive"))
        elif b.kind == "include":
            pass
        elif b.kind in XLEAF:
            for rec_ in XLEAF[b.kind][2]:
                tag, which, off = rec_[:3]
                # rows / entries carry their row's line; the cell paragraph has none of its own (open finding, pinned)
                cell = tag == "paragraph" and b.kind in ("table", "tabledir")
                extra = (("table-cell", b.mk),) if cell else (("docutils-code-block", b.mk),) if b.kind == "codeblock" else ()
                if len(rec_) > 3 and rec_[3] == "inherit":
                    extra = (("docutils-code-block", b.mk),)      # the directive sets no line itself: own line or None
                if b.kind == "parsedlit":
                    extra = (("parsed-literal", b.mk, b.p.get("bb", 0)),)
                if b.kind == "contentsdir":
                    extra = (("contents-topic", b.mk),)
                nodes.append((tag, _m(b, which), b.start + _off(b, off), b.file, b.chain + extra))
            for pre, which, off, what in XWARN.get(b.kind, []):
                extra = (("parsed-literal", b.mk, b.p.get("bb", 0)),) if b.kind == "parsedlit" else \
                    (("directive-title", b.mk),) if b.kind in ("rubricdir", "topictitle", "admtitle", "contentsdir") else ()
                warns.append((pre if which is None else f"{pre}{_m(b, which)}", {b.start + _off(b, off)}, b.file, b.chain + extra, what))
        else:
            for t in TAGS[b.kind]:
                nodes.append((t, fm, b.start, b.file, b.chain))
            if b.kind == "badrole":
                warns.append((f"rmk{b.mk}", {b.start}, b.file, b.chain, "role"))
    return nodes, warns


def build_case(rng, max_depth=5, nblocks=None):
    g = Gen(rng, max_depth=max_depth)
    doc = g.seq(1, nblocks or rng.randint(1, 4))
    return {"doc": [b.to_json() for b in doc], "front": rng.random() < 0.2, "nohl": rng.random() < 0.3,
            "files": {f: {"pre": [b.to_json() for b in s["pre"]], "body": [b.to_json() for b in s["body"]],
                          "post": [b.to_json() for b in s["post"]], "mode": s["mode"]} for f, s in g.files.items()}}


def realise(case):
    doc = [B.from_json(d) for d in case["doc"]]
    files = {f: {"pre": [B.from_json(d) for d in s["pre"]], "body": [B.from_json(d) for d in s["body"]],
                 "post": [B.from_json(d) for d in s["post"]], "mode": s["mode"]} for f, s in case["files"].items()}
    for b in doc:
        fence_heights(b)
    for s in files.values():
        for part in ("pre", "body", "post"):
            for b in s[part]:
                fence_heights(b)
    recs = []
    # front matter at the top shifts every line of the document
    front = ["---", "author: someone", "myst:", "  title_to_header: false", "---", ""] if case.get("front") else []
    lines = front + print_seq(doc, 1 + len(front), "main.md", (), files, recs)
    text = "\n".join(lines) + "\n"
    realise.trees = files
    return text, {f: s["text"] for f, s in files.items() if "text" in s}, recs


# ------------------------------------------------------------------ observing the implementation

MK = re.compile(r"mk(\d+)")
NODE_TAGS = {"paragraph", "title", "section", "rubric", "literal_block", "target", "block_quote", "bullet_list",
             "enumerated_list", "list_item", "container", "note", "tip", "warning", "admonition",
             "table", "row", "entry", "definition_list", "definition_list_item", "term", "definition", "field_list", "field",
             "footnote", "comment", "raw", "math_block", "reference", "image", "figure", "caption",
             "attribution", "topic", "sidebar", "compound", "line_block"}


def observe(text, files, nohl=False):
    """(nodes, warnings): nodes = (tag, first marker, line, file) in pre-order; warnings = (message, line, file)."""
    from docutils import nodes as N
    from lib.impl import parse_only, parse_warnings, scratch_dir
    with scratch_dir() as d:
        for f, t in files.items():
            with open(os.path.join(d, f), "w", encoding="utf8") as fh:
                fh.write(t)
        main = os.path.join(d, "main.md")
        doc, ws = parse_only(text, dict({"myst_enable_extensions": EXT}, **({"myst_highlight_code_blocks": False} if nohl else {})),
                             source_path=main)
        out = []

        def walk(n):
            if isinstance(n, N.system_message):
                return
            if isinstance(n, N.Element):
                if n.tagname in NODE_TAGS:
                    if n.tagname == "target":
                        m = MK.search(" ".join(n.get("names", []) + n.get("ids", [])))
                    elif n.tagname == "image":
                        m = MK.search(n.get("alt", ""))
                    else:
                        m = MK.search(clean_text(n))
                    src = n.source
                    out.append((n.tagname, int(m.group(1)) if m else None, n.line,
                                os.path.basename(src) if src else None))
                for c in n.children:
                    walk(c)
        walk(doc)
        warns = [(w["msg"], w["line"], os.path.basename(w["src"])) for w in parse_warnings(ws)
                 if (w["tag"] or "").startswith("myst.") or w["level"] in ("ERROR", "SEVERE")]
    return out, warns


def clean_text(n):
    from docutils import nodes as N
    parts = []

    def rec(x):
        if isinstance(x, N.system_message):
            return
        if isinstance(x, N.Text):
            parts.append(str(x))
        else:
            for c in x.children:
                rec(c)
    rec(n)
    return " ".join(parts)


KNOWN_CTX = {"include:plain": "include", "include:start-after": "include", "include:start-line": "include",
             "include:end-before": "include", "dir:firstline-body": "dir-firstline-body"}


def classify(tag, chain, delta):
    """failure signature: the innermost re-parse context and the deviation - unless the deviation is EXACTLY what the
    open findings account for (C04_include_lines_offset, C04_first_line_body_offset):
    - each enclosing {include} adds one line;
    - a directive whose first line is body text places its body as if it began on the next line: + 1 - (lines of its
      option block) for everything in it (+ 1 for the first-line paragraph itself);
    - rows / entries / cell paragraphs of a table carry no line of their own (whatever they show is stale).
    [delta] may be a list of candidate deviations (warnings accept two lines)."""
    kinds = [c[0] for c in chain]
    if "table-cell" in kinds:
        return "line:table-cell"
    if "parsed-literal" in kinds:
        # docutils' ParsedLiteral: node.line = content_offset + 1 and inline_text(text, self.lineno) - written for rST's
        # absolute offsets, so with MyST's relative offset both ignore where the body really starts (open finding)
        return "line:parsed-literal"
    cands = delta if isinstance(delta, list) else [delta]
    if "contents-topic" in kinds and tag == "topic" and -1 in cands:
        # docutils' Contents: topic.line = get_source_and_line()[1] - 1, written for rST where the state machine has
        # moved past the directive's first line; the mock answers with the directive's line (open finding)
        return "line:contents-topic:-1"
    # lines inside an included file are relative to that file: only what encloses the construct INSIDE the file counts
    last_inc = max((i for i, c in enumerate(chain) if c[0].startswith("include:")), default=None)
    inner_chain = chain if last_inc is None else chain[last_inc:]
    fl = [c for c in inner_chain if "firstline-body" in c[0]]
    incs = [c for c in inner_chain if c[0].startswith("include:")]
    # inline text of a directive title (state.inline_text(title, self.lineno)) is reported one line too low (open finding)
    title = [c for c in inner_chain if c[0] == "directive-title"]
    if fl or incs or title:
        expected = sum(1 - (c[2] if len(c) > 2 else 0) for c in fl) + len(incs) + len(title)
        if expected in cands:
            return "line:dir-firstline-body" if fl else "line:include:+1" if incs else "line:directive-title:+1"
    d = min((x for x in cands if isinstance(x, int)), key=abs, default="none")
    inner = "attribution" if tag == "attribution" else kinds[-1] if kinds else "top"
    return f"line:{inner}:{d:+d}" if isinstance(d, int) else f"line:{inner}:{d}"


def check_case(ctx, case):
    text, files, recs = realise(case)
    exp_nodes, exp_warns = expected_records(recs, "main.md", realise.trees)
    try:
        got_nodes, got_warns = observe(text, files, nohl=bool(case.get("nohl")))
    except Exception as e:
        ctx.fail("exception:" + type(e).__name__, case, f"parsing the generated document raised {e!r}")
        return False
    ok = True
    # expand headings: title+section (top level) or rubric (inside containers)
    got_by = {}
    for tag, fm, line, src in got_nodes:
        got_by.setdefault((tag, fm), []).append((line, src))
    exp_by = {}
    for tag, fm, line, src, chain in exp_nodes:
        if tag == "heading":
            if ("rubric", fm) in got_by:
                exp_by.setdefault(("rubric", fm), []).append((line, src, chain))
            else:
                exp_by.setdefault(("title", fm), []).append((line, src, chain))
                exp_by.setdefault(("section", fm), []).append((line, src, chain))
        else:
            exp_by.setdefault((tag, fm), []).append((line, src, chain))
    structure_ok = True
    for key, exps in exp_by.items():
        if key[1] is None:
            continue        # a container without visible text cannot be identified in the doctree
        gots = got_by.get(key, [])
        if len(gots) != len(exps):
            structure_ok = False
            continue
        for (eline, esrc, chain), (gline, gsrc) in zip(exps, gots):
            if gline is None and any(c[0] == "docutils-code-block" for c in chain):
                # docutils' CodeBlock sets no line itself: the node only inherits document.current_line (= the
                # directive's line) when its parent is already attached to the document, i.e. at top level
                continue
            if gline != eline:
                delta = (gline - eline) if isinstance(gline, int) else "none"
                ctx.fail(classify(key[0], chain, delta), case,
                         f"{key[0]} node of marker mk{key[1]}: line {gline}, its construct starts at line {eline} of {esrc}",
                         expected={"line": eline, "source": esrc}, observed={"line": gline, "source": gsrc})
                ok = False
            elif gsrc != esrc:
                ctx.fail("line:table-cell" if any(c[0] == "table-cell" for c in chain) else
                         "source:" + (chain[-1][0] if chain else "top"), case,
                         f"{key[0]} node of marker mk{key[1]}: source {gsrc}, expected {esrc}",
                         expected={"line": eline, "source": esrc}, observed={"line": gline, "source": gsrc})
                ok = False
    if not structure_ok:
        ctx.count("search:structure-mismatch(skipped)")
    return compare_warnings(ctx, case, exp_warns, got_warns) and ok


def compare_warnings(ctx, case, exp_warns, got_warns, mode=""):
    """every expected warning (named by its marker) is reported at its true line of its true file."""
    ok = True
    for needle, lines, src, chain, what in exp_warns:
        hits = [(l, s) for (m, l, s) in got_warns if re.search(r"\b" + needle + r"\b", m)]
        if not hits:
            ctx.fail(mode + "warning:missing:" + what, case, f"no [myst.*] warning names {needle}", expected=sorted(lines), observed=None)
            ok = False
            continue
        for l, s in hits:
            if l not in lines:
                delta = [l - x for x in sorted(lines)] if isinstance(l, int) else "none"
                sig = classify("warning", chain, delta)
                ctx.fail(sig if sig in ("line:include:+1", "line:dir-firstline-body", "line:table-cell", "line:parsed-literal",
                                    "line:directive-title:+1") else mode + "warning-" + sig, case, f"warning naming {needle} carries line {l}, expected {sorted(lines)} in {src}",
                         expected={"lines": sorted(lines), "source": src}, observed={"line": l, "source": s})
                ok = False
            elif s != src:
                ctx.fail(mode + "warning-source:" + (chain[-1][0] if chain else "top"), case,
                         f"warning naming {needle} carries source {s}, expected {src}",
                         expected={"lines": sorted(lines), "source": src}, observed={"line": l, "source": s})
                ok = False
    return ok


# ------------------------------------------------------------------ the same documents under Sphinx: 'path:line' of warnings

SPHINX_WARN = re.compile(r"^(?P<src>[^:\n]+?)(?::(?P<line>\d+))?: (?P<level>WARNING|ERROR|CRITICAL|SEVERE|INFO): (?P<msg>.*)$")


def sphinx_batch(ctx, cases):
    """one Sphinx build (dummy builder) of the cases as documents c<i>/main.md (+ their included files, excluded from the
    project's own documents): every expected warning must be located at '<path of its file>:<true line>'."""
    from lib.impl import SphinxProject
    files = {"index.md": "# index\n\n```{toctree}\n" + "".join(f"c{i}/main\n" for i in range(len(cases))) + "```\n"}
    exp = []
    for i, case in enumerate(cases):
        text, inc, recs = realise(case)
        exp.append(expected_records(recs, "main.md", realise.trees)[1])
        files[f"c{i}/main.md"] = text
        for f, t in inc.items():
            files[f"c{i}/{f}"] = t
    conf = f"myst_enable_extensions = {EXT!r}\nexclude_patterns = ['_build', '**/inc*.md']\n"
    try:
        res = SphinxProject(files, conf=conf, builder="dummy").build()
    except Exception as e:
        ctx.fail("sphinx:exception:" + type(e).__name__, cases[0], f"the Sphinx build of {len(cases)} generated documents raised {e!r}")
        return False
    got = {}
    for ln in re.sub(r"\x1b\[[0-9;]*m", "", res["warnings"]).splitlines():
        m = SPHINX_WARN.match(ln)
        if not m:
            continue
        path = m.group("src")
        d, _, base = path.rpartition("/")
        got.setdefault(d, []).append((m.group("msg"), int(m.group("line")) if m.group("line") else None, base))
    ok = True
    for i, case in enumerate(cases):
        ctx.count("search:sphinx-doc")
        ok = compare_warnings(ctx, case, exp[i], got.get(f"c{i}", []), mode="sphinx:") and ok
    return ok


def sphinx_unit(args):
    seed, n, depth, fixed_slice = args

    class C:
        def __init__(self):
            self.failures, self.counts = [], {}

        def fail(self, signature, witness, what, expected=None, observed=None):
            self.failures.append({"signature": signature, "witness": dict(witness, sphinx=True), "what": what,
                                  "expected": expected, "observed": observed})

        def count(self, k, n=1):
            self.counts[k] = self.counts.get(k, 0) + n
    c = C()
    rng = random.Random(seed)
    cases = mock_method_cases()[fixed_slice[0]::fixed_slice[1]] + [build_case(rng, max_depth=depth) for _ in range(n)]
    sphinx_batch(c, cases)
    per_sig, keep = {}, []
    for f in c.failures:
        per_sig[f["signature"]] = per_sig.get(f["signature"], 0) + 1
        if per_sig[f["signature"]] <= 2:
            keep.append(f)
    return len(cases), keep, c.counts


# ------------------------------------------------------------------ fixed cases (always run)

def fixed_cases():
    def para(n):
        return {"kind": "para", "mk": n, "p": {}, "ch": []}

    def d(n, ch, **p):
        q = dict(name="note", fence="`", style="none", nopts=0, badopt=False, blank_before=0, blank_after=0, firstline=False)
        q.update(p)
        return {"kind": "dir", "mk": n, "p": q, "ch": ch}
    out = []
    # the C08 root cause: option block + trailing blank line
    out.append({"doc": [d(1, [para(2)], style="colon", nopts=1, blank_after=1)], "files": {}})
    out.append({"doc": [d(1, [para(2)], style="dash", nopts=1, blank_after=2)], "files": {}})
    # several blank lines between the opening line / option block and the body: one is stripped, the others stay
    for style in ("none", "colon", "dash"):
        for k in (2, 3):
            out.append({"doc": [d(1, [para(2), d(3, [para(4)], fence=":", name="tip", blank_before=k)], style=style,
                                  nopts=(1 if style != "none" else 0), blank_before=k, blank_after=1)], "files": {}})
    # a tight list inside a directive body (its paragraphs come from hidden tokens)
    out.append({"doc": [para(1), d(2, [{"kind": "blist", "mk": 3, "p": {"tight": True},
                                        "ch": [[para(4)], [para(5)], [para(6)]]}], blank_before=1)], "files": {}})
    # nested colon fence first in a colon fence
    out.append({"doc": [d(1, [d(2, [para(3)], fence=":", name="tip")], fence=":")], "files": {}})
    # first line is body text
    out.append({"doc": [d(1, [para(2), para(3)], firstline=True)], "files": {}})
    # includes
    for mode in ("plain", "start-after", "start-line", "end-before"):
        out.append({"doc": [para(1), {"kind": "include", "mk": 2, "p": {"fname": "inc2.md", "mode": mode}, "ch": []}],
                    "files": {"inc2.md": {"pre": [para(1001), para(1002)], "body": [para(1003), {"kind": "heading", "mk": 1004, "p": {}, "ch": []},
                                                                                   {"kind": "badrole", "mk": 1005, "p": {}, "ch": []}],
                                          "post": [para(1006)], "mode": mode}}})
    out += mock_method_cases()
    out += code_block_cases()
    return out


def code_block_cases():
    """fenced code with no / known / unknown-to-Pygments language (+ extra info words), with and without lineno-start /
    emphasize-lines attrs, indented code; highlighting on and off; at top level (after a directive, so that a stale
    document.current_line differs from the true line) and nested in quote / list item / directive."""
    def para(n):
        return {"kind": "para", "mk": n, "p": {}, "ch": []}
    note = {"kind": "dir", "mk": 80, "p": dict(name="note", fence="`", style="none", nopts=0, badopt=False, blank_before=0,
                                               blank_after=0, firstline=False), "ch": [para(81)]}
    out = []
    for nohl in (False, True):
        for how in ("top", "quote", "item", "note"):
            leaves = []
            n = 1
            for lang in sorted(set(CODE_LANGS)):
                for attrs in (None,) + tuple(sorted(CODE_ATTRS)):
                    p = {"lang": lang}
                    if attrs:
                        p["attrs"] = attrs
                    leaves.append({"kind": "code", "mk": n, "p": p, "ch": []})
                    n += 1
            leaves += [para(n), {"kind": "icode", "mk": n + 1, "p": {}, "ch": []}]
            if how == "top":
                doc = [note] + leaves
            elif how == "quote":
                doc = [note, {"kind": "quote", "mk": 91, "p": {}, "ch": [para(92)] + leaves}]
            elif how == "item":
                doc = [note, {"kind": "blist", "mk": 91, "p": {"tight": False}, "ch": [[para(92)] + leaves]}]
            else:
                doc = [note, {"kind": "dir", "mk": 91, "p": dict(name="tip", fence="`", style="none", nopts=0, badopt=False,
                                                                 blank_before=1, blank_after=0, firstline=False),
                              "ch": [para(92)] + leaves}]
            out.append({"doc": doc, "files": {}, "nohl": nohl})
    return out


def mock_method_cases():
    """Round 4: every docutils / Sphinx directive that reaches a line-carrying method of MockState / MockStateMachine /
    MockInliner other than nested_parse, with 0-2 blank lines before its body, at top level and nested in a block
    quote, a list item and an admonition."""
    def para(n):
        return {"kind": "para", "mk": n, "p": {}, "ch": []}

    def wrap(how, inner):
        if how == "top":
            return [para(90)] + inner
        if how == "quote":
            return [para(90), {"kind": "quote", "mk": 91, "p": {}, "ch": [para(92)] + inner}]
        if how == "item":
            return [{"kind": "blist", "mk": 91, "p": {"tight": False}, "ch": [[para(92)] + inner]}]
        return [{"kind": "dir", "mk": 91, "p": dict(name="note", fence="`", style="none", nopts=0, badopt=False, blank_before=1,
                                                    blank_after=0, firstline=False), "ch": [para(92)] + inner}]
    out = []
    for how in ("top", "quote", "item", "note"):
        for bb in (0, 1, 2):
            # block_quote + attribution (+ get_source_and_line)
            for name in QUOTED:
                for fence in ("`", ":"):
                    q = dict(name=name, fence=fence, style="none", nopts=0, badopt=False, blank_before=bb, blank_after=0,
                             firstline=False, attrib=7)
                    kids = [para(2), {"kind": "heading", "mk": 3, "p": {}, "ch": []}, {"kind": "baddir", "mk": 4, "p": {}, "ch": []},
                            {"kind": "badrole", "mk": 5, "p": {}, "ch": []}]
                    out.append({"doc": wrap(how, [{"kind": "dir", "mk": 1, "p": q, "ch": kids}]), "files": {}})
            # inline_text / line_block / parse_directive_block / nested_list_parse-style bodies
            for k in MOCK_LEAVES:
                if k in TOP_ONLY_LEAVES and how != "top":
                    continue
                n = XLEAF[k][0]
                out.append({"doc": wrap(how, [{"kind": k, "mk": 1, "p": {"x": list(range(2, 2 + n)), "bb": bb}, "ch": []}]),
                            "files": {}})
    return out


# ------------------------------------------------------------------ correspondence with the extracted model

# model grammar (coq/Dir/Lines.v): tuples ('L',kind,m,more,ins) ('Q',m,bs) ('I',m,bs) ('V',m,bb,ba,bs)
# ('D',m,fk,os,nopts,bb,ba,bs); leaf kinds 0 para 1 heading 2 code 3 target 4 block break 5 line comment 6 html 7 math 8 table
LEAF_TAG = {0: "paragraph", 1: "heading", 2: "literal_block", 3: "target", 4: "comment", 5: "comment", 6: "raw",
            7: "math_block", 8: "table"}


def colon_start(t):
    return t[0] == "V" or (t[0] == "D" and t[2] == "c")


def gen_model_tree(rng, depth, counter, first_in=None):
    """a block of the model grammar; respects the model's well-formedness (what MyST itself can express):
    a ':::' fence may directly follow the opening line / a ':key:' option block only in the one case the
    renderer handles (colon directive without options: the prepended-line trick)."""
    counter[0] += 1
    m = counter[0]
    if depth <= 0 or rng.random() < 0.3:
        kind = rng.choice([0, 0, 0, 1, 2, 3, 4, 5, 6, 7, 8])
        more = rng.choice([0, 0, 1, 2])
        ins = []
        if kind == 0 and rng.random() < 0.5:
            for _ in range(rng.randint(1, 2)):
                counter[0] += 1
                ins.append((counter[0], rng.randint(0, more)))
        return ("L", kind, m, more, ins)
    k = rng.choice(["Q", "I", "V", "D", "D", "D"])
    n = rng.randint(1, 3)
    if k in ("Q", "I"):
        return (k, m, [gen_model_tree(rng, depth - 1, counter) for _ in range(n)])
    if k == "V":
        n = rng.randint(0, 2)
        return ("V", m, rng.choice([0, 0, 1, 1, 2, 3]), rng.choice([0, 0, 1, 2]),
                [gen_model_tree(rng, depth - 1, counter) for _ in range(n)])
    fk = rng.choice("bc")
    os_ = rng.choice("nncd")
    bb = rng.choice([0, 0, 1, 1, 2, 3])
    n = rng.randint(0, 3)
    bs = [gen_model_tree(rng, depth - 1, counter) for _ in range(n)]
    if bs and not bb and colon_start(bs[0]):
        allowed = (fk == "c" and os_ == "n") or os_ == "d"
        if not allowed:
            bb = 1
    return ("D", m, fk, os_, rng.randint(0, 2), bb, rng.choice([0, 0, 1, 2]), bs)


def enc_tree(t):
    if t[0] == "L":
        return " ".join([f"L {t[1]} {t[2]} {t[3]} {len(t[4])}"] + [f"{a} {b}" for a, b in t[4]])
    if t[0] in "QI":
        return " ".join([f"{t[0]} {t[1]} {len(t[2])}"] + [enc_tree(c) for c in t[2]])
    if t[0] == "V":
        return " ".join([f"V {t[1]} {t[2]} {t[3]} {len(t[4])}"] + [enc_tree(c) for c in t[4]])
    return " ".join([f"D {t[1]} {t[2]} {t[3]} {t[4]} {t[5]} {t[6]} {len(t[7])}"] + [enc_tree(c) for c in t[7]])


def tree_kids(t):
    return [] if t[0] == "L" else t[-1]


def tree_first_leaf(t):
    """the first marker visible as text inside the node (a target leaves no text)."""
    if t[0] == "L":
        return None if t[1] == 3 else t[2]
    for c in tree_kids(t):
        x = tree_first_leaf(c)
        if x is not None:
            return x
    return None


def tree_preorder(t, out, inl):
    if t[0] == "L":
        out.append((LEAF_TAG[t[1]], t[2], t[2]))
        inl.extend(a for a, _ in t[4])
    else:
        tag = {"Q": "block_quote", "I": "list_item", "V": "container", "D": "note"}[t[0]]
        out.append((tag, tree_first_leaf(t), t[1]))
    for c in tree_kids(t):
        tree_preorder(c, out, inl)


MLEAF = re.compile(r"\bm(i*)\b")      # the model writes markers in unary: "miii" = 3
MROLE = re.compile(r'role "r(i*)"')
MODEL_TAGS = ("paragraph", "block_quote", "list_item", "container", "note", "title", "rubric", "literal_block", "target",
              "comment", "raw", "math_block", "table")


def observe_model_doc(text):
    from docutils import nodes as N
    from lib.impl import parse_only, parse_warnings
    doc, ws = parse_only(text, {"myst_enable_extensions": EXT}, source_path="<string>")
    out = []

    def walk(n):
        if isinstance(n, N.system_message):
            return
        if isinstance(n, N.Element):
            if n.tagname in MODEL_TAGS:
                if n.tagname == "target":
                    m = MLEAF.search(" ".join(n.get("names", []) + n.get("ids", [])))
                else:
                    m = MLEAF.search(clean_text(n))
                out.append((n.tagname, len(m.group(1)) if m else None, n.line))
            for c in n.children:
                walk(c)
    walk(doc)
    roles = []
    for w in parse_warnings(ws):
        if (w["tag"] or "") == "myst.role_unknown":
            m = MROLE.search(w["msg"])
            if m:
                roles.append((len(m.group(1)), w["line"]))
    return out, roles


def corr_unit(args):
    seed, n, depth = args
    from lib.common import dec_strs
    rng = random.Random(seed)
    trees, lines = [], []
    for _ in range(n):
        counter = [0]
        doc = [gen_model_tree(rng, depth, counter) for _ in range(rng.randint(1, 3))]
        trees.append(doc)
        lines.append("doc\t-\t" + " ".join(enc_tree(t) for t in doc))
    outs = model_run(PID, lines)
    st = {"cases": 0, "dis": [], "nontriv": 0, "skipped": 0, "counts": {}, "sample": None}
    for doc, o in zip(trees, outs):
        st["cases"] += 1
        if o.startswith("!"):
            st["dis"].append(({"kind": "model", "doc": doc}, "?", o))
            continue
        tf, lf, truthf = o.split("\t")
        tlines = dec_strs(tf)
        text = "\n".join(tlines) + "\n"
        pred = dict((int(a), int(b)) for a, b in (x.split(":") for x in lf.split(";"))) if lf != "." else {}
        truth = dict((int(a), int(b)) for a, b in (x.split(":") for x in truthf.split(";"))) if truthf != "." else {}
        exp, inl = [], []
        for t in doc:
            tree_preorder(t, exp, inl)
        # [locate] against [print]: the line the model calls the true line of a leaf holds that leaf's marker
        located = True
        for tag, fm, mk in exp:
            if tag in LEAF_TAG.values() and tag not in ("literal_block", "raw", "math_block"):
                ln = truth.get(mk)
                if ln is None or not (1 <= ln <= len(tlines)) or not re.search(r"\bm" + "i" * mk + r"\b", tlines[ln - 1]):
                    st["dis"].append(({"kind": "model", "doc": doc, "text": text}, f"marker {mk} not on line {ln} of the printed text", "locate"))
                    located = False
                    break
        if not located:
            continue
        try:
            got, roles = observe_model_doc(text)
        except Exception as e:
            st["dis"].append(({"kind": "model", "doc": doc, "text": text}, "!" + type(e).__name__, "lines"))
            continue
        got_by, exp_by = {}, {}
        for tag, fm, line in got:
            got_by.setdefault((tag, fm), []).append(line)
        for tag, fm, mk in exp:
            if tag == "heading":
                tag = "title" if ("title", fm) in got_by else "rubric"
            exp_by.setdefault((tag, fm), []).append(mk)
        bad = None
        structure = True
        for key, mks in exp_by.items():
            if key[1] is None:
                continue    # containers without visible text cannot be identified in the doctree
            ls = got_by.get(key, [])
            if len(ls) != len(mks):
                structure = False
                break
            for mk, l in zip(mks, ls):
                if pred.get(mk) != l:
                    bad = (key, mk, l, pred.get(mk))
        if not structure:
            st["skipped"] += 1
            continue
        # inline level: the unknown-role warnings
        rl = dict(roles)
        if sorted(rl) != sorted(inl):
            st["skipped"] += 1
            continue
        for im in inl:
            if pred.get(im) != rl[im]:
                bad = (("role-warning", im), im, rl[im], pred.get(im))
        if any(t[0] in "DV" for t in doc) or depth >= 2:
            st["nontriv"] += 1
        for t in doc:
            st["counts"][t[0]] = st["counts"].get(t[0], 0) + 1
        if inl:
            st["counts"]["inline"] = st["counts"].get("inline", 0) + 1
        if bad:
            if len(st["dis"]) < 5:
                st["dis"].append(({"kind": "model", "doc": doc, "text": text},
                                  f"{bad[0][0]} of m{bad[1]}: line {bad[2]}", f"line {bad[3]}"))
            else:
                st["dis"].append(None)
    if trees:
        st["sample"] = {"kind": "model", "doc": trees[0]}
    return st


def include_corr(ctx):
    """the include arithmetic of the model vs MockIncludeDirective (lineno handed to nested_render_text)."""
    from lib.common import enc_str, enc_strs, dec_str
    from lib.impl import scratch_dir
    rng = ctx.rng
    cases = []
    for _ in range(ctx.budget(150, 1500, 1500)):
        n = rng.randint(1, 8)
        flines = [rng.choice(["a", "bb MARK cc", "", "MARK", "x y", "- i", "zMARK"]) for _ in range(n)]
        sl = rng.choice([None, None, 0, 1, 2, 3])
        sa = rng.choice([None, "MARK", "MARK", "bb", "zz"])
        cases.append((flines, sl, sa))
    lines = ["inc\t%s\t%s\t%s" % (enc_strs(fl) if fl else ".", "~" if sl is None else sl, "~" if sa is None else enc_str(sa))
             for fl, sl, sa in cases]
    outs = model_run(PID, lines)
    from myst_parser.mdit_to_docutils.base import DocutilsRenderer
    for (fl, sl, sa), o in zip(cases, outs):
        ctx.corr_cases += 1
        ctx.count("corr:include")
        seen = {}
        orig = DocutilsRenderer.nested_render_text

        def spy(self, text, lineno, *a, **k):
            if "got" not in seen and k.get("heading_offset") is not None:
                seen["got"] = (lineno, text)
            return orig(self, text, lineno, *a, **k)
        with scratch_dir() as d:
            with open(os.path.join(d, "inc.md"), "w") as fh:
                fh.write("\n".join(fl) + "\n")
            opts = ([f":start-line: {sl}"] if sl is not None else []) + ([f":start-after: {sa}"] if sa is not None else [])
            text = "```{include} inc.md\n" + "".join(x + "\n" for x in opts) + "```\n"
            DocutilsRenderer.nested_render_text = spy
            try:
                from lib.impl import parse_only
                parse_only(text, {}, source_path=os.path.join(d, "main.md"))
            except Exception as e:
                seen["got"] = "!" + type(e).__name__
            finally:
                DocutilsRenderer.nested_render_text = orig
        got = seen.get("got", "!notfound")
        if o.startswith("!"):
            mo = o
        else:
            a, b = o.split("\t")
            mo = (int(a), dec_str(b))
        if got != mo:
            ctx.disagree("MockIncludeDirective lineno/text", {"kind": "include-arith", "lines": fl, "start_line": sl, "start_after": sa},
                         repr(got)[:300], repr(mo)[:300])


def include_doc_corr(ctx):
    """documents of the model grammar rendered as an {include}d file: the model's [include_lines] (true line + 1 for
    every construct, C04_include_lines_offset) against the implementation."""
    from docutils import nodes as N
    from lib.common import dec_strs
    from lib.impl import parse_only, scratch_dir
    rng = ctx.rng
    trees, reqs = [], []
    for _ in range(ctx.budget(120, 1200, 1200)):
        counter = [0]
        doc = [gen_model_tree(rng, rng.randint(0, 3), counter) for _ in range(rng.randint(1, 3))]
        trees.append(doc)
        toks = " ".join(enc_tree(t) for t in doc)
        reqs += ["doc\t-\t" + toks, "incdoc\t0\t" + toks]
    outs = model_run(PID, reqs)
    for i, doc in enumerate(trees):
        o, oi = outs[2 * i], outs[2 * i + 1]
        ctx.corr_cases += 1
        ctx.count("corr:include-doc")
        if o.startswith("!") or oi.startswith("!"):
            ctx.disagree("include_lines", {"kind": "model", "doc": doc}, "?", o + " " + oi)
            continue
        text = "\n".join(dec_strs(o.split("\t")[0])) + "\n"
        pred = dict((int(a), int(b)) for a, b in (x.split(":") for x in oi.split(";"))) if oi != "." else {}
        with scratch_dir() as d:
            with open(os.path.join(d, "inc.md"), "w") as fh:
                fh.write(text)
            try:
                tree, _ws = parse_only("```{include} inc.md\n```\n", {"myst_enable_extensions": EXT},
                                       source_path=os.path.join(d, "main.md"))
            except Exception as e:
                ctx.disagree("include_lines", {"kind": "model", "doc": doc, "text": text}, "!" + type(e).__name__, "lines")
                continue
        got = {}
        for n in tree.findall(N.paragraph):
            if any(isinstance(a, N.system_message) for a in _ancestors(n)):
                continue
            m = MLEAF.search(clean_text(n))
            if m and n.parent.tagname != "entry":
                got.setdefault(len(m.group(1)), n.line)
        exp, inl = [], []
        for t in doc:
            tree_preorder(t, exp, inl)
        for tag, fm, mk in exp:
            if tag == "paragraph" and mk in got and got[mk] != pred.get(mk):
                ctx.disagree("include_lines", {"kind": "model", "doc": doc, "text": text, "include": True},
                             f"paragraph m{mk}: line {got[mk]}", f"line {pred.get(mk)}")
                break


def _ancestors(n):
    while n.parent is not None:
        n = n.parent
        yield n


def corr(ctx):
    if not ctx.have_runner:
        return
    import multiprocessing as mp
    total = ctx.budget(16000, 160000, 160000)
    nproc = min(16, os.cpu_count() or 4)
    units = [(ctx.rng.getrandbits(48), total // (nproc * 2), 1 + (i % 5)) for i in range(nproc * 2)]
    with mp.get_context("fork").Pool(nproc) as pool:
        res = pool.map(corr_unit, units, chunksize=1)
    for st in res:
        ctx.corr_cases += st["cases"]
        ctx.count("corr:structure-mismatch(skipped)", st["skipped"])
        for k, v in st["counts"].items():
            ctx.count("corr:top-" + k, v)
        ctx.nontrivial.update(("c", id(st), i) for i in range(st["nontriv"]))
        for d in st["dis"]:
            if d is None:
                ctx.disagreements.append({"what": "lines", "case": None, "impl": None, "model": None})
            else:
                ctx.disagree("node lines (model text through the implementation)", d[0], d[1], d[2])
        if st["sample"]:
            ctx.sample(st["sample"], limit=2)
    ctx.disagreements = [d for d in ctx.disagreements if d["case"] is not None] + \
                        [d for d in ctx.disagreements if d["case"] is None]
    ctx.suspects = [c for c in ctx.suspects if c]
    include_corr(ctx)
    include_doc_corr(ctx)


def check_model_text(ctx, c):
    """a document printed by the model on which model and implementation disagreed: independent oracle =
    every paragraph that holds a marker word m<i...> starts on the line where that word is."""
    text = c.get("text")
    if not text:
        return True
    tl = text.split("\n")
    where = {}
    for i, l in enumerate(tl):
        m = re.search(r"(^|[ >])m(i*)$", l)
        if m:
            where[len(m.group(2))] = i + 1
    ok = True
    try:
        got, _roles = observe_model_doc(text)
    except Exception as e:
        ctx.fail("exception:" + type(e).__name__, c, f"parsing raised {e!r}")
        return False
    for tag, mk, line in got:
        if tag == "paragraph" and mk in where and line != where[mk]:
            ctx.fail(f"line:model-doc:{line - where[mk]:+d}" if isinstance(line, int) else "line:model-doc:none", c,
                     f"paragraph of marker {mk}: line {line}, it starts on line {where[mk]}", expected=where[mk], observed=line)
            ok = False
    return ok


def check_include_text(ctx, c):
    """include arithmetic suspect: run the include through the node-level oracle."""
    para = {"kind": "para", "mk": 1, "p": {}, "ch": []}
    case = {"doc": [{"kind": "include", "mk": 2, "p": {"fname": "inc2.md", "mode": "start-after" if c.get("start_after") else "plain"}, "ch": []}],
            "files": {"inc2.md": {"pre": [para], "body": [dict(para, mk=1003)], "post": [], "mode": "start-after" if c.get("start_after") else "plain"}}}
    return check_case(ctx, case)


def search_unit(args):
    seed, n, depth = args

    class C:
        def __init__(self):
            self.failures, self.counts = [], {}

        def fail(self, signature, witness, what, expected=None, observed=None):
            self.failures.append({"signature": signature, "witness": witness, "what": what,
                                  "expected": expected, "observed": observed})

        def count(self, k, n=1):
            self.counts[k] = self.counts.get(k, 0) + n
    c = C()
    rng = random.Random(seed)
    per_sig = {}
    nontriv = 0
    sample = None
    for i in range(n):
        case = build_case(rng, max_depth=depth)
        before = len(c.failures)
        check_case(c, case)
        new = c.failures[before:]
        del c.failures[before:]
        for f in new:
            per_sig[f["signature"]] = per_sig.get(f["signature"], 0) + 1
            if per_sig[f["signature"]] <= 2:
                c.failures.append(f)
        s = repr(case)
        if "'dir'" in s or "'include'" in s or "'div'" in s:
            nontriv += 1
        for kind in ("dir", "include", "div", "quote", "blist", "olist"):
            if f"'kind': '{kind}'" in s:
                c.count("search:has-" + kind)
        if i == 0:
            sample = case
    return n, c.failures, c.counts, nontriv, sample


def size_of(case):
    return len(repr(case))


def search(ctx):
    for c in ctx.suspects[:100]:
        ctx.search_cases += 1
        if c.get("kind") == "model":
            check_model_text(ctx, c)
        elif c.get("kind") == "include-arith":
            check_include_text(ctx, c)
        else:
            check_case(ctx, c)
    for c in fixed_cases():
        ctx.search_cases += 1
        ctx.count("search:fixed")
        check_case(ctx, c)
    import multiprocessing as mp
    total = ctx.budget(6400, 60000, 120000)
    nproc = min(16, os.cpu_count() or 4)
    units = []
    for i in range(nproc * 2):
        depth = 2 + (i % 4)
        units.append((ctx.rng.getrandbits(48), total // (nproc * 2), depth))
    with mp.get_context("fork").Pool(nproc) as pool:
        res = pool.map(search_unit, units, chunksize=1)
    fails = []
    for n, fl, counts, nontriv, sample in res:
        ctx.search_cases += n
        for k, v in counts.items():
            ctx.count(k, v)
        ctx.nontrivial.update(("s", id(fl), i) for i in range(nontriv))
        fails += fl
        if sample:
            ctx.sample(sample, limit=3)
    # the same kind of documents built by Sphinx: warnings located at '<path>:<line>'
    per = ctx.budget(12, 120, 240)
    sunits = [(ctx.rng.getrandbits(48), per, 2 + (i % 4), (i, nproc)) for i in range(nproc)]
    with mp.get_context("fork").Pool(nproc) as pool:
        sres = pool.map(sphinx_unit, sunits, chunksize=1)
    for n, fl, counts in sres:
        ctx.search_cases += n
        for k, v in counts.items():
            ctx.count(k, v)
        fails += fl
    fails.sort(key=lambda f: size_of(f["witness"]))
    ctx.failures += fails


def replay(ctx, data):
    w = data.get("witness")
    if not w:
        print("replay file names no concrete input:", data.get("no_longer_checks"))
        return 1
    text, files, _ = realise(w)
    print("--- main.md"); print(text)
    for f, t in files.items():
        print("---", f); print(t)
    ok = sphinx_batch(ctx, [w]) if w.get("sphinx") else check_case(ctx, w)
    print("replay:", "property holds on this input" if ok else ctx.failures[-1])
    return 0 if ok else 1


LEVEL_TEXT = ("Proof (Coq 8.16, 16 theorems, all closed under the global context), induction on the nesting with no depth bound. "
              "IN FULL: for every document of the block grammar (leaf = paragraph / heading / fenced or indented code / target / "
              "block break / line comment / html block / math block / table; block quote; list item; backtick or colon directive "
              "with no, colon-style or dash-style option block and 0..3 blank lines before / 0..2 after the body; plain ::: div) the "
              "line the renderer assigns to every construct - token.map[0]+1, nested render + lineno, directive body at "
              "position + body_offset with body_offset computed by the C08 model of parse_directive_text run on the printed content, "
              "the prepended-line trick of nested colon fences - equals the construct's true line in the printed source "
              "(C04_lines_nested, C04_lines_at_depth; C04_lines_nested_c07: with the C07 tokenizer model and a class without "
              "arguments no premise about the tokenizer remains, via C04_parse_ok_when); warnings created with line= carry it "
              "(C04_warning_lines); inline constructs carry the line of their block (C04_inline_lines: the reading of 'true line' "
              "for inline content, markdown-it gives inline tokens no map); the other mock methods: block_quote body and "
              "attribution, get_source_and_line, parse_directive_block (C04_mock_methods_src). "
              "TIED TO REGENERATED CODE: every arithmetic expression the model uses is regenerated on each run from "
              "mdit_to_docutils/base.py and mocking.py into coq/Gen/LinesSrc.v (17 sites) and coq/Dir/Lines.v computes through them "
              "(C04_arithmetic_src, C04_mock_methods_src); the directive splitter the model runs is the one regenerated from "
              "parsers/directives.py and proved equal to the C08 model (C04_splitter_src) - a +1 edit at any site breaks a proof "
              "obligation. "
              "OPEN FINDINGS, each characterised exactly and reproduced on every run: (1) line:include:+1 - everything in an "
              "{include}d file is reported at true line + 1 (C04_include_lines_offset; C04_include_lines_partial is what holds, "
              "C04_include_lines_refuted the counterexample); (2) line:dir-firstline-body - a directive without arguments whose first "
              "line is body text places its body 1 - <option lines> too low (C04_first_line_body_offset / _refuted); "
              "(3) line:directive-title:+1 - inline text of directive titles at directive line + 1 (C04_directive_title_offset); "
              "(4) line:parsed-literal, (5) line:contents-topic:-1 - docutils' own arithmetic written for rST offsets; "
              "(6) line:table-cell - cell paragraphs of Markdown tables have no line (pinned by the gettext fixtures). "
              "C04_include_start_after_char_index_refuted documents the repaired :start-after: defect. "
              "Tie checked on every run: (a) the regeneration above; (b) differential correspondence - the extracted model "
              "predicts the line of every construct of generated nested documents (and of documents {include}d from a file), compared "
              "with the doctree of the implementation; (c) direct oracle - generated documents with unique markers, node.line / "
              "node.source / warning line and file against positions known by construction, through the docutils front end and "
              "(warnings: 'path:line') through Sphinx builds.")
LEVEL_NOTE = ("Trusted base: Coq kernel (no axioms); gen/c04_linessrc.py (structural site location, fail-closed; mapping Python int -> Z, "
              "token.map[i] -> parameter, self._x -> parameter, `x or y` on an optional int, str.count -> count_nl_upto) and "
              "gen/c08_dirsrc.py with coq/Dir/PyRuntime.v; coq/Dir/Lines.v as hand transcription of the CONTROL STRUCTURE around the "
              "regenerated arithmetic (_render_tokens / nested_render_text / render_directive / run_directive / MockState.nested_parse "
              "/ MockIncludeDirective.run), checked by correspondence, not proved; oracles: markdown-it token maps and fence content "
              "(O_map, O_fence_content), docutils container directives calling nested_parse(content, content_offset, node) (O_adm), "
              "the option tokenizer (Section variable, instantiated with the C07 model in C04_lines_nested_c07), O_parse_ok "
              "(discharged by C04_parse_ok_when). Search-only (no model): definition / field lists, footnotes, front matter, "
              "figure / code-block / table / list-table / line-block / parsed-literal / rubric / topic / sidebar / contents / role / "
              "meta / image directives. Repaired in this project: 601d16e, 451703c, 533529a, 7c23797, 40616da, 848582d, dae8d66; six "
              "open findings (listed above), none hidden: a deviation is attributed to a finding only if it equals exactly what the "
              "characterising theorem predicts for the construct's chain of enclosing contexts.")
