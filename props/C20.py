"""C20 - docutils security settings (raw_enabled, file_insertion_enabled) are honoured for every input."""
import builtins
import contextlib
import io
import os
import pathlib
import re

from lib.common import COQ, REPO, enc_str, model_run, src_hashes, write_if_changed

PID = "C20"
RULE = ("gen: source translation (Gen/RawSrc.v: the raw_enabled block of Parser.parse and MockIncludeDirective.run from its first "
        "statement to the nested_render_text call, statement by statement with alpha-normalised locals, proved equal to the model: "
        "C20_src_is_model) + ast tables regenerated on every run: every nodes.raw(...) construction site with its route into the tree, "
        "the position of the file_insertion_enabled test, the shape/position of the raw_enabled loop (Gen/RawSites.v) and the 19 "
        "places where a document/settings/state/inliner/directive instance is handed to docutils with the expression providing it "
        "(Gen/SettingsSites.v); correspondence: the extracted loop model vs the real loop of Parser.parse run on generated docutils "
        "trees (raw nodes of several formats at any depth, also nested), the include prefix model vs MockIncludeDirective on "
        "(setting, file exists, option variant, argument spelling: relative, absolute, <standard>, </abs>, <../..>) with recorded "
        "file-system trace and record_dependencies; search: generated documents instantiating every raw-capable and file-capable "
        "construct with sentinel payloads/files under the 2x2 settings, oracle = no raw node / no raw markup in the html5 output / "
        "one refusal per raw node / no access to a sentinel file (open, read_text, FileInput, record_dependencies) / sentinel content "
        "absent / >= 1 refusal per file construct / marker paragraphs still rendered / the settings object every docutils directive, "
        "role call and rST parse sees IS the document's; non-trivial = document with >= 1 raw- or file-capable construct under a "
        "disabling setting")
TRUSTED = ["coq/Nest/Raw.v is a hand transcription of the raw_enabled loop of Parser.parse and of the prefix of "
           "MockIncludeDirective.run; gen/c20_rawsites.py recognises how a nodes.raw(...) site reaches the tree "
           "(self.current_node.append in a render method; default_html -> html_to_nodes -> render_html_block)",
           "gen/c20_src.py + gen/c06_walk.py: the statement mapping (RULES tables) from the raw_enabled block of Parser.parse and "
           "the head of MockIncludeDirective.run to Gallina over Nest/Raw.v (traverse_raw, parent_replace, fs trace events); "
           "one-line assignments without a file-system call are skipped as bookkeeping",
           "gen/c20_settings.py: the classification of hand-over sites (PMain/POptions/PRenderer/PSelf/PSettings/PMock/POther) and "
           "site_shares_settings in Nest/Raw.v as the reading of 'the settings object reachable from it is the main document's'",
           "in-process recording of builtins.open / io.open / pathlib.Path.read_text,read_bytes,open / docutils.io.FileInput",
           "docutils html5 writer (the written output that is searched for sentinel markup)"]
ORACLES = {
    "O_settings_identity": "every docutils directive instance (state, state_machine, memo), role call (inliner) and rST parse run is "
                           "handed an object whose .document.settings IS the main document's settings object (search: identity "
                           "recorded through Directive.__init__, roles.role, rst Parser.parse on every sentinel document; "
                           "structurally: C20_settings_shared over Gen/SettingsSites.v)",
    "O_docutils_checks": "docutils' own raw role / raw directive / csv-table :file: / rST include honour raw_enabled and "
                         "file_insertion_enabled when handed the real document settings through the mocks "
                         "(search: raw-directive, raw-role, derived role, eval-rst raw, csv-file, raw-file, rst-include)",
    "O_traverse": "document.traverse(nodes.raw) lists every raw node of the tree before the first replacement and "
                  "parent.replace keeps the position (corr: loop model vs real loop on generated trees)",
    "O_reporter": "reporter.warning returns a level-2 system_message and reports it once (corr: warning counts)",
}
ASSUMPTIONS = ["docutils front end (myst_parser.parsers.docutils_.Parser); the Sphinx front end has no such switch",
               "raw nodes hold text only (docutils FixedTextElement), so no raw node has a raw ancestor in real documents"]


def gen(ctx):
    from gen import c20_rawsites
    text, info = c20_rawsites.generate(REPO)
    write_if_changed(COQ / "Gen" / "RawSites.v", text)
    ctx.gen_info["RawSites.v"] = info["sha"]
    from gen import c20_settings
    stext, sinfo = c20_settings.generate(REPO)
    write_if_changed(COQ / "Gen" / "SettingsSites.v", stext)
    ctx.gen_info["SettingsSites.v"] = sinfo["sha"]
    ctx.gen_info["settings_sites"] = [f"{x['where']}: {x['what']} <- {x['expr']} ({x['prov']})" for x in sinfo["sites"]]
    from gen import c20_src
    import hashlib
    src = c20_src.generate(REPO)       # raises Untranslatable on any statement outside the mapping
    write_if_changed(COQ / "Gen" / "RawSrc.v", src)
    ctx.gen_info["RawSrc.v"] = hashlib.sha256(src.encode()).hexdigest()[:16]
    ctx.gen_info["raw_sites"] = [f"{s['file']}:{s['func']}:{s['format']}:{s['sink']}" for s in info["sites"]]
    ctx.gen_info["include"] = info["include"]
    ctx.gen_info["loop"] = info["loop"]
    ctx.gen_info["sources"] = src_hashes(["myst_parser/parsers/docutils_.py", "myst_parser/mocking.py",
                                          "myst_parser/mdit_to_docutils/base.py",
                                          "myst_parser/mdit_to_docutils/html_to_nodes.py"])


# ------------------------------------------------------------------ file-system recording

class FsTrace:
    def __init__(self):
        self.events = []

    def note(self, kind, path):
        try:
            p = os.fspath(path)
        except TypeError:
            return
        if isinstance(p, bytes):
            p = p.decode("utf8", "replace")
        self.events.append((kind, os.path.normpath(os.path.abspath(p))))

    def touched(self, path):
        path = os.path.normpath(os.path.abspath(path))
        return [e for e in self.events if e[1] == path]


@contextlib.contextmanager
def record_fs():
    import docutils.io
    tr = FsTrace()
    o_open, o_ioopen = builtins.open, io.open
    P = pathlib.Path
    o_rt, o_rb, o_po = P.read_text, P.read_bytes, P.open
    o_fi = docutils.io.FileInput.__init__

    def w_open(file, *a, **k):
        if not isinstance(file, int):
            tr.note("open", file)
        return o_open(file, *a, **k)

    def w_rt(self, *a, **k):
        tr.note("read_text", self)
        return o_rt(self, *a, **k)

    def w_rb(self, *a, **k):
        tr.note("read_bytes", self)
        return o_rb(self, *a, **k)

    def w_po(self, *a, **k):
        tr.note("Path.open", self)
        return o_po(self, *a, **k)

    def w_fi(self, source=None, source_path=None, *a, **k):
        if source_path is not None:
            tr.note("FileInput", source_path)
        return o_fi(self, source, source_path, *a, **k)

    builtins.open = w_open
    io.open = w_open
    P.read_text, P.read_bytes, P.open = w_rt, w_rb, w_po
    docutils.io.FileInput.__init__ = w_fi
    try:
        yield tr
    finally:
        builtins.open, io.open = o_open, o_ioopen
        P.read_text, P.read_bytes, P.open = o_rt, o_rb, o_po
        docutils.io.FileInput.__init__ = o_fi


# ------------------------------------------------------------------ settings identity (O_docutils_checks)

@contextlib.contextmanager
def record_settings():
    """record the settings object every docutils directive instance, role call and rST parse run actually sees"""
    from docutils.parsers.rst import Directive, roles
    from docutils.parsers.rst import Parser as RSTParser
    seen = []
    o_init, o_role, o_parse = Directive.__init__, roles.role, RSTParser.parse

    def w_init(self, *a, **k):
        o_init(self, *a, **k)
        for label, obj in (("directive.state", getattr(self, "state", None)),
                           ("directive.state_machine", getattr(self, "state_machine", None))):
            doc = getattr(obj, "document", None)
            if doc is not None:
                seen.append((f"{label}:{self.name}", doc.settings))
        memo = getattr(getattr(self, "state", None), "memo", None)
        if memo is not None and getattr(memo, "document", None) is not None:
            seen.append((f"directive.state.memo:{self.name}", memo.document.settings))

    def w_role(role_name, language_module, lineno, reporter):
        fn, msgs = o_role(role_name, language_module, lineno, reporter)
        if fn is None:
            return fn, msgs

        def wrapped(name, rawtext, text, lineno, inliner, *a, **k):
            doc = getattr(inliner, "document", None)
            if doc is not None:
                seen.append((f"role.inliner:{role_name}", doc.settings))
            return fn(name, rawtext, text, lineno, inliner, *a, **k)
        for attr in ("options", "content", "name", "base_role", "supplied_options", "supplied_content"):
            if hasattr(fn, attr):
                setattr(wrapped, attr, getattr(fn, attr))
        return wrapped, msgs

    def w_parse(self, inputstring, document):
        seen.append(("rst-parser.document", document.settings))
        return o_parse(self, inputstring, document)

    Directive.__init__, roles.role, RSTParser.parse = w_init, w_role, w_parse
    try:
        yield seen
    finally:
        Directive.__init__, roles.role, RSTParser.parse = o_init, o_role, o_parse


# ------------------------------------------------------------------ constructs

EXT_ALL = ["strikethrough", "html_image", "html_admonition", "dollarmath", "colon_fence"]

RAW_KINDS = ["html-block", "html-inline", "raw-directive", "raw-role", "evalrst-raw", "evalrst-role", "hardbreak",
             "strike", "html-img", "html-admonition", "nested-html", "latex-directive"]
FILE_KINDS = ["include", "include-literal", "include-code", "csv-file", "raw-file", "rst-include", "rst-csv-file",
              "rst-raw-file", "nested-include"]
# every spelling of the include argument that MockIncludeDirective.run distinguishes, x the option variants
INC_SPELLINGS = ["abs", "std", "std-abs", "std-dotdot", "dotdot"]
INC_OPTS = ["plain", "literal", "code", "parser"]
FILE_KINDS += [f"include-{sp}-{o}" for sp in INC_SPELLINGS for o in INC_OPTS]
FILE_KINDS += ["rst-include-std", "rst-include-std-abs", "rst-include-abs"]


def std_include_dir():
    from docutils.parsers.rst.directives.misc import Include
    return os.path.abspath(Include.standard_include_path)
CONTROL_KINDS = ["math", "image", "figure", "plain"]


def construct(kind, n, files, d="."):
    """-> dict(lines, markup=[regexes that must not be in the output when raw is disabled],
               filecontent=[strings that must not appear when file insertion is disabled], files=[names])"""
    s = f"SENT{n}X"
    c = {"kind": kind, "lines": [], "markup": [], "content": [], "files": []}
    tag = f'<b id="{s}">'
    if kind == "html-block":
        c["lines"] = [f'<div id="{s}">', "<p>block</p>", "</div>"]
        c["markup"] = [f'<div id="{s}">']
    elif kind == "html-inline":
        c["lines"] = [f"inline {tag}bold</b> text"]
        c["markup"] = [re.escape(tag)]
    elif kind == "raw-directive":
        c["lines"] = ["```{raw} html", f"{tag}raw directive</b>", "```"]
        c["markup"] = [re.escape(tag)]
    elif kind == "latex-directive":
        c["lines"] = ["```{raw} latex", f"\\textbf{{{s}}}", "```"]
        c["rawtext"] = [s]
    elif kind == "raw-role":
        c["lines"] = ["```{eval-rst}", f".. role:: rawrole{n}(raw)", "   :format: html", "```", "",
                      f"text {{rawrole{n}}}`{tag}role</b>` text"]
        c["markup"] = [re.escape(tag)]
    elif kind == "evalrst-raw":
        c["lines"] = ["```{eval-rst}", ".. raw:: html", "", f"   {tag}rst raw</b>", "```"]
        c["markup"] = [re.escape(tag)]
    elif kind == "evalrst-role":
        c["lines"] = ["```{eval-rst}", f".. role:: rr{n}(raw)", "   :format: html", "",
                      f"para :rr{n}:`{tag}rst role</b>` end", "```"]
        c["markup"] = [re.escape(tag)]
    elif kind == "hardbreak":
        c["lines"] = [f"first {s}\\", "second line"]
        c["markup"] = [r"<br ?/?>"]
    elif kind == "strike":
        c["lines"] = [f"some ~~struck {s}~~ text"]
        c["markup"] = [r"<s>", r"</s>"]
    elif kind == "html-img":
        c["lines"] = [f'<img src="pic{n}.png" id="{s}" onerror="x">']
        c["markup"] = [r"onerror="]
    elif kind == "html-admonition":
        c["lines"] = [f'<div class="admonition note" id="{s}">', f"<p>adm</p>", f'<script id="{s}s">1</script>', "</div>"]
        c["markup"] = [f'<script id="{s}s">']
    elif kind == "nested-html":
        c["lines"] = ["````{note}", "> quoted", f'> {tag}deep</b> x\\', "> y", "", f'<div id="{s}d">', "</div>", "````"]
        c["markup"] = [re.escape(tag), f'<div id="{s}d">', r"<br ?/?>"]
    elif kind.startswith(("include-abs", "include-std", "include-dotdot", "rst-include-std", "rst-include-abs")):
        rst = kind.startswith("rst-")
        parts = kind.split("-")
        opt = parts[-1] if not rst and parts[-1] in INC_OPTS else "plain"
        sp = "-".join(parts[2:]) if rst else "-".join(parts[1:-1])
        payload = f"FILE{n}PAYLOAD"
        fname = f"sent{n}." + ("rst" if rst else "md")
        target = os.path.join(d, "sub", fname) if sp == "dotdot" else os.path.join(d, fname)
        if sp == "std":
            # a definition file shipped with docutils
            target = os.path.join(std_include_dir(), "isonum.txt")
            arg = "<isonum.txt>"
            c["content"] = ['names="amp"'] if rst else ["AMPERSAND"]
        else:
            files[os.path.relpath(target, d)] = f"para {payload}\n"
            c["content"] = [payload]
            arg = {"abs": target, "std-abs": "<" + target + ">",
                   "std-dotdot": "<" + os.path.relpath(target, std_include_dir()) + ">",
                   "dotdot": os.path.join("sub", "..", "sub", fname)}[sp]
        c["watch"] = [target]
        if rst:
            c["lines"] = ["```{eval-rst}", f".. include:: {arg}", "```"]
        else:
            c["lines"] = [f"```{{include}} {arg}"] + {"plain": [], "literal": [":literal:"], "code": [":code: python"],
                                                    "parser": [":parser: rst"]}[opt] + ["```"]
    elif kind in FILE_KINDS:
        fname = f"sent{n}." + {"csv-file": "csv", "rst-csv-file": "csv", "raw-file": "html", "rst-raw-file": "html",
                               "rst-include": "rst"}.get(kind, "md")
        payload = f"FILE{n}PAYLOAD"
        body = {"csv": f"a,{payload}\n1,2\n", "html": f"<i>{payload}</i>\n", "rst": f"para {payload}\n",
                "md": f"para {payload}\n"}[fname.rsplit(".", 1)[1]]
        files[fname] = body
        c["files"] = [fname]
        c["watch"] = [os.path.join(d, fname)]
        c["content"] = [payload]
        if kind == "include":
            c["lines"] = [f"```{{include}} {fname}", "```"]
        elif kind == "include-literal":
            c["lines"] = [f"```{{include}} {fname}", ":literal:", "```"]
        elif kind == "include-code":
            c["lines"] = [f"```{{include}} {fname}", ":code: python", "```"]
        elif kind == "csv-file":
            c["lines"] = ["```{csv-table} Title", f":file: {fname}", "```"]
        elif kind == "raw-file":
            c["lines"] = ["```{raw} html", f":file: {fname}", "```"]
            c["needs_raw"] = True
        elif kind == "rst-include":
            c["lines"] = ["```{eval-rst}", f".. include:: {fname}", "```"]
        elif kind == "rst-csv-file":
            c["lines"] = ["```{eval-rst}", ".. csv-table:: T", f"   :file: {fname}", "```"]
        elif kind == "rst-raw-file":
            c["lines"] = ["```{eval-rst}", ".. raw:: html", f"   :file: {fname}", "```"]
            c["needs_raw"] = True
        elif kind == "nested-include":
            c["lines"] = ["````{note}", f"```{{include}} {fname}", "```", "````"]
    elif kind == "math":
        c["lines"] = [f"math $x_{n}$ here"]
    elif kind == "image":
        c["lines"] = [f"![alt](nofile{n}.png)"]
    elif kind == "figure":
        c["lines"] = [f"```{{figure}} nofile{n}.png", "caption", "```"]
    else:
        c["lines"] = [f"plain paragraph {n}"]
    return c


def gen_doc(rng, kinds=None):
    k = kinds or [rng.choice(RAW_KINDS + FILE_KINDS + CONTROL_KINDS) for _ in range(rng.randint(1, 4))]
    return {"kinds": list(k), "ext": sorted(rng.sample(EXT_ALL, rng.randint(2, len(EXT_ALL))) + ["strikethrough"])
            if "strike" in k else sorted(rng.sample(EXT_ALL, rng.randint(1, len(EXT_ALL))))}


def build(case, d="."):
    files = {}
    cs = [construct(k, i + 1, files, d) for i, k in enumerate(case["kinds"])]
    lines = ["MARKERBEFORE paragraph", ""]
    for c in cs:
        lines += c["lines"] + [""]
    lines += ["MARKERAFTER paragraph"]
    return cs, files, "\n".join(lines) + "\n"


def run_doc(case, raw_enabled, file_insertion, parser=None):
    """-> dict(raw_nodes, html, pformat, warnings, trace, files, exc)
    parser: a Parser instance that has already parsed other documents (history: one instance, several settings)"""
    from docutils import nodes
    from docutils.core import publish_doctree, publish_from_doctree
    from lib.impl import scratch_dir
    from myst_parser.parsers.docutils_ import Parser
    out = {}
    with scratch_dir() as d:
        d = os.path.realpath(d)
        cs, files, text = build(case, d)
        out["constructs"] = cs
        for name, content in files.items():
            os.makedirs(os.path.dirname(os.path.join(d, name)), exist_ok=True)
            with open(os.path.join(d, name), "w", encoding="utf8") as f:
                f.write(content)
        ws = io.StringIO()
        so = {"warning_stream": ws, "report_level": 1, "halt_level": 5, "output_encoding": "unicode",
              "raw_enabled": raw_enabled, "file_insertion_enabled": file_insertion,
              "myst_enable_extensions": case["ext"], "embed_stylesheet": False, "stylesheet_path": None}
        src = os.path.join(d, "main.md")
        with record_fs() as tr, record_settings() as seen:
            try:
                doc = publish_doctree(text, source_path=src, parser=parser or Parser(), settings_overrides=so)
            except Exception as e:
                out["exc"] = e
                return out
        out["foreign_settings"] = sorted({lab for lab, st in seen if st is not doc.settings})
        out["settings_seen"] = len(seen)
        deps = [os.path.normpath(os.path.abspath(x)) for x in doc.settings.record_dependencies.list]
        out["trace"] = {}
        for c in cs:
            for w in c.get("watch", []):
                wn = os.path.normpath(os.path.abspath(w))
                out["trace"][w] = tr.touched(w) + ([("record_dependencies", wn)] if wn in deps else [])
        out["raw_nodes"] = [(n.get("format"), n.astext()[:60]) for n in doc.findall(nodes.raw)]
        out["pformat"] = doc.pformat()
        out["messages"] = [m.astext() for m in doc.findall(nodes.system_message)]
        out["warnings"] = ws.getvalue()
        try:
            out["html"] = publish_from_doctree(doc, writer_name="html5", settings_overrides=so)
        except Exception as e:
            out["exc"] = e
            return out
        if isinstance(out["html"], bytes):
            out["html"] = out["html"].decode("utf8", "replace")
    return out


def body_of(html):
    m = re.search(r"<body.*?>(.*)</body>", html, re.S)
    return m.group(1) if m else html


def check_doc(ctx, case, quiet=False):
    """the property on one generated document under the four settings; returns list of (signature, what, exp, obs)"""
    problems = []
    shared = None
    if case.get("reuse"):
        # history: ONE Parser instance parses the document under all four settings in turn (docutils allows a
        # parser instance to be handed to several publish_* calls); each parse must honour ITS document's settings
        from myst_parser.parsers.docutils_ import Parser
        shared = Parser()
    base = run_doc(case, True, True, shared)
    if "exc" in base:
        return [(f"exception:{type(base['exc']).__name__}", f"raised {base['exc']!r} with both settings enabled", None, None)]
    for raw_on, file_on in ((False, True), (True, False), (False, False)):
        r = run_doc(case, raw_on, file_on, shared)
        tag = f"raw={'on' if raw_on else 'off'},file={'on' if file_on else 'off'}" + (",parser-instance-reused" if shared else "")
        if "exc" in r:
            problems.append((f"exception:{type(r['exc']).__name__}", f"raised {r['exc']!r} under {tag}", None, repr(r["exc"])))
            continue
        body = body_of(r["html"])
        if r["foreign_settings"]:
            problems.append(("settings:not-shared", f"docutils code was handed a settings object that is not the document's "
                             f"under {tag}: {r['foreign_settings'][:4]}", "the main document's settings object",
                             r["foreign_settings"][:6]))
        if not raw_on:
            if r["raw_nodes"]:
                problems.append(("raw:survives", f"raw node(s) in the doctree under {tag}: {r['raw_nodes'][:3]}",
                                 "no raw node", r["raw_nodes"][:5]))
            for c in r["constructs"]:
                for rx in c["markup"]:
                    if re.search(rx, body):
                        problems.append(("raw:payload-in-output:" + c["kind"],
                                         f"raw markup /{rx}/ of {c['kind']} is in the html5 output under {tag}",
                                         "absent", re.search(rx, body).group(0)))
                for t in c.get("rawtext", []):
                    if any(t in x[1] for x in r["raw_nodes"]):
                        problems.append(("raw:survives", f"raw text {t} still in a raw node under {tag}", None, None))
            # one report per refusal: as many refusals as raw nodes with raw enabled
            # (constructs that also need file insertion produce no raw node when that is off)
            want = len(run_doc(case, True, file_on)["raw_nodes"]) if not file_on else len(base["raw_nodes"])
            got = len(re.findall(r"Raw content disabled\.|directive disabled\.|roles disabled", r["warnings"]))
            got_raw = len(re.findall(r"Raw content disabled\.|\"raw\" directive disabled\.|roles disabled", r["warnings"]))
            if got_raw < want:
                problems.append(("raw:no-warning", f"{want} raw nodes are produced with raw enabled but only {got_raw} "
                                 f"refusals are reported under {tag}", want, got_raw))
        if not file_on:
            for c in r["constructs"]:
                for fname in c.get("watch", []):
                    if r["trace"].get(fname):
                        problems.append(("file:read-when-disabled:" + c["kind"],
                                         f"{os.path.basename(fname)} was accessed by {c['kind']} under {tag}: "
                                         f"{r['trace'][fname][:3]}", "no access", r["trace"][fname][:3]))
                for t in c["content"]:
                    if t in r["pformat"] or t in body:
                        problems.append(("file:content-inserted:" + c["kind"],
                                         f"content of the file of {c['kind']} is in the document under {tag}", "absent", t))
                if c.get("watch"):
                    n_dis = len(re.findall(r"disabled|deactivated", r["warnings"]))
                    if n_dis < 1:
                        problems.append(("file:no-warning:" + c["kind"], f"no refusal reported for {c['kind']} under {tag}",
                                         ">=1 'disabled'/'deactivated' warning", r["warnings"][-300:]))
        for marker in ("MARKERBEFORE paragraph", "MARKERAFTER paragraph"):
            if marker not in body or marker not in r["pformat"]:
                problems.append(("rest:marker-lost", f"{marker!r} is not rendered under {tag}", "present", body[-300:]))
        # controls and enabled-side constructs still render: the document with everything enabled
        # differs from this one only by the refused constructs
    if base["raw_nodes"] == [] and any(k in RAW_KINDS for k in case["kinds"]) and \
            not all(k in ("html-img", "html-admonition") for k in case["kinds"] if k in RAW_KINDS):
        problems.append(("harness:no-raw-with-raw-enabled", "raw-capable constructs produced no raw node with raw enabled",
                         ">=1", base["pformat"][:600]))
    for c in base["constructs"]:
        if c.get("watch") and not any(base["trace"].get(w) for w in c["watch"]):
            problems.append(("harness:file-not-read-when-enabled:" + c["kind"],
                             "no recorded access to the file although file insertion is enabled", c["watch"], base["trace"]))
        for t in c["content"]:
            if not c.get("needs_raw") and t not in base["pformat"]:
                problems.append(("harness:file-not-inserted-when-enabled:" + c["kind"],
                                 "file content missing although file insertion is enabled", t, base["pformat"][:600]))
    return problems


def localise(ctx, case, problems):
    """re-run each construct alone to name the construct in the signature"""
    sig, what, exp, obs = problems[0]
    if ":" in sig and sig.split(":")[-1] in RAW_KINDS + FILE_KINDS:
        return problems[0]
    for k in case["kinds"]:
        single = {"kinds": [k], "ext": case["ext"]}
        if case.get("reuse"):
            single["reuse"] = True
        ps = check_doc(ctx, single)
        same = [p for p in ps if p[0].split(":")[:2] == sig.split(":")[:2]]
        if same:
            s2, w2, e2, o2 = same[0]
            if s2.count(":") < 2:
                s2 = s2 + ":" + k
            return (s2, w2 + " (construct alone)", e2, o2)
    return (sig + ":combination", what, exp, obs)


# ------------------------------------------------------------------ correspondence

TAGS = ["paragraph", "emphasis", "section", "bullet_list", "list_item", "container", "block_quote", "literal", "note"]


def gen_tree(rng, depth=0, in_raw=False):
    from docutils import nodes
    r = rng.random()
    if depth > 3 or r < 0.25:
        return nodes.Text("t%d" % rng.randint(0, 9))
    if r < 0.5:
        n = nodes.raw("", "", format=rng.choice(["html", "latex", "", "HTML", "html latex", "text"]))
        for _ in range(rng.randint(0, 2)):
            n.append(gen_tree(rng, depth + 1, True) if rng.random() < 0.3 else nodes.Text("rawtext"))
        return n
    if r < 0.56:
        m = nodes.system_message("x", level=rng.choice([1, 2, 3]), type="X")
        return m
    cls = getattr(nodes, rng.choice(TAGS))
    n = cls()
    for _ in range(rng.randint(0, 3)):
        n.append(gen_tree(rng, depth + 1, in_raw))
    return n


def enc_tree(n):
    from docutils import nodes
    if isinstance(n, nodes.Text):
        return "T" + enc_str(str(n))
    if isinstance(n, nodes.raw):
        head = "R" + enc_str(n.get("format", ""))
    elif isinstance(n, nodes.system_message):
        return "S%d ( )" % n["level"]
    elif isinstance(n, nodes.document):
        head = "E99"
    else:
        head = "E%d" % TAGS.index(n.tagname)
    return " ".join([head, "("] + [enc_tree(c) for c in n.children] + [")"])


def run_real_loop(kids, raw_enabled):
    """Parser.parse with the rendering replaced by 'install this tree' - the post-processing is the real code"""
    from docutils.frontend import get_default_settings
    from docutils.utils import new_document
    import myst_parser.parsers.docutils_ as D
    ws = io.StringIO()
    st = get_default_settings(D.Parser)
    st.warning_stream = ws
    st.report_level = 1
    st.halt_level = 5
    st.raw_enabled = raw_enabled
    doc = new_document("<tree>", st)

    class Fake:
        def __init__(self):
            self.options = {}

        def render(self, text):
            for k in kids:
                self.options["document"].append(k)

    orig = D.create_md_parser
    D.create_md_parser = lambda config, renderer: Fake()
    try:
        D.Parser().parse("ignored\n", doc)
    finally:
        D.create_md_parser = orig
    return doc, ws.getvalue()


def corr(ctx):
    rng = ctx.rng
    # (a) the loop
    cases, reqs = [], []
    for i in range(ctx.budget(600, 8000, 8000)):
        kids = [gen_tree(rng, 1) for _ in range(rng.randint(0, 4))]
        enabled = rng.random() < 0.15
        # encode before the loop mutates the tree
        from docutils import nodes
        holder = nodes.container()
        enc = " ".join(["E99", "("] + [enc_tree(k) for k in kids] + [")"])
        cases.append((kids, enabled, enc))
        reqs.append("strip\t%s\t%s" % ("1" if enabled else "0", enc))
    outs = model_run(PID, reqs) if ctx.have_runner else [None] * len(reqs)
    for (kids, enabled, enc), o in zip(cases, outs):
        try:
            doc, warns = run_real_loop(kids, enabled)
            got = enc_tree(doc)
            nwarn = len(re.findall(r"Raw content disabled\.", warns))
            from docutils import nodes
            has = any(True for _ in doc.findall(nodes.raw))
            impl = "%s\t%d\t%s" % (got, nwarn, "1" if has else "0")
        except Exception as e:
            impl = "!" + type(e).__name__
        ctx.corr_cases += 1
        ctx.count("loop:" + ("enabled" if enabled else "disabled"))
        if "R" in enc and not enabled:
            ctx.nontriv(("loop", enc))
        if o is not None and impl != o:
            ctx.disagree("raw_enabled loop of Parser.parse vs strip_raw", {"tree": enc, "raw_enabled": enabled}, impl[:600], o[:600])
        elif o is None and not enabled and impl.endswith("\t1"):
            ctx.disagree("raw node survives the loop", {"tree": enc, "raw_enabled": enabled}, impl[:600], "no raw")
    ctx.sample({"loop_tree": cases[0][2]} if cases else {})
    # (b) the include prefix, every argument spelling
    from docutils import nodes
    from docutils.core import publish_doctree
    from lib.impl import scratch_dir
    from lib.common import dec_str
    from myst_parser.parsers.docutils_ import Parser
    reqs, obs = [], []
    std = std_include_dir()
    for fie in (False, True):
        for exists in (False, True):
            for variant in ("plain", "literal", "code"):
                for sp in ("rel", "abs", "std", "std-abs", "std-dotdot"):
                    opts = {"plain": [], "literal": [":literal:"], "code": [":code: python"]}[variant]
                    with scratch_dir() as d:
                        d = os.path.realpath(d)
                        target = os.path.join(d, "f.md")
                        if exists:
                            with open(target, "w") as f:
                                f.write("included FILEPAYLOAD\n")
                        if sp == "std":
                            inner = "isonum.txt" if exists else "nonexistent-x.txt"
                            arg = "<" + inner + ">"
                        else:
                            arg = {"rel": "f.md", "abs": target, "std-abs": "<" + target + ">",
                                   "std-dotdot": "<" + os.path.relpath(target, std) + ">"}[sp]
                        text = "\n".join(["```{include} " + arg] + opts + ["```"]) + "\n"
                        ws = io.StringIO()
                        with record_fs() as tr:
                            doc = publish_doctree(text, source_path=os.path.join(d, "main.md"), parser=Parser(),
                                                  settings_overrides={"warning_stream": ws, "report_level": 1,
                                                                      "halt_level": 5, "file_insertion_enabled": fie})
                        is_std = arg.startswith("<") and arg.endswith(">")
                        want_path = os.path.normpath(os.path.join(std, arg[1:-1]) if is_std else os.path.join(d, arg))
                        label = ("S" + arg[1:-1]) if is_std else ("P" + arg)

                        def lab(pth):
                            return label if os.path.normpath(os.path.abspath(pth)) == want_path else "?" + pth
                        deps = [lab(x) for x in doc.settings.record_dependencies.list]
                        reads = sorted({lab(e[1]) for e in tr.events
                                        if e[0] == "read_text" and not e[1].endswith("main.md")})
                        msgs = [m["level"] for m in doc.findall(nodes.system_message)]
                        res = ("error%d" % max(msgs)) if msgs else "nodes"
                        trace = ["depend:" + x for x in deps] + ["read:" + x for x in reads]
                    reqs.append("include\t%s\t0\t%s\t%s\t%s" % ("1" if fie else "0", enc_str("include"), enc_str(arg),
                                                               "1" if exists else "0"))
                    obs.append(({"file_insertion_enabled": fie, "exists": exists, "variant": variant, "spelling": sp,
                                 "arg": arg}, res + "\t" + ",".join(trace)))
    if ctx.have_runner:
        outs = []
        for o in model_run(PID, reqs):
            r, _, t = o.partition("\t")
            evs = [e.split(":")[0] + ":" + dec_str(e.split(":")[1]) for e in t.split(";") if ":" in e]
            outs.append(r + "\t" + ",".join(evs))
    else:
        outs = [o for _, o in obs]
    for (case, impl), o in zip(obs, outs):
        ctx.corr_cases += 1
        ctx.count("include-prefix:" + case["spelling"])
        if impl != o:
            ctx.disagree("MockIncludeDirective.run prefix vs include_run_prefix", case, impl, o)


# ------------------------------------------------------------------ search

def check_case(ctx, case):
    if "kinds" not in case:
        return True
    ps = check_doc(ctx, case)
    if ps:
        sig, what, exp, obs = localise(ctx, case, ps)
        ctx.fail(sig, case, what, expected=exp, observed=obs)
        return False
    return True


def search(ctx):
    rng = ctx.rng
    for c in ctx.suspects[:20]:
        if c and "kinds" in c:
            ctx.search_cases += 1
            check_case(ctx, c)
    # every construct alone, then generated combinations
    nfail = 0
    for k in RAW_KINDS + FILE_KINDS + CONTROL_KINDS:
        case = {"kinds": [k], "ext": EXT_ALL}
        ctx.search_cases += 1
        ctx.count("single:" + k)
        ctx.nontriv(("single", k))
        if not check_case(ctx, case):
            nfail += 1
    for k in RAW_KINDS + FILE_KINDS:
        case = {"kinds": [k], "ext": EXT_ALL, "reuse": True}  # one Parser instance across the four settings
        ctx.search_cases += 1
        ctx.count("single-parser-reused:" + k)
        ctx.nontriv(("single-reuse", k))
        if not check_case(ctx, case):
            nfail += 1
    for k in ("html-img", "html-admonition", "html-block"):
        case = {"kinds": [k], "ext": ["strikethrough"]}       # html_image / html_admonition off
        ctx.search_cases += 1
        ctx.count("single-ext-off:" + k)
        if not check_case(ctx, case):
            nfail += 1
    for i in range(ctx.budget(60, 700, 500)):
        case = gen_doc(rng)
        if i % 4 == 3:
            case["reuse"] = True
            ctx.count("doc:parser-instance-reused")
        ctx.search_cases += 1
        ctx.count("doc:%d-constructs" % len(case["kinds"]))
        if any(k in RAW_KINDS + FILE_KINDS for k in case["kinds"]):
            ctx.nontriv(("doc", tuple(case["kinds"]), tuple(case["ext"])))
        if i == 0:
            ctx.sample({"document": build(case)[2], "ext": case["ext"]})
        if not check_case(ctx, case):
            nfail += 1
            if nfail > 12:
                break


def replay(ctx, data):
    w = data.get("witness")
    if not w:
        print("replay file names no concrete input:", data.get("no_longer_checks"))
        return 1
    ok = check_case(ctx, w)
    print("replay:", "property holds on this input" if ok else ctx.failures[-1])
    return 0 if ok else 1


LEVEL_TEXT = ("Proof (Coq 8.16, 9 theorems, all closed under the global context). Proved in full on the model Nest/Raw.v: the "
              "post-processing loop of Parser.parse leaves no raw node of any format at any depth (C20_no_raw_survives) and keeps "
              "every other node in place and order with exactly one warning per removed raw node (C20_rest_untouched); with file "
              "insertion disabled the include directive's run() returns the level-2 error before any file-system operation, for every "
              "argument spelling (ordinary path, <standard include>), and the other blocks render as without it "
              "(C20_include_refuses_before_io, C20_include_reads_when_enabled). Finite regenerated tables (bounds in the statements): "
              "every nodes.raw construction site puts its node into the tree before the loop, the loop has the modelled shape and "
              "position (C20_all_raw_in_tree, 6 sites); at each of the 19 places where MyST hands a document/settings/state/inliner/"
              "directive instance to docutils, the settings object reachable from it is the main document's (C20_settings_shared). "
              "Tied to code regenerated from the source on every run (Gen/RawSrc.v: the raw_enabled block of Parser.parse and "
              "MockIncludeDirective.run from its first statement to the nested_render_text call, statement by statement) by refinement "
              "proofs: C20_src_is_model, C20_no_raw_survives_src, C20_include_refuses_before_io_src. Further tie on every run: the real "
              "loop vs the extracted model on generated trees, the include prefix vs the real directive with a recorded file-system "
              "trace, sentinel documents for every raw-capable and file-capable construct under the 2x2 settings with a dynamic "
              "identity check of the settings object docutils code sees, also as histories in which one Parser instance parses the "
              "document under the four settings in turn.")
LEVEL_NOTE = ("Partial: docutils' own raw role/directive, derived roles, csv-table :file:, raw :file: and the rST include inside eval-rst "
              "honour the settings by docutils code (oracle O_docutils_checks) - tightened structurally by C20_settings_shared and "
              "dynamically by O_settings_identity, not modelled; document.traverse / reporter.warning are oracles (O_traverse, "
              "O_reporter) exercised by the loop correspondence; the statement mappings of gen/c20_src.py and the site "
              "classification of gen/c20_rawsites.py / c20_settings.py are trusted; decided for the docutils front end only (the Sphinx "
              "front end has no such switch); the written output checked is html5; _docs.py's section-numbering transform (project "
              "documentation build) is excluded by name. No open finding, no fix commit for C20.")
