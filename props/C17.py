"""C17 - HTML blocks: verbatim pass-through, img/admonition = directives, GFM tag filter."""
import html as _html
import itertools
import re

from lib.common import COQ, REPO, dec_str, enc_ostr, enc_str, model_run_parallel, src_hashes, write_if_changed
from props import C16 as H

PID = "C17"
RULE = ("correspondence: (a) the character-level model of RE_FLOW.subn vs html_to_nodes in gfm_only mode on all strings up "
        "to length 5 (quick) / 6 (thorough) over '< / s c r i p t > space' and random longer texts over every listed tag, mixed "
        "case and the non-ASCII case variants of re.IGNORECASE; (b) option_line model vs implementation on all values up to "
        "length 3 over a 24-symbol alphabet of characters significant to the option syntax + random longer ones; (c) "
        "html_to_nodes (real code, mock renderer capturing run_directive, real html.parser events recorded) vs the model on "
        "generated HTML blocks x the four html_image/html_admonition combinations x gfm_only on/off, relation = raw text / "
        "warning+raw / missing-src error / list of (directive name, first line, content). search: full docutils pipeline, "
        "metamorphic: <img> document vs {image} directive document (image node attributes), <div class=admonition> vs "
        "{admonition} directive (admonition subtree), raw pass-through = markdown-it html token contents in order under all "
        "four combinations, GFM neutralisation predicate and 'only < changes' on the output; option values read back by the "
        "real option parser equal the attribute values; non-trivial = value needing quotes / text with a filtered tag / "
        "block with >= 2 top-level elements")
TRUSTED = ["coq/Html/HtmlToNodes.v is a hand transcription of html_to_nodes / option_line (checked by correspondence, not proved)",
           "gen/pysrc.py + gen/c17_src.py (statement-by-statement source translation of option_line / default_html / html_to_nodes) "
           "with the domain mapping listed in gen/c17_src.py's docstring and coq/Html/NodesPrims.v (renderer flags = booleans, "
           "nodes.raw = ORaw, run_directive call = directive record, x.render() = the modelled render, text-matched regex calls)",
           "Python re: RE_FLOW's structure is read with re._parser and the per-letter IGNORECASE classes and \\s are computed with re itself",
           "markdown-it-py's html_block / html_inline tokenisation is taken as given (the property starts at the HTML token)",
           "docutils image/admonition directive classes and option converters are the same on both sides of the metamorphic comparison"]
ORACLES = {
    "O_htmlparser_events": "as C16: html.parser event stream recorded from the real parser for every generated block",
    "O_option_tokenizer": "myst_parser.parsers.options.options_to_items reads a plain value in the safe class verbatim and a "
                          "double-quoted value with \\\\uXXXX escapes back to the original string: exercised on every generated "
                          "value (search: option-values-carried) and exhaustively on short values",
    "O_re_subn": "re.subn visits matches left to right without overlap; a match of RE_FLOW contains no second '<' "
                 "(exercised by the exhaustive comparison of the character-level model with the real call)",
}
ASSUMPTIONS = ["gfm_only needs linkify-it-py, which is not installed: the full pipeline in GFM mode is run through create_md_parser "
               "with the linkify rule disabled (as the property allows); html_to_nodes itself is also called directly",
               "sorted(attrs.items()) never compares values because dict keys are distinct"]

SOURCES = ["myst_parser/mdit_to_docutils/html_to_nodes.py", "myst_parser/parsers/parse_html.py"]


def gen(ctx):
    from gen import c16_html, c17_nodes
    text, info = c16_html.generate(REPO)
    write_if_changed(COQ / "Gen" / "Html.v", text)
    ctx.gen_info["Gen/Html.v"] = info
    text, info = c17_nodes.generate(REPO)
    write_if_changed(COQ / "Gen" / "HtmlNodes.v", text)
    ctx.gen_info["Gen/HtmlNodes.v"] = info
    from gen import c16_src, c17_src
    text, info = c16_src.generate(REPO)
    write_if_changed(COQ / "Gen" / "HtmlSrc.v", text)
    ctx.gen_info["Gen/HtmlSrc.v"] = info
    text, info = c17_src.generate(REPO)
    write_if_changed(COQ / "Gen" / "HtmlNodesSrc.v", text)
    ctx.gen_info["Gen/HtmlNodesSrc.v"] = info
    ctx.gen_info["sources"] = src_hashes(SOURCES)


# ------------------------------------------------------------------ driving the implementation

TAGS = ["iframe", "noembed", "noframes", "plaintext", "script", "style", "title", "textarea", "xmp"]
LOOK = "\t\n\f\r />"


def call_html_to_nodes(text, img, adm, gfm, record=True, real_tok=False):
    """Call the real html_to_nodes with a mock renderer. Returns (observation string pieces, events).
    real_tok: leave tokenize_html as it is (no event recording) - needed to observe state kept between calls."""
    from unittest.mock import Mock

    from docutils import nodes
    from myst_parser.config.main import MdParserConfig
    from myst_parser.mdit_to_docutils import html_to_nodes as M

    calls = []

    def run_directive(name, first_line, content, position, *a, **kw):
        n = nodes.Element(directive=len(calls))
        calls.append((name, first_line, content))
        return [n]

    ext = [e for e, on in (("html_image", img), ("html_admonition", adm)) if on]
    renderer = Mock(md_config=MdParserConfig(enable_extensions=ext, gfm_only=gfm), document={"source": "src"},
                    reporter=Mock(error=Mock(return_value=nodes.Element(marker="error"))),
                    create_warning=Mock(return_value=nodes.Element(marker="warning")),
                    run_directive=run_directive)
    events = []
    orig = M.tokenize_html

    def tok(t, *a, **kw):
        root, evs, exc = H.record_events(t)
        events.extend(("L", e[1]) if e[0] == "U" else e for e in evs)
        if exc:
            raise RuntimeError(exc)
        return root

    if not real_tok:
        M.tokenize_html = tok
    try:
        try:
            out = M.html_to_nodes(text, 0, renderer)
        finally:
            M.tokenize_html = orig
    except Exception as e:  # noqa: BLE001
        return "!" + type(e).__name__, events
    kinds = ["sm:" + n["marker"] if isinstance(n, nodes.Element) and "marker" in n else type(n).__name__ for n in out]
    def raw_text(n):     # not astext(): docutils' unescape() drops NUL characters
        return "".join(str(c) for c in n.children)

    if kinds == ["raw"]:
        return "R|" + raw_text(out[0]), events
    if kinds == ["sm:warning", "raw"]:
        return "W|" + raw_text(out[1]), events
    if kinds == ["sm:error"]:
        return "M", events
    if kinds and all(k == "Element" for k in kinds):
        return ("D", [calls[n["directive"]] for n in out]), events
    return "?" + repr(kinds), events


def impl_option_line(v, extra=()):
    """the option block the real html_to_nodes builds for <img src="s" alt=v ...> (no dependence on helper names)"""
    obs, _ = call_html_to_nodes(img_html([("src", "s"), ("alt", v)] + list(extra)), True, False, False, record=False)
    if isinstance(obs, tuple) and len(obs[1]) == 1:
        return obs[1][0][2]
    return "!" + repr(obs)[:80]


def real_option_block(content):
    """the text that the real _parse_directive_options hands to the option tokenizer (None if it does not)"""
    from docutils.parsers.rst.directives.images import Image
    from myst_parser.parsers import directives as D
    seen = []
    orig = D.options_to_items

    def spy(text, *a, **kw):
        seen.append(text)
        return orig(text, *a, **kw)

    D.options_to_items = spy
    try:
        try:
            D._parse_directive_options(content, Image, as_yaml=False, line=0)
        except Exception:  # noqa: BLE001
            pass
    finally:
        D.options_to_items = orig
    return seen[0] if seen else None


def dec_h2n(o):
    if o.startswith(("R|", "W|")):
        return o[:2] + dec_str(o[2:])
    if o.startswith("D|"):
        return ("D", [tuple(dec_str(f) for f in d.split("^")) for d in o[2:].split(";")])
    return o


# ------------------------------------------------------------------ generators

VAL_ALPHA = ["a", "b", " ", "#", '"', "'", "|", ">", "\\", ":", "\n", "\t", "\r", "\x0c", "\x0b", "\x1c", "\x85", " ",
             "\x00", "\xa0", "é", "-", "{", "﻿"]


def rand_value(rng, full_pipeline=False):
    r = rng.random()
    if r < 0.25:
        return rng.choice(["left", "200px", "a b", "x", "50%", "tip", "a.png", "note warning", "A title"])
    al = [c for c in VAL_ALPHA if not (full_pipeline and c in "\x00\r")]
    v = "".join(rng.choice(al + ["x y", " #", "\\n", "\\u", "'q'", "c"]) for _ in range(rng.randint(0, 8)))
    if full_pipeline:
        # the tag must stay one inline-HTML token of the Markdown document: a continuation line must not
        # start a block (quote, list, heading ...), so every line break is followed by a letter
        v = re.sub(r"\n(?![a-z])", "\nq", v)
    return v


def attr_html(k, v):
    if v is None:
        return k
    return '%s="%s"' % (k, v.replace("&", "&amp;").replace('"', "&quot;"))


def gen_img(rng, full_pipeline=False):
    keys = ["alt", "class", "height", "width", "align", "name", "title", "id", "data-x"]
    rng.shuffle(keys)
    attrs = []
    r = rng.random()
    if r < 0.9:
        attrs.append(("src", rng.choice(["a.png", "img/b.jpg", "x"]) if r > 0.05 or full_pipeline else None))
    for k in keys[: rng.choice([0, 1, 1, 2, 3])]:
        if full_pipeline and k in ("class", "height", "width", "align", "name"):
            v = {"class": rng.choice(["a", "a b", "tip"]), "height": rng.choice(["200px", "50"]), "width": rng.choice(["10em", "30%"]),
                 "align": rng.choice(["left", "center", "right"]), "name": rng.choice(["n1", "my name"])}[k]
        else:
            v = rand_value(rng, full_pipeline) if rng.random() > 0.1 or full_pipeline else None
        attrs.append((k, v))
    rng.shuffle(attrs)
    return attrs


def img_html(attrs, selfclose=False, tag="img"):
    return "<" + tag + "".join(" " + attr_html(k, v) for k, v in attrs) + ("/>" if selfclose else ">")


def gen_block(rng):
    """An HTML block / inline snippet: (text, label)."""
    r = rng.random()
    if r < 0.3:
        n = rng.choice([1, 1, 2, 3])
        parts = [img_html(gen_img(rng), rng.random() < 0.2,
                          "img" if rng.random() < 0.85 else (upper_some(rng, "img") if rng.random() < 0.5 else rng.choice(IMG_LIKE)))
                 for _ in range(n)]
        sep = rng.choice(["", "\n", " ", "\n \n"])
        return sep.join(parts) + rng.choice(["", "\n"]), "img"
    if r < 0.6:
        return gen_admonition(rng), "adm"
    if r < 0.7:
        return H.gen_soup(rng, 10), "soup"
    if r < 0.8:
        return H.print_doc(H.gen_wf(rng)), "wf"
    # mixtures: convertible forms next to something else
    a = img_html(gen_img(rng))
    b = gen_admonition(rng)
    other = rng.choice(["<span>x</span>", "text", "<!-- c -->", "<table></table>", "&amp;", "<div>d</div>", "<div class>e</div>",
                        "<script>alert(1)</script>", "<img>", "<br>"])
    parts = [a, b, other]
    rng.shuffle(parts)
    return "\n".join(parts[: rng.choice([2, 3])]), "mix"


# class attribute values: (value, is "admonition" one of its white-space separated tokens)
CLS_YES = ["admonition", "admonition tip", "note admonition", "admonition\twarning", " admonition ", "admonition admonition",
           "a\nadmonition", "x\x0cadmonition\ry", "tip  admonition  note", "admonition-title admonition", "admonition Admonition"]
CLS_NO = ["admonition-title", "myadmonition", "no-admonitions x", "admonitions", "admonition_", "x-admonition y", "Admonition",
          "ADMONITION tip", "admonitio n", "admonition.tip", "tip,admonition", "", "note", "ad monition", "admonition-", "_admonition"]
# element names near "img" / "div" (html.parser lower-cases names)
IMG_LIKE = ["imgx", "im", "image", "img-x", "ximg", "picture"]
DIV_LIKE = ["divx", "di", "section", "div-x", "p", "span"]
# inner HTML of a <p> whose inline children are separated by white-space-only text nodes / with blanks at its ends
INLINE_BODIES = ["<em>a</em> <strong>b</strong>", "<kbd>Ctrl</kbd> <kbd>C</kbd>", "<em>a</em>\n<strong>b</strong>",
                 " lead <i>x</i> <b>y</b> ", "w <span>s</span>  <span>t</span> z", "<b>x</b> ", " <b>x</b>",
                 "<em>a</em> <em>b</em> <em>c</em>", "*m* <kbd>K</kbd> <kbd>L</kbd> **n**", "<i>a</i>\t<i>b</i>"]


def upper_some(rng, name):
    return "".join(c.upper() if rng.random() < 0.5 else c for c in name)


def gen_admonition(rng):
    cls = rng.choice(CLS_YES) if rng.random() < 0.8 else rng.choice(CLS_NO)
    attrs = [("class", cls)]
    if rng.random() < 0.4:
        attrs.append(("name", rand_value(rng)))
    if rng.random() < 0.2:
        attrs.append(("id", "i1"))
    rng.shuffle(attrs)
    inner = []
    if rng.random() < 0.6:
        tn = rng.choice(["p", "div", "span"])
        tc = rng.choice(["title", "admonition-title", "x title", "other"])
        inner.append('<%s class="%s">%s</%s>' % (tn, tc, rng.choice(["T", "A *title*", "<b>x</b> y", ""]), tn))
    for _ in range(rng.randint(0, 3)):
        inner.append(rng.choice(["<p>para **b**</p>", "text line", "<p>a<i>b</i></p>", "  <div class=\"admonition tip\">\n  <p>n</p>\n  </div>",
                                 "<input disabled>", "<!-- c -->", "&amp; &#65;", "<p></p>", "<img src=\"i.png\">", " ",
                                 "<p>%s</p>" % rng.choice(INLINE_BODIES), "<p>%s</p>" % rng.choice(INLINE_BODIES)]))
    close = rng.choice(["</div>", "</div>", ""])
    tag = "div" if rng.random() < 0.85 else (upper_some(rng, "div") if rng.random() < 0.5 else rng.choice(DIV_LIKE))
    if close:
        close = "</%s>" % tag
    return "<" + tag + "".join(" " + attr_html(k, v) for k, v in attrs) + ">\n" + "\n".join(inner) + ("\n" if inner else "") + close


GFM_SMALL = "</script> "


def gen_gfm_text(rng):
    parts = []
    for _ in range(rng.randint(1, 8)):
        r = rng.random()
        if r < 0.5:
            t = rng.choice(TAGS)
            t = "".join(rng.choice([c, c.upper(), c]) for c in t)
            if rng.random() < 0.15:
                t = t.replace("s", "ſ").replace("i", rng.choice(["ı", "İ", "i"]))
            if rng.random() < 0.1:
                t = t[:-1]
            parts.append("<" + rng.choice(["", "/", "//", " "]) + t + rng.choice(list(LOOK) + ["", "x", ">", "\x0b", "="]))
        elif r < 0.7:
            parts.append(rng.choice(["<div>", "</p>", "<scriptx>", "&lt;script>", "<<script>", "text", "<", "</", "<title", "<xmp\n"]))
        else:
            parts.append("".join(rng.choice("<>/ scriptSCRIPT\n\tleya&;") for _ in range(rng.randint(1, 6))))
    return "".join(parts)


def small_strings(alpha, maxlen):
    for k in range(maxlen + 1):
        for t in itertools.product(alpha, repeat=k):
            yield "".join(t)


# ------------------------------------------------------------------ correspondence

def corr(ctx):
    if not ctx.have_runner:
        return
    rng = ctx.rng
    # (a) GFM filter: model vs the real call (both extensions off, gfm_only on)
    texts = list(small_strings(GFM_SMALL, ctx.budget(5, 6, 6)))
    texts += [gen_gfm_text(rng) for _ in range(ctx.budget(10000, 120000, 120000))]
    texts = list(dict.fromkeys(texts))
    outs = model_run_parallel(PID, ["gfm\t" + enc_str(t) for t in texts])
    for t, o in zip(texts, outs):
        ctx.corr_cases += 1
        impl, _ = call_html_to_nodes(t, False, False, True, record=False)
        model = "R|" + dec_str(o) if not o.startswith("!") else o
        changed = impl != "R|" + t
        ctx.count("gfm:" + ("filtered" if changed else "unchanged"))
        if changed:
            ctx.nontriv(("gfm", t))
        if impl != model:
            if len(ctx.disagreements) < 40:
                ctx.disagree("gfm filter", {"kind": "gfm", "text": t}, impl, model)
    ctx.sample({"gfm_text": texts[len(texts) // 2]})
    # (b) option_line
    vals = [None] + list(small_strings(VAL_ALPHA, ctx.budget(2, 3, 3)))
    vals += [rand_value(rng) for _ in range(ctx.budget(8000, 100000, 100000))]
    vals = list(dict.fromkeys(vals))
    outs = model_run_parallel(PID, ["optline\t%s\t%s" % (enc_str("alt"), enc_ostr(v)) for v in vals])
    for v, o in zip(vals, outs):
        ctx.corr_cases += 1
        impl = impl_option_line(v)
        model = dec_str(o) if not o.startswith("!") else o
        quoted = isinstance(impl, str) and impl.startswith(':alt: "') and impl.endswith('"') and len(impl) > 7
        ctx.count("optline:" + ("quoted" if quoted else "plain"))
        if quoted:
            ctx.nontriv(("opt", v))
        if impl != model:
            if len(ctx.disagreements) < 40:
                ctx.disagree("option_line", {"kind": "optline", "value": v}, impl, model)
    # (b') the option reader (sub-language model of options_to_items) vs the real tokenizer
    from myst_parser.parsers.options import TokenizeError, options_to_items
    blocks = []
    for _ in range(ctx.budget(6000, 40000, 40000)):
        extra = [(k, rand_value(rng) if rng.random() < 0.9 else None)
                 for k in rng.sample(["class", "name", "width", "height", "align"], rng.choice([0, 1, 2]))]
        content = impl_option_line(rand_value(rng) if rng.random() < 0.95 else None, extra)
        if rng.random() < 0.25:      # the (right-stripped) option block of an admonition
            obs, _ = call_html_to_nodes("<div" + "".join(" " + attr_html(k, v) for k, v in
                                                          [("class", "admonition " + (rand_value(rng) or "")), ("name", rand_value(rng) if rng.random() < 0.7 else "")])
                                        + ">\nx\n</div>", False, True, False, record=False)
            if isinstance(obs, tuple) and obs[1]:
                content = obs[1][0][2].split("\n\n")[0]
        block = "\n".join(ln[1:] for ln in content.split("\n"))
        if rng.random() < 0.35 and block:
            k = rng.randrange(len(block))
            edit = rng.choice(["del", "ins", "rep"])
            ch = rng.choice(VAL_ALPHA + ['"', "\\", "#", ":", " ", "\n", "u", "0", "x"])
            block = block[:k] + ({"del": "", "ins": ch + block[k], "rep": ch}[edit]) + block[k + 1:]
        blocks.append(block)
    blocks = list(dict.fromkeys(blocks))
    outs = model_run_parallel(PID, ["readopts\t" + enc_str(b) for b in blocks])
    for b, o in zip(blocks, outs):
        ctx.corr_cases += 1
        try:
            impl = [tuple(x) for x in options_to_items(b)[0]]
        except TokenizeError:
            impl = "!TokenizeError"
        except Exception as e:  # noqa: BLE001
            impl = "!" + type(e).__name__
        if o == "!NotModelled":
            ctx.count("reader:not-modelled")
            continue
        if o.startswith("O|"):
            model = [] if o == "O|" else [tuple(dec_str(f) for f in it.split("^")) for it in o[2:].split(";")]
        else:
            model = o
        ctx.count("reader:" + ("items" if isinstance(model, list) else "error"))
        if impl != model:
            if len(ctx.disagreements) < 40:
                ctx.disagree("option reader vs options_to_items", {"kind": "readopts", "block": b}, repr(impl), repr(model))
    ctx.oracle_tests["O_option_tokenizer"] = len(blocks)
    # (c) html_to_nodes decision logic
    cases, lines = [], []
    for i in range(ctx.budget(4000, 40000, 40000)):
        text, label = gen_block(rng)
        img, adm, gfm = rng.random() < 0.75, rng.random() < 0.75, rng.random() < 0.3
        if i % 11 == 0:
            img = adm = False
        impl, events = call_html_to_nodes(text, img, adm, gfm)
        case = {"kind": "h2n", "text": text, "img": img, "adm": adm, "gfm": gfm}
        cases.append((case, impl, label))
        lines.append("\t".join(["h2n", "1" if gfm else "0", "1" if img else "0", "1" if adm else "0", enc_str(text)]
                               + H.enc_events(events)))
    outs = model_run_parallel(PID, lines)
    for (case, impl, label), o in zip(cases, outs):
        ctx.corr_cases += 1
        model = dec_h2n(o)
        kind = impl[0] if isinstance(impl, tuple) else impl[:1]
        ctx.count("h2n:%s:%s" % (label, kind))
        if isinstance(impl, tuple):
            ctx.nontriv(("h2n", case["text"], case["img"], case["adm"], case["gfm"]))
        if impl != model:
            if len(ctx.disagreements) < 40:
                ctx.disagree("html_to_nodes", case, repr(impl)[:1500], repr(model)[:1500])
    if cases:
        ctx.sample({"html_block": cases[1][0]})
    # (d) the strip-':' step: option block handed to the tokenizer by the real _parse_directive_options
    contents = []
    for (case, impl, label) in cases:
        if isinstance(impl, tuple):
            contents += [c for (_, _, c) in impl[1] if c]
    contents = list(dict.fromkeys(contents))[: ctx.budget(3000, 20000, 20000)]
    for c in list(contents[:600]):
        k = rng.randrange(len(c))
        contents.append(c[:k] + rng.choice(["\n", "\r", "\r\n", " ", ":", "x", "\x0c", "\x85"]) + c[k:])
    outs = model_run_parallel(PID, ["extract\t" + enc_str(c) for c in contents])
    for c, o in zip(contents, outs):
        ctx.corr_cases += 1
        impl = real_option_block(c)
        model = None if o == "~" else dec_str(o.split("|")[0])
        ctx.count("extract:" + ("block" if model is not None else "none"))
        if impl != model and not c.startswith("---"):
            if len(ctx.disagreements) < 40:
                ctx.disagree("option block extraction", {"kind": "extract", "content": c}, repr(impl), repr(model))


# ------------------------------------------------------------------ direct property oracle on the implementation

RE_OCC = re.compile("</?(?:" + "|".join(TAGS) + ")[\t\n\f\r />]", re.I | re.A)


def spec_check_gfm(text, out):
    """None if `out` is `text` with some genuine tag openers neutralised and no opener left; else a message."""
    if RE_OCC.search(out):
        return "a disallowed tag can still open: %r" % RE_OCC.search(out).group(0)
    i = j = 0
    while i < len(text):
        if out[j:j + 1] == text[i]:
            i += 1
            j += 1
            continue
        if text[i] == "<" and out[j:j + 4] == "&lt;":
            k = i + 1 + (1 if text[i + 1:i + 2] == "/" else 0)
            if not any(re.fullmatch(t, text[k:k + len(t)], re.I) and text[k + len(t):k + len(t) + 1] in tuple(LOOK) for t in TAGS):
                return "a '<' that does not open a disallowed tag was changed at %d" % i
            i += 1
            j += 4
            continue
        return "text changed other than '<' -> '&lt;' at %d" % i
    if j != len(out):
        return "output has trailing extra text"
    return None


class patched_md_parser:
    """Full pipeline in GFM mode without linkify-it-py: the linkify rule is switched off after create_md_parser."""

    def __enter__(self):
        from myst_parser.parsers import docutils_ as D
        self.D = D
        self.orig = D.create_md_parser

        def make(config, renderer):
            md = self.orig(config, renderer)
            if config.gfm_only:
                try:
                    import linkify_it  # noqa: F401
                except ImportError:
                    md.disable("linkify")
                    md.options["linkify"] = False
            return md

        D.create_md_parser = make
        return self

    def __exit__(self, *a):
        self.D.create_md_parser = self.orig


def pipeline(text, img, adm, gfm=False):
    from lib.impl import publish
    ext = [e for e, on in (("html_image", img), ("html_admonition", adm)) if on]
    settings = {"myst_enable_extensions": ext, "myst_gfm_only": gfm}
    with patched_md_parser():
        return publish(text, settings)


def html_tokens(text, gfm):
    """contents of the html_block / html_inline tokens, in order (markdown-it as configured by MyST)"""
    from markdown_it.renderer import RendererHTML
    from myst_parser.config.main import MdParserConfig
    from myst_parser.parsers.mdit import create_md_parser
    md = create_md_parser(MdParserConfig(gfm_only=gfm), RendererHTML)
    if gfm:
        md.disable("linkify")
        md.options["linkify"] = False
    out = []
    for t in md.parse(text):
        if t.type == "html_block":
            out.append(t.content)
        for c in t.children or []:
            if c.type == "html_inline":
                out.append(c.content)
    return out


def yaml_dq(v):
    """independent double-quoted YAML scalar for the directive spelling"""
    out = []
    for c in v:
        if c in '"\\':
            out.append("\\" + c)
        elif c.isprintable() and c not in "\x85  ﻿":
            out.append(c)
        else:
            out.append("\\u%04X" % ord(c) if ord(c) < 0x10000 else "\\U%08X" % ord(c))
    return '"' + "".join(out) + '"'


def check_case(ctx, case):
    k = case["kind"]
    try:
        return {"gfm": check_gfm, "optline": check_optline, "h2n": check_h2n, "img": check_img, "adm": check_adm,
                "raw": check_raw, "doc": check_doc_total, "conv": check_conv}[k](ctx, case)
    except Exception as e:  # noqa: BLE001
        import traceback
        site = traceback.extract_tb(e.__traceback__)[-1]
        ctx.fail(f"exception:{type(e).__name__}:{site.name}", case, f"{type(e).__name__}: {e}")
        return False


def check_gfm(ctx, case):
    text = case["text"]
    impl, _ = call_html_to_nodes(text, case.get("img", False), case.get("adm", False), True, record=False)
    if not impl.startswith("R|"):
        if isinstance(impl, str) and impl.startswith("!"):
            ctx.fail("exception:" + impl[1:] + ":html_to_nodes", case, "html_to_nodes raised " + impl)
            return False
        return True
    msg = spec_check_gfm(text, impl[2:])
    if msg:
        ctx.fail("gfm:" + ("not-neutralised" if "still open" in msg else "other-change"), case, msg, text, impl[2:])
        return False
    return True


def check_optline(ctx, case):
    """attribute value -> option line -> real option parser gives the value back"""
    from myst_parser.parsers.options import options_to_items
    v = case["value"]
    block = impl_option_line(v, [("class", "x y")])
    lines = [ln.lstrip()[1:] for ln in block.splitlines()]
    try:
        items, _ = options_to_items("\n".join(lines))
    except Exception as e:  # noqa: BLE001
        items = "!" + type(e).__name__
    want = [("alt", v or ""), ("class", "x y")]
    if items != want:
        ctx.fail("img:option-value-not-carried", case, "the option parser does not read the attribute value back", want, items)
        return False
    return True


def check_h2n(ctx, case):
    """pass-through / conversion conditions on the direct call"""
    text, img, adm, gfm = case["text"], case["img"], case["adm"], case["gfm"]
    impl, _ = call_html_to_nodes(text, img, adm, gfm, record=False)
    if isinstance(impl, str) and impl.startswith("!"):
        ctx.fail("exception:" + impl[1:] + ":html_to_nodes", case, "html_to_nodes raised " + impl)
        return False
    ftext, _ = call_html_to_nodes(text, False, False, gfm, record=False)
    if not (img or adm):
        want = "R|" + (ftext[2:])
        if impl != want:
            ctx.fail("passthrough:extensions-off", case, "raw text differs with both extensions off", want, impl)
            return False
        if not gfm and impl != "R|" + text:
            ctx.fail("passthrough:text-altered", case, "raw node text differs from the source", text, impl)
            return False
    if isinstance(impl, str) and impl[:2] in ("R|", "W|") and impl[2:] != ftext[2:]:
        ctx.fail("passthrough:text-altered", case, "raw node text differs from the (filtered) source", ftext[2:], impl[2:])
        return False
    if isinstance(impl, tuple):
        for name, first, content in impl[1]:
            if name == "image":
                if not check_block_values(ctx, case, content):
                    return False
    return True


def conv_text(case):
    """the HTML block of a structured `conv` case: a sequence of top-level elements described by (tag, class value | None)"""
    parts = []
    for e in case["elems"]:
        tag = e["tag"]
        if e["what"] == "img":
            parts.append("<%s%s src=\"a.png\"%s>" % (tag, "" if e.get("cls") is None else " " + attr_html("class", e["cls"]),
                                                   " /" if e.get("selfclose") else "")
                         + ("" if tag.lower() == "img" or e.get("selfclose") else "</%s>" % tag))
        elif e["what"] == "div":
            attrs = ([] if e.get("cls") is None else [("class", e["cls"])]) + [("name", "x")]
            if e.get("class_last"):
                attrs.reverse()
            parts.append("<%s %s>\ntext\n</%s>" % (tag, " ".join(attr_html(k, v) for k, v in attrs), tag))
        else:
            parts.append(e["text"])
    return case["sep"].join(parts)


HTML_SPACE = " \t\n\x0c\r"          # the separators of a class attribute (HTML: ASCII white space)


def class_tokens(value):
    out, cur = [], ""
    for ch in value:
        if ch in HTML_SPACE:
            if cur:
                out.append(cur)
            cur = ""
        else:
            cur += ch
    return out + ([cur] if cur else [])


def check_conv(ctx, case):
    """Only <img> (html_image on) and <div> with the class *token* `admonition` (html_admonition on) are convertible; a
    block is converted only if every top-level element is; anything else is one raw node holding exactly the source."""
    text, img, adm = conv_text(case), case["img"], case["adm"]

    def convertible(e):
        name = e["tag"].lower()                          # HTML element names are ASCII case-insensitive
        if e["what"] == "img":
            return img and name == "img"
        if e["what"] == "div":
            return adm and name == "div" and e.get("cls") is not None and "admonition" in class_tokens(e["cls"])
        return False

    want_conv = all(convertible(e) for e in case["elems"])
    # two-step history: earlier fragments of the same process (they may leave a tokenizer in a non-initial state)
    for t in case.get("before", []):
        call_html_to_nodes(t, img, adm, False, record=False, real_tok=True)
    impl, _ = call_html_to_nodes(text, img, adm, False, record=False, real_tok="before" in case)
    if isinstance(impl, str) and impl.startswith("!"):
        ctx.fail("exception:" + impl[1:] + ":html_to_nodes", {**case, "text": text}, "html_to_nodes raised " + impl)
        return False
    if not want_conv:
        if impl != "R|" + text:
            bad = next(e for e in case["elems"] if not convertible(e))
            ctx.fail("passthrough:not-convertible:" + bad["what"], {**case, "text": text},
                     "a block with a top-level element that is not <img> / <div class=admonition> was not passed through verbatim "
                     f"(element {bad['tag']!r} class {bad.get('cls')!r})", "R|" + text, repr(impl)[:600])
            return False
        return True
    names = ["image" if e["what"] == "img" else "admonition" for e in case["elems"]]
    if not (isinstance(impl, tuple) and [d[0] for d in impl[1]] == names):
        ctx.fail("convert:convertible-left-unconverted", {**case, "text": text},
                 "a block of <img> / <div class=admonition> elements was not converted to the directives", names, repr(impl)[:600])
        return False
    return True


def gen_conv(rng):
    elems = []
    for _ in range(rng.choice([1, 1, 1, 2, 3])):
        r = rng.random()
        if r < 0.55:
            yes = rng.random() < 0.5
            tag = "div" if rng.random() < 0.7 else (upper_some(rng, "div") if rng.random() < 0.6 else rng.choice(DIV_LIKE))
            cls = rng.choice(CLS_YES if yes else CLS_NO) if rng.random() < 0.93 else None
            elems.append({"what": "div", "tag": tag, "cls": cls, "class_last": rng.random() < 0.3})
        elif r < 0.9:
            tag = "img" if rng.random() < 0.6 else (upper_some(rng, "img") if rng.random() < 0.6 else rng.choice(IMG_LIKE))
            elems.append({"what": "img", "tag": tag, "cls": rng.choice([None, None, "admonition", "a"]), "selfclose": rng.random() < 0.2})
        else:
            elems.append({"what": "other", "tag": "", "text": rng.choice(["text", "<span>x</span>", "<!-- c -->", "&amp;"])})
    return {"kind": "conv", "elems": elems, "sep": rng.choice(["\n", "\n", "", " ", "\n \n"]),
            "img": rng.random() < 0.75, "adm": rng.random() < 0.8}


def check_block_values(ctx, case, content):
    """every option of a generated block is read back by the real option parser as some attribute value of the text"""
    from myst_parser.parsers.options import options_to_items
    lines = content.splitlines()
    if not all(ln.startswith(":") for ln in lines):
        ctx.fail("img:option-line-broken", case, "an option line was split by a character of the value", None, content)
        return False
    try:
        items, _ = options_to_items("\n".join(ln[1:] for ln in lines))
    except Exception as e:  # noqa: BLE001
        ctx.fail("img:option-block-rejected", case, f"option block rejected: {e!r}", None, content)
        return False
    return True


# Markdown that hands the HTML tokenizer a fragment ending in a non-initial state (CDATA content mode after <script> / <style>,
# inside a start tag, inside a comment / declaration / processing instruction), and harmless controls.  None of them
# contains an <img> or an admonition, so a later fragment must convert exactly as when it is parsed alone.
DIRTY_MD = ["Use the <style> element for that.", "An inline <script> tag is mentioned here.", "> <script>\n> var a = 1;",
            "> <style>\n> p { color: red }", "- <section", "- item\n\n  <div class=\"x", "a <b c=\"d", "1. <table",
            "text <script>x", "plain *text*", "<span>x</span> inline", "> quote", "`<style>` in code"]
# whole earlier documents / fragments (may swallow the rest of their document)
DIRTY_DOC = DIRTY_MD + ["<style>\np {}", "<!-- open comment", "<?pi open", "<![CDATA[ open", "<!DOCTYPE html", "<script>\nvar a = '<img src=\"x\">'",
                        "x &amp", "<a href='q", "</di"]
DIRTY_FRAGMENT = ["<style>", "<script>", "<script>var a = 1;", "<style>p {", "<section", "<div class=\"x", "<a href='", "<!-- open",
                  "<![CDATA[ open", "<?pi", "</di", "x &", "&#12", "<", "<span>ok</span>", "text", "<script>x</script>"]


def run_history(case):
    """earlier documents of the same process"""
    for t in case.get("before", []):
        try:
            pipeline(t + "\n", True, True)
        except Exception:  # noqa: BLE001
            pass


def same_doc_prefix(case):
    p = case.get("prefix", "")
    return p + "\n\n" if p else ""


def image_attrs(doc):
    from docutils import nodes
    out = []
    for n in doc.findall(nodes.image):
        d = {k: v for k, v in n.attributes.items() if v not in ([], None, "")}
        out.append(sorted((k, repr(v)) for k, v in d.items()))
    return out


def check_img(ctx, case):
    """<img ...> document vs the {image} directive document: same image node attributes"""
    attrs = [tuple(a) for a in case["attrs"]]
    src = dict(attrs)["src"]
    run_history(case)
    doc_a, ws_a = pipeline(same_doc_prefix(case) + img_html(attrs) + "\n", True, case.get("adm", False))
    keys = ["align", "alt", "class", "height", "name", "width"]
    opts = [(k, v) for k, v in sorted(dict(attrs).items()) if k in keys]
    text_b = "```{image} %s\n" % src + "".join(":%s: %s\n" % (k, yaml_dq(v or "")) for k, v in opts) + "```\n"
    doc_b, ws_b = pipeline(text_b, True, False)
    from lib.impl import parse_warnings
    wa = sorted((w["tag"] or "", re.sub(r"\d+", "N", w["msg"])[:60]) for w in parse_warnings(ws_a))
    wb = sorted((w["tag"] or "", re.sub(r"\d+", "N", w["msg"])[:60]) for w in parse_warnings(ws_b))
    if wa != wb and not (case.get("before") or case.get("prefix")):
        ctx.fail("img:warnings-differ-from-directive", case, "<img> and the equivalent {image} directive give different warnings",
                 wb, wa)
        return False
    a, b = image_attrs(doc_a), image_attrs(doc_b)
    if a != b or len(a) != 1:
        bad = [k for k, v in opts if dict(a[0] if a else []).get(k) != dict(b[0] if b else []).get(k)] if a and b else ["?"]
        ctx.fail(("history:" if case.get("before") or case.get("prefix") else "") + "img:differs-from-directive:" + (bad[0] if bad else "node"), case,
                 "<img> gives other image attributes than the equivalent {image} directive", b, a)
        return False
    return True


def adm_nodes(doc):
    from docutils import nodes
    return [n.pformat() for n in doc.findall(nodes.admonition) if not isinstance(n.parent, nodes.admonition)]


def check_adm(ctx, case):
    title, cls, name, paras, tail = case["title"], case["cls"], case["name"], case["paras"], case["tail"]
    attrs = [("class", cls)] + ([("name", name)] if name is not None else [])
    a_text = "<div" + "".join(" " + attr_html(k, v) for k, v in attrs) + ">\n"
    # the title element: <p> or <div> whose classes contain "title" (docs/syntax/optional.md) or "admonition-title" (the class
    # docutils / Sphinx give the title in their own HTML output); leading white space of the body is not significant
    ttag, tcls = case.get("ttag", "p"), case.get("tcls", "title")
    indent = case.get("indent", "") if not paras else ""
    if title is not None:
        a_text += '<%s class="%s">%s</%s>\n' % (ttag, tcls, title, ttag)
    a_text += "".join("<p>%s</p>\n" % p for p in paras) + (indent + tail + "\n" if tail else "") + "</div>\n"
    body = "\n\n".join(paras + ([tail] if tail else []))
    b_text = "~~~{admonition} %s\n:class: %s\n" % (title if title is not None else "Note", yaml_dq(cls))
    if name is not None:
        b_text += ":name: %s\n" % yaml_dq(name)
    b_text += "\n" + body + "\n~~~\n"
    run_history(case)
    doc_a, _ = pipeline(same_doc_prefix(case) + a_text, case.get("img", False), True)
    doc_b, _ = pipeline(b_text, False, True)
    a, b = adm_nodes(doc_a), adm_nodes(doc_b)
    if a != b or len(a) != 1:
        ctx.fail(("history:" if case.get("before") or case.get("prefix") else "") + "adm:differs-from-directive", case, "<div class=admonition> differs from the equivalent {admonition} directive",
                 b, a)
        return False
    return True


def check_doc_total(ctx, case):
    """the whole parse does not raise on a document holding the HTML, whichever extensions are on"""
    for img in (False, True):
        for adm in (False, True):
            try:
                pipeline(case["text"], img, adm, case.get("gfm", False))
            except Exception as e:  # noqa: BLE001
                import traceback
                site = traceback.extract_tb(e.__traceback__)[-1].name
                ctx.fail(f"exception:{type(e).__name__}:{site}", {**case, "img": img, "adm": adm},
                         f"parsing raised {type(e).__name__}: {e}")
                return False
    return True


def check_raw(ctx, case):
    """a document whose HTML is not of a convertible form: raw node texts = html token contents, all four combinations"""
    from docutils import nodes
    text, gfm = case["text"], case.get("gfm", False)
    toks = html_tokens(text, gfm)
    for img in (False, True):
        for adm in (False, True):
            doc, _ = pipeline(text, img, adm, gfm)
            # document order can differ from token order (a lone heading becomes the document title):
            # compare as multisets, pairing by the text with every "&lt;" read as "<"
            key = lambda x: x.replace("&lt;", "<")  # noqa: E731
            raws = sorted((n.astext() for n in doc.findall(nodes.raw)), key=key)
            toks = sorted(toks, key=key)
            if gfm:
                for t, r in zip(toks, raws):
                    msg = spec_check_gfm(t, r)
                    if msg:
                        ctx.fail("gfm:" + ("not-neutralised" if "still open" in msg else "other-change"),
                                 {**case, "img": img, "adm": adm}, msg, t, r)
                        return False
                if len(toks) != len(raws):
                    ctx.fail("passthrough:count", {**case, "img": img, "adm": adm}, "number of raw nodes differs", toks, raws)
                    return False
            elif raws != toks:
                ctx.fail("passthrough:text-altered", {**case, "img": img, "adm": adm},
                         "raw node texts differ from the html token contents", toks, raws)
                return False
    return True


def gen_plain_doc(rng):
    """Markdown document whose HTML parts are not convertible forms (no <img, no admonition)."""
    blocks = []
    for _ in range(rng.randint(1, 4)):
        r = rng.random()
        if r < 0.35:
            blocks.append(rng.choice(["<div class=\"x\">\n<span>a *b*</span>\n</div>", "<p>text</p>", "<table>\n<tr><td>1</td></tr>\n</table>",
                                      "<!-- comment -->", "<div>\n</div>", "<hr>", "<details open>\n<summary>s</summary>\nx\n</details>",
                                      "<script>\nlet a = 1 < 2;\n</script>", "<style>p {}</style>", "<?php echo 1 ?>",
                                      "<DIV CLASS='q'>Q</DIV>", "<div class>\nv\n</div>", "<textarea>\nt\n</textarea>",
                                      "<iframe src=\"x\"></iframe>", "<title>T</title>"]))
        elif r < 0.6:
            blocks.append("para with <b>inline</b> html, <span class=\"k\">s</span> and <br> and <!-- c --> " +
                          rng.choice(["", "<xmp>", "<script >x</script>", "</title>", "<a href=\"u\">l</a>"]))
        elif r < 0.8:
            blocks.append(H.print_doc(H.gen_wf(rng)).replace("\n\n", "\n").replace("img", "im").replace("admonition", "adm") or "x")
        else:
            blocks.append(rng.choice(["plain *markdown*", "# heading", "- item <i>x</i>", "> quote <b>q</b>"]))
    return "\n\n".join(blocks) + "\n"


SEED_CASES = [
    {"kind": "doc", "text": "<img src>\n"},
    {"kind": "doc", "text": "<div class>\nx\n</div>\n"},
    {"kind": "h2n", "text": "<img src>", "img": True, "adm": False, "gfm": False},
    {"kind": "h2n", "text": "<div class>x</div>", "img": False, "adm": True, "gfm": False},
    {"kind": "img", "attrs": [["src", "a.png"], ["alt", "a #b"]]},
    {"kind": "img", "attrs": [["src", "a.png"], ["alt", "\"q\""]]},
    {"kind": "img", "attrs": [["src", "a.png"], ["alt", "| x"]]},
    {"kind": "img", "attrs": [["src", "a.png"], ["alt", "a\nb"], ["class", "x"]]},
    {"kind": "img", "attrs": [["src", "a.png"], ["alt", None]]},
    {"kind": "optline", "value": "a #b"},
    {"kind": "adm", "title": "A *t*", "cls": "admonition tip", "name": "n #1", "paras": ["para **b**"], "tail": "rest"},
    {"kind": "adm", "title": None, "cls": "admonition", "name": None, "paras": ["<em>a</em> <strong>b</strong>"], "tail": ""},
    {"kind": "conv", "elems": [{"what": "div", "tag": "div", "cls": "note admonition-title"}], "sep": "\n", "img": True, "adm": True},
    {"kind": "conv", "elems": [{"what": "img", "tag": "imgx", "cls": None}], "sep": "\n", "img": True, "adm": True},
    {"kind": "conv", "elems": [{"what": "img", "tag": "img", "cls": None}], "sep": "\n", "img": True, "adm": True, "before": ["<style>"]},
    {"kind": "img", "attrs": [["src", "a.png"], ["alt", "x"]], "prefix": "Use the <style> element for that."},
    {"kind": "adm", "title": "T", "cls": "admonition", "name": None, "paras": ["para **b**"], "tail": "", "before": ["- <section"]},
    {"kind": "adm", "title": "T", "cls": "admonition", "name": None, "paras": [], "tail": "only line", "ttag": "div",
     "tcls": "admonition-title", "indent": "    "},
    {"kind": "raw", "text": "<div class=\"admonition\">\n<input disabled>\n</div>\n<span>x</span>\n"},
]


def search(ctx):
    rng = ctx.rng
    for c in SEED_CASES + [s for s in ctx.suspects[:200] if s]:
        ctx.search_cases += 1
        check_case(ctx, c)
    fails = [0]

    def run(case):
        ctx.search_cases += 1
        if not check_case(ctx, case):
            fails[0] += 1
        return fails[0] > 40

    for t in small_strings(GFM_SMALL, ctx.budget(4, 5, 5)):
        if run({"kind": "gfm", "text": t}):
            return
    for _ in range(ctx.budget(5000, 60000, 60000)):
        if run({"kind": "gfm", "text": gen_gfm_text(rng), "img": rng.random() < 0.3, "adm": rng.random() < 0.3}):
            return
    for v in [None] + list(small_strings(VAL_ALPHA, ctx.budget(2, 3, 3))):
        if run({"kind": "optline", "value": v}):
            return
    for _ in range(ctx.budget(5000, 60000, 60000)):
        if run({"kind": "optline", "value": rand_value(rng)}):
            return
    for _ in range(ctx.budget(3000, 30000, 30000)):
        text, _ = gen_block(rng)
        if run({"kind": "h2n", "text": text, "img": rng.random() < 0.7, "adm": rng.random() < 0.7, "gfm": rng.random() < 0.3}):
            return
    for _ in range(ctx.budget(2500, 12000, 12000)):
        if run(gen_conv(rng)):
            return
    # full pipeline (docutils front end)
    for i in range(ctx.budget(150, 1500, 1500)):
        attrs = [a for a in gen_img(rng, full_pipeline=True) if a[1] is not None or a[0] != "src"]
        if "src" not in dict(attrs):
            attrs.append(("src", "a.png"))
        if run({"kind": "img", "attrs": [list(a) for a in attrs], "adm": rng.random() < 0.5}):
            return
    for i in range(ctx.budget(100, 1000, 1000)):
        case = {"kind": "adm", "title": rng.choice([None, "T", "A *title* here", "x `c`"]),
                "cls": rng.choice(["admonition", "admonition tip", "admonition a-b"]),
                "name": rng.choice([None, "n1", "a #b", "x: y", "'q'", "| p"]),
                "paras": [rng.choice(["para **b**", "one *two*", "a `c` d"] + INLINE_BODIES) for _ in range(rng.randint(0, 2))],
                "tail": rng.choice(["", "rest of it", "tail *t*"]), "img": rng.random() < 0.5,
                "ttag": rng.choice(["p", "div"]), "tcls": rng.choice(["title", "title", "x title", "admonition-title"]),
                "indent": rng.choice(["", "", "  ", "    ", "\t"])}
        if not case["paras"] and not case["tail"]:
            case["tail"] = "only line"          # an admonition without body is an error on both sides
        if run(case):
            return
    # two-step histories: an earlier fragment (same document / earlier document / earlier direct call) must not change how a
    # later <img> / admonition converts
    for i in range(ctx.budget(1500, 8000, 8000)):
        case = gen_conv(rng)
        case["before"] = [rng.choice(DIRTY_FRAGMENT) for _ in range(rng.choice([1, 1, 2]))]
        if run(case):
            return
    for i in range(ctx.budget(120, 600, 600)):
        hist = {"prefix": rng.choice(DIRTY_MD)} if i % 2 == 0 else {"before": [rng.choice(DIRTY_DOC) for _ in range(rng.choice([1, 2]))]}
        if i % 4 < 2:
            case = {"kind": "img", "attrs": [["src", rng.choice(["a.png", "img/b.jpg"])]] + rng.choice([[], [["alt", "an *alt*"]], [["width", "30%"], ["class", "a b"]]]),
                    "adm": rng.random() < 0.5, **hist}
        else:
            case = {"kind": "adm", "title": rng.choice([None, "T", "A *title* here"]), "cls": rng.choice(["admonition", "admonition tip"]),
                    "name": rng.choice([None, "n1"]), "paras": [rng.choice(["para **b**", "<em>a</em> <strong>b</strong>"])],
                    "tail": rng.choice(["", "rest of it"]), "img": rng.random() < 0.5, **hist}
        if run(case):
            return
    for i in range(ctx.budget(100, 800, 800)):
        if run({"kind": "raw", "text": gen_plain_doc(rng), "gfm": i % 3 == 0}):
            return
    for i in range(ctx.budget(150, 1500, 1500)):
        text = gen_block(rng)[0].replace("\x00", "").replace("\r", "")
        if run({"kind": "doc", "text": text + "\n", "gfm": i % 4 == 0}):
            return


def replay(ctx, data):
    w = data.get("witness")
    if not w:
        print("replay file names no concrete input:", data.get("no_longer_checks"))
        return 1
    ok = check_case(ctx, w)
    print("replay:", "property holds on this input" if ok else ctx.failures[-1])
    return 0 if ok else 1


LEVEL_TEXT = ("Proof (Coq, 17 theorems): html_to_nodes returns exactly one raw node with the (GFM-filtered) input whenever no "
              "extension is on, the stripped tree is empty or some top-level element is not img / div.admonition, never takes the "
              "parse-failure branch (C17_passthrough) and never lets an exception escape (C17_no_escape); the character-level model "
              "of RE_FLOW.subn leaves no '<' or '</' followed ASCII-case-insensitively by a disallowed tag name and a delimiter, "
              "changes nothing but such '<' into '&lt;', is undone by un-filtering, and its case folding is pinned letter by letter "
              "(C17_gfm_filter_neutralises, C17_gfm_unfilter, C17_gfm_casefold); an <img> hands ('image', src, one option line per "
              "recognised attribute) to run_directive and a <div class=admonition> hands the title / option lines / flattened body "
              "of the Markdown spelling (C17_img_equiv, C17_admonition_directive, C17_admonition_equiv, C17_option_keys); the "
              "strip-':' step yields the YAML block (C17_option_block_extracted) and the modelled option reader returns every "
              "attribute value unchanged (C17_option_values_carried; C17_unquoted_value_refuted for the pre-fix code). Regex "
              "structure, key sets and f-string templates are regenerated from html_to_nodes.py on every run. Source-translation "
              "tie: option_line, default_html and html_to_nodes (decision chain, per-child loop body with the img / admonition "
              "construction, on top of the regenerated parse_html code) are regenerated statement by statement into "
              "coq/Gen/HtmlNodesSrc.v; C17_option_line_src, C17_passthrough_src, C17_img_equiv_src and "
              "C17_admonition_directive_src hold of the regenerated code. rstrip() of an option block whose last value is empty is "
              "proved to keep every value readable (C17_admonition_options_carried). The hand-written model is additionally tied "
              "by differential correspondence with the real html.parser events.")
LEVEL_NOTE = ("Trusted: Coq kernel; hand transcription of html_to_nodes into coq/Html/HtmlToNodes.v (correspondence); html.parser, "
              "markdown-it and the docutils directive classes as oracles; equality of the resulting docutils nodes with those of "
              "the directive spelling is checked by the metamorphic search on the implementation, not proved (the directive "
              "classes are not modelled); gen/pysrc.py + gen/c17_src.py and the domain mapping coq/Html/NodesPrims.v (docutils node "
              "constructors, renderer flags, regex calls as the regenerated table-driven functions) are trusted; the _src theorems "
              "for img / admonition are per loop iteration on any well-formed store (the loop itself - threading of the store, appending "
              "to nodes_list, the early return - is regenerated and exercised by correspondence, but no theorem composes the "
              "iterations; C17_passthrough_src is about the whole regenerated function); tokenize_src starts from the regenerated "
              "Tree.__init__ / clear. Search: histories (earlier fragments / documents leaving the tokenizer in a non-initial state) "
              "and near-miss class / element names are generated since rounds 4-5.")
