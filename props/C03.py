"""C03 - every produced document is a well-formed docutils tree."""
import hashlib

PID = "C03"
RULE = ("correspondence: the extracted Coq renderer + modelled transforms (SortFootnotes, docutils Footnotes, "
        "UnreferencedFootnotesDetector, CollectFootnotes, ResolveAnchorIds) vs the implementation on the same real token "
        "trees, observed directly after parsing and after those transforms (tree, ids/names/dupnames, refids, backrefs, "
        "warnings), all modes, both renderers, documents from the C02 grammar and from the C03 stress generator (ragged "
        "tables, hr in containers, duplicate ids, footnotes, missing anchors); search: an independent Python walker over "
        "the real doctree checking every clause after parsing and after the FULL docutils / Sphinx pipeline; non-trivial = "
        "distinct document with at least four nodes")
TRUSTED = [
    "coq/Doc/Render.v, Registry.v, Transforms.v are hand transcriptions of base.py / sphinx_.py / transforms.py and of the "
    "docutils registry functions and Footnotes transform (correspondence-checked, not proved)",
    "parent pointers are not a field of the model: docutils' append/extend/insert/replace set them (checked on the "
    "implementation by the search walker: child.parent is p)",
    "the well-formedness predicates in coq/Doc/WF.v say what the clauses mean",
    "gen/c02_pysrc.py (source-translation tie): the mapping of Python statements of the straight-line render methods to "
    "instructions of coq/Doc/Prog.v - nodes.CLS(..) = allocation (new_text_elem for a TextElement with text), node[key]=v / "
    "constructor keywords = the initial attribute dict in source order, copy_attributes / create_warning / set_refuri = the "
    "registry operations, `with current_node_context(node, append=True)` = Ctx, current_node.append = Append; "
    "add_line_and_source_path is dropped (line / source are not modelled); tests on state outside the model "
    "(relative-images, links_external_new_tab, url conversion) are constant false under the static configuration; a branch "
    "outside the model guarded by a token-only test and attribute keys with a converter are hoisted to an ENotModelled guard; "
    "heading, table, clean_astext, current_node_context and the two dispatch loops are pinned by the hash of their normalised "
    "source (gen/c02_pysrc_pins.json): an edit there is reported as a broken tie",
]
ORACLES = {
    "O_table_shape": "markdown-it pads/truncates table body rows to the header length (checked on every token tree of "
                     "the correspondence, incl. a ragged-table generator)",
    "O_registry / O_footnotes_xform": "docutils set_id / set_name_id_map / set_duplicate_name_id / Footnotes transform behave as "
                                      "modelled (Registry.v, Transforms.v): exercised by the correspondence after transforms",
    "O_make_id etc.": "library functions answered by the real functions (see C02)",
}
ASSUMPTIONS = ["the model covers the static syntax subset; directive bodies, eval-rst, roles are covered by the search oracle only",
               "after-transforms correspondence applies exactly the modelled transforms to the parsed document; the FULL "
               "pipeline (DocTitle, PropagateTargets, Transitions, Sphinx post-transforms ...) is checked by the search"]


def gen(ctx):
    from gen import c02_render
    from gen import c02_pysrc
    c02_render.run(ctx)
    c02_pysrc.run(ctx)      # Gen/RenderSrc.v: the straight-line render methods, statement by statement (round 3)


def _h(s):
    return hashlib.sha256(s.encode("utf8", "surrogatepass")).hexdigest()[:12]


# documents whose target names differ from the ids docutils derives from them (refid must be the id, not the name),
# footnotes in every state (referenced / unreferenced / numbered / named / sorted or not)
EXTRA_DOCS = [
    "(My Target)=\n\n# Some Heading\n\n[x](#my%20target) [y](#My%20Target) [z](#some-heading) [](#my%20target)\n",
    "(a.b c)=\npara\n\n[x](#a.b%20c) [](#a.b%20c) [n](#nope)\n\nTerm X\n: def\n\n(t2)=\nTerm Y\n: def\n\n[](#t2)\n",
    "[^b] [^a] [^2] [^1] [^zz]\n\n[^a]: A\n[^b]: B\n[^1]: one\n[^2]: two\n[^c]: unreferenced\n",
    "> [^q]\n\n- item [^q]\n\n[^q]: > quoted\n\n    - list in note\n\n{#X_y}\n> (In Quote)=\n> [l](#in%20quote) [m](#x-y) [k](#X_y)\n",
    ":field one: [v](#f%20two)\n\n(f two)=\n:other: body\n",
]


def corr_cases(ctx):
    from gen import c02_docgen as G
    from gen import c02_lib as L
    from gen import c03_search as S
    rng = ctx.rng
    for text in G.SEED_DOCS:
        yield "seed", {"text": text, "mode": "myst", "exts": list(L.STATIC_EXTS), "backend": "docutils"}
        yield "seed", {"text": text, "mode": "myst", "exts": list(L.STATIC_EXTS), "backend": "sphinx"}
    for text in EXTRA_DOCS:
        for backend in ("docutils", "sphinx"):
            for kw in ({}, {"footnote_sort": False}):
                yield "extra", {"text": text, "mode": "myst", "exts": list(L.STATIC_EXTS), "backend": backend, "kw": kw}
    for w in S.FIXED_WITNESSES:
        c = S.normalise_case(dict(w))
        yield "witness", {"text": c["text"], "mode": c["mode"], "exts": list(c["exts"]), "backend": c["backend"],
                          "kw": dict(c.get("kw") or {})}
    dyn_exts = list(L.STATIC_EXTS) + list(G.DYN_EXTS)
    for text in G.SEED_DYNAMIC:
        for backend in ("docutils", "sphinx"):
            yield "dyn-seed", {"text": text, "mode": "myst", "exts": dyn_exts, "backend": backend}
    # every directive that reaches a node-building method of MyST's mocks (MockState.block_quote, nest_line_block_lines,
    # build_table, inline_text, parse_target, nested_parse ...), with structured bodies (round 3)
    for b in G.DIRECTIVE_BLOCKS + G.COLON_BLOCKS:
        for backend in ("docutils", "sphinx"):
            yield "dyn-seed", {"text": "para\n\n" + b + "\n\nafter\n", "mode": "myst", "exts": dyn_exts, "backend": backend}
    for w in S.ALL_WITNESSES[len(S.FIXED_WITNESSES):]:
        c = S.normalise_case(dict(w))
        yield "dyn-struct", {"text": c["text"], "mode": c["mode"],
                             "exts": [e for e in c["exts"] if e in L.STATIC_EXTS or e in G.DYN_EXTS],
                             "backend": c["backend"], "kw": dict(c.get("kw") or {})}
    for i in range(ctx.budget(250, 2000, 2000)):
        exts = [e for e in L.STATIC_EXTS if rng.random() < 0.6] + [e for e in G.DYN_EXTS if rng.random() < 0.8]
        backend = "sphinx" if rng.random() < 0.4 else "docutils"
        yield "dyn", {"text": G.gen_dynamic_doc(rng, "myst", exts), "mode": "myst", "exts": exts, "backend": backend, "kw": {}}
    n = ctx.budget(700, 6000, 6000)
    depth = 6 if ctx.tier == "quick" and not ctx.deep else 10
    for i in range(n):
        if i % 2 == 0:
            c = S.normalise_case(S.gen_case(rng, ctx.tier, i))
            exts = [e for e in c["exts"] if e in L.STATIC_EXTS or e in G.DYN_EXTS]
            yield "stress", {"text": c["text"], "mode": c["mode"], "exts": exts, "backend": c["backend"],
                             "kw": dict(c.get("kw") or {})}
        else:
            mode = rng.choice(["myst", "myst", "myst", "gfm", "commonmark"])
            exts = [e for e in L.STATIC_EXTS if rng.random() < 0.7] if mode == "myst" else []
            backend = "sphinx" if rng.random() < 0.4 else "docutils"
            text = G.gen_doc(rng, max_depth=rng.randint(2, depth), size=rng.randint(1, 12), mode=mode, exts=exts)
            kw = {}
            r = rng.random()
            if r < 0.15:
                kw["footnote_sort"] = False
            elif r < 0.25:
                kw["footnote_transition"] = False
            yield "gen", {"text": text, "mode": mode, "exts": exts, "backend": backend, "kw": kw}


def corr(ctx):
    from gen import c02_model as M
    if not ctx.have_runner:
        return
    batch, labels, seen = [], [], set()
    for label, case in corr_cases(ctx):
        if not M.static_config(case):
            ctx.count("corr:config-outside-model")
            continue
        key = (case["text"], case["mode"], tuple(case["exts"]), case["backend"], tuple(sorted((case.get("kw") or {}).items())))
        if key in seen:
            continue
        seen.add(key)
        batch.append(case)
        labels.append(label)
    n_notmodelled = 0
    for stage in ("parse", "xform"):
        res = M.correspond(PID, batch, stage)
        for label, case, r in zip(labels, batch, res):
            ctx.corr_cases += 1
            st = r["status"]
            ctx.count("corr:%s:%s:%s" % (stage, label, st))
            if st == "agree":
                if r.get("nodes", 0) > 3:
                    ctx.nontriv(_h(case["text"] + stage))
            elif st == "notmodelled":
                n_notmodelled += 1
            elif st == "impl-exception":
                ctx.suspects.append(dict(case, stage="full"))
            else:
                if len(ctx.disagreements) < 40:
                    ctx.disagree(stage + ": " + r.get("what", st) + " at " + str(r.get("at", "")), dict(case, stage=stage),
                                 r.get("impl"), r.get("model"))
                else:
                    ctx.disagreements.append({"what": "more", "case": None, "impl": None, "model": None})
            for k, v in (r.get("oracle_tests") or {}).items():
                if k.startswith("O_table_shape"):
                    ctx.count("oracle:" + k, v)
                    if k.endswith("VIOLATED") and len(ctx.disagreements) < 40:
                        ctx.disagree("O_table_shape", dict(case, stage=stage), "ragged token rows", "rows = header length")
    # the statements of C03_sections_ok / C03_rows_match_cols evaluated on the model's documents
    for case, r in zip(batch, M.statement_check(PID, batch)):
        if r is None:
            continue
        ctx.corr_cases += 1
        ctx.count("statement:sections_ok:%s" % r["sections"])
        ctx.count("statement:rows_ok:%s" % r["rows"])
        ctx.count("statement:transitions_ok:%s" % r["transitions"])
        if r["static"] and (not r["sections"] or not r["rows"]):
            ctx.disagree("C03 statement fails on the model's document", dict(case, stage="parse"), "", "sections_ok/rows_ok false")
    # round 2, measured statements on the model's documents after the modelled transforms (extracted checks of
    # coq/Doc/Backends.v): every footnote starts with its label, every refid / backrefs value names an id of the document
    # (a link reported as missing excepted), ids pairwise distinct
    for case, r in zip(batch, M.model_measure(PID, "xfchk", batch)):
        if r is None or not r["reply"].startswith("X "):
            continue
        ctx.corr_cases += 1
        lf, rr, iu = (c == "1" for c in r["reply"][2:5])
        ctx.count("measured:xform:label_first:%s" % lf)
        ctx.count("measured:xform:refids_resolve:%s" % rr)
        ctx.count("measured:xform:ids_unique:%s" % iu)
        if not lf or not rr:
            ctx.disagree("C03 statement (label first / refids resolve) fails on the model's transformed document",
                         dict(case, stage="xform"), "", r["reply"])
    # totality conjecture (static_total forests are rendered by the model)
    for case, r in zip(batch, M.model_measure(PID, "total", batch)):
        if r is None:
            continue
        ctx.corr_cases += 1
        ctx.count("measured:totality:" + r["reply"].replace(" ", "_"))
        if r["reply"] == "T 10":
            ctx.disagree("totality statement: static_total forest that the model does not render", dict(case, stage="parse"),
                         "", r["reply"])
    ctx.notes.append("correspondence: %d (case, stage) pairs outside the modelled subset (not compared)" % n_notmodelled)
    if batch:
        ctx.sample({"correspondence_case": batch[len(batch) // 3]})


def search(ctx):
    from gen import c03_search
    c03_search.search(ctx)


def replay(ctx, data):
    from gen import c03_search
    w = data.get("witness")
    if not w:
        print("replay file names no concrete input:", data.get("no_longer_checks"))
        return 1
    return c03_search.replay(ctx, data)


LEVEL_TEXT = ("Proof (Coq, all theorems closed under the global context) on the identity-labelled tree model (every node carries the "
              "allocation number of its Python object): no object is reachable twice after rendering and after the modelled transforms "
              "incl. CollectFootnotes' remove+append and ResolveAnchorIds' child move (C03_single_occurrence, dynamic syntax included: "
              "oracle nodes are renumbered); sections only under document/section and starting with a title (C03_sections_ok); rows match "
              "columns under O_table_shape (C03_rows_match_cols); transitions: refuted on the faithful model, proved when thematic breaks "
              "are top-level (C03_transitions_ok_partial); ids GLOBALLY distinct for every forest without a preset-id node, through the "
              "registry interface Api.api and the invariant IdsProofs.ids_inv (C03_ids_unique; set_id fresh: C03_ids_unique_partial), "
              "refuted for Sphinx' preset math ids; refid values resolve for the reference kinds the renderer creates - footnote "
              "references and '#anchor' links - as corollaries of the C11 / C09 models of the two transforms that write refids "
              "(C03_refids_resolve_footnotes, C03_refids_resolve_anchors, C03_refids_dangle_only_reported); a footnote starts with "
              "its label at the point where render_footnote_reference creates it - manual: label first child, auto: registered in "
              "document.autofootnotes before the node exists (C03_footnote_label_first_partial). 13 theorems: 8 full on their "
              "stated premises, 3 partial (transitions, ids set_id-fresh lemma, label first), 2 refuted. Tie: Gen/Render.v, the "
              "source translation Gen/RenderSrc.v of the straight-line render methods with C03_single_occurrence_src, and "
              "differential correspondence directly after parsing and after the modelled transforms (tree, ids, names, refids, backrefs, "
              "warnings) on every run; label-first / refids / ids are evaluated (extracted) on every transformed model document; the "
              "walker of the search checks every clause on the implementation after parsing and after the full docutils / Sphinx "
              "pipelines.")
LEVEL_NOTE = ("Trusted: Coq kernel; transcriptions of base.py/sphinx_.py/transforms.py and of docutils' registry + Footnotes transform "
              "(correspondence-checked); the C11 / C09 builders' models Refs/Foot.v, Refs/Anchors.v for the refid corollaries; parent "
              "pointers and the full transform pipelines are checked on the implementation only. Not proved on the tree model: "
              "footnote-label-first for the whole document and refid resolution after the transforms (measured on every transformed "
              "model document + search); "
              "ids after the transforms. Open findings (35 signatures): transition:inside-container, ids:duplicate:math-label+math-label, "
              "ids:duplicate:math-label+other, ids:duplicate:toc-copy, four {eval-rst} signatures, HandleCodeBlocks, "
              "refid:dangling:node-removed:DocInfo / :Contents, two docinfo-stripped, and (round 3, all inherited from docutils / "
              "Sphinx directives) refid|backref:dangling:dropped-by:directive:<name> (15), node-removed:OnlyNodeTransform (2), "
              "backref node-removed:Contents, Contents:detached-startnode, three uncaught exceptions of directives whose content "
              "parses to no node (Figure.run, container_wrapper) or is empty (ProductionList.run).")
