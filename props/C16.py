"""C16 - HTML-to-AST parser: total, tree-consistent, exact round trip on well-formed HTML,
pure strip/deepcopy, find = filter over walk."""
import itertools

from lib.common import (COQ, REPO, dec_str, enc_ostr, enc_str, enc_strs, model_run_parallel, src_hashes,
                        write_if_changed)

PID = "C16"
RULE = ("correspondence: (i) the event stream of the real html.parser, recorded by a wrapper around the HtmlToAst "
        "handlers, is fed to the extracted Tree stack machine and the result is compared with the real tree "
        "(render string, walk list with class/name/attrs/data, parent map, find results, strip/deepcopy results and "
        "the original after them) for random markup soup and for well-formed documents; (ii) O_htmlparser_events: "
        "HTMLParser.feed(print h) emits events_of h for every grammar-generated wf document (exhaustive for small "
        "trees), print/wf of the Coq spec vs an independent Python printer; search: identity-based tree consistency, "
        "exact round trip, purity of strip/deepcopy, find = filter(walk) evaluated directly on the implementation; "
        "non-trivial = tree with >= 3 elements or an end tag that does not match the open element")
TRUSTED = ["coq/Html/HtmlModel.v is a hand transcription of Tree/HtmlToAst/Element (checked by correspondence, not proved)",
           "html.parser.HTMLParser is an oracle: its event stream enters the theorems as the function `parse` with hypothesis O_htmlparser_events",
           "gen/c16_html.py translates the render() f-string templates, Attribute.__str__, void_elements and the handler->class table",
           "gen/pysrc.py + gen/c16_src.py (statement-by-statement source translation) and the domain mapping coq/Html/SrcPrims.v: "
           "objects = store ids, self.stack = t_stack, for-loops = sequential iteration in the exception monad, MutableSequence.append "
           "= insert(len(self), .), TerminalElement overrides deepcopy, the two text-matched statements of Element.find, Tree.clear restarts "
           "the ids (t_forget), render translated for tag_overrides=None, str(self.attrs) = render_attrs"]
ORACLES = {
    "O_htmlparser_events": "HTMLParser.feed(print h) emits exactly events_of h for every wf h: checked on all wf documents with "
                           "<= 3 (quick) / <= 4 (thorough) nodes over a vocabulary covering every construct, and on random large ones",
    "O_events_any": "for arbitrary text the parser emits *some* finite event list (the totality theorems quantify over every event list)",
}
ASSUMPTIONS = ["dict preserves insertion order and dict(list_of_pairs) keeps the first position / last value of a repeated key (CPython >= 3.7)",
               "objects are identified with their allocation order (the store model); garbage collection is not modelled"]

SOURCES = ["myst_parser/parsers/parse_html.py"]


def gen(ctx):
    from gen import c16_html
    text, info = c16_html.generate(REPO)
    write_if_changed(COQ / "Gen" / "Html.v", text)
    ctx.gen_info["sources"] = src_hashes(SOURCES)
    ctx.gen_info["Gen/Html.v"] = info
    from gen import c16_src
    text, info = c16_src.generate(REPO)
    write_if_changed(COQ / "Gen" / "HtmlSrc.v", text)
    ctx.gen_info["Gen/HtmlSrc.v"] = info


# ------------------------------------------------------------------ the implementation, instrumented

KINDS = ["Root", "Tag", "XTag", "VoidTag", "Data", "Declaration", "Comment", "Pi", "Char", "Entity"]


def record_events(text, name=""):
    """Run the real HtmlToAst on text, recording the handler calls (the html.parser event stream).
    Returns (root or None, events, exception name or None)."""
    from myst_parser.parsers import parse_html as P

    events = []

    class Rec(P.HtmlToAst):
        def handle_starttag(self, n, a):
            events.append(("S", n, list(a)))
            super().handle_starttag(n, a)

        def handle_startendtag(self, n, a):
            events.append(("X", n, list(a)))
            super().handle_startendtag(n, a)

        def handle_endtag(self, n):
            events.append(("E", n))
            super().handle_endtag(n)

        def handle_data(self, d):
            events.append(("D", d))
            super().handle_data(d)

        def handle_decl(self, d):
            events.append(("L", d))
            super().handle_decl(d)

        def unknown_decl(self, d):
            events.append(("U", d))
            super().unknown_decl(d)

        def handle_charref(self, d):
            events.append(("R", d))
            super().handle_charref(d)

        def handle_entityref(self, d):
            events.append(("N", d))
            super().handle_entityref(d)

        def handle_pi(self, d):
            events.append(("P", d))
            super().handle_pi(d)

        def handle_comment(self, d):
            events.append(("C", d))
            super().handle_comment(d)

    try:
        root = Rec(name).feed(text)
        return root, events, None
    except Exception as e:  # noqa: BLE001
        return None, events, type(e).__name__


def enc_attrs(attrs):
    out = [str(len(attrs))]
    for k, v in attrs:
        out += [enc_str(k), enc_ostr(v)]
    return out


def enc_events(events):
    toks = []
    for e in events:
        if e[0] in ("S", "X"):
            toks += [e[0], enc_str(e[1])] + enc_attrs(e[2])
        else:
            toks += [e[0], enc_str(e[1])]
    return toks


def obs_tree(root):
    """Observation of a real tree from `root`: render string + per walked element
    (class, name, attrs, data, index of parent in the walk or -1/-2, indices of children)."""
    elems = list(root.walk(include_self=True))
    index = {}
    for i, e in enumerate(elems):
        index.setdefault(id(e), i)
    rows = []
    for e in elems:
        p = e.parent
        pi = -1 if p is None else index.get(id(p), -2)
        rows.append((type(e).__name__, e.name, [(k, v) for k, v in e.attrs.items()], getattr(e, "data", ""), pi,
                     [index.get(id(c), -2) for c in e]))
    return {"render": root.render(), "rows": rows}


def dec_obs(reply):
    """Decode the driver's tree observation: 'render|row;row;...' (see ocaml/C16_driver.ml)."""
    render, _, rest = reply.partition("|")
    rows = []
    if rest:
        for r in rest.split(";"):
            k, n, a, d, p, ch = r.split(":")
            attrs = []
            if a != ".":
                fs = a.split("/")
                for j in range(0, len(fs), 2):
                    attrs.append((dec_str(fs[j]), None if fs[j + 1] == "~" else dec_str(fs[j + 1])))
            rows.append((KINDS[int(k)], dec_str(n), attrs, dec_str(d), int(p),
                         [] if ch == "." else [int(x) for x in ch.split(",")]))
    return {"render": dec_str(render), "rows": rows}


# ------------------------------------------------------------------ generators

NAMES = ["div", "p", "a", "br", "img", "span", "script", "hr", "b", "x-y", "style", "input"]
SOUP = ["<", ">", "</", "/>", "/", "=", '"', "'", " ", "\n", "<!--", "-->", "--", "<!", "<?", "?>", "&", "&#", ";", "#",
        "amp", "x41", "65", "text", "T", "<![CDATA[", "]]>", "<!DOCTYPE html>", "<div>", "</div>", "<p>", "</p>", "<br>",
        "<br/>", "</br>", "<img src=\"a\">", "<a b>", "<a b=c d='e' f=\"g\">", "</a>", "<script>", "</script>", "<DIV>",
        "</DIV >", "</ p>", "<span class=\"x y\">", "</span>", "<div class>", "<div class=\"admonition\">", "&amp;", "&#65;",
        "&#x41;", "&lt", "<b x=1 x=2>", "</b>", "<!-- c -->", "<?pi?>", "\t", "é", "<style>", "</style>", "<p/>", "<input disabled>", "<![", "<![foo[x]]>", "<![ ", "<![1", "<![if x]>", "<![endif]>", "]>", "[", "]", "<!x",
        "<a t=\"&quot;\">", "<a t=\"x&amp;y\">", "<a t='\"'>", "<!DOCTYPE a [", "<![temp[", "<![cdata["]


def gen_soup(rng, maxlen=12):
    n = rng.randint(0, maxlen)
    parts = []
    for _ in range(n):
        r = rng.random()
        if r < 0.75:
            parts.append(rng.choice(SOUP))
        elif r < 0.9:
            parts.append(rng.choice(NAMES))
        else:
            parts.append(chr(rng.choice([0, 9, 10, 12, 13, 32, 34, 38, 39, 47, 60, 61, 62, 65, 97, 0x85, 0xa0, 0x2028])))
    return "".join(parts)


# well-formed documents: ("e", name, attrs, children) | ("v", name, attrs) | ("s", name, attrs) | (kind, text)
VOID_PY = ["br", "img", "hr", "input"]
# the void elements of the HTML standard (https://html.spec.whatwg.org/multipage/syntax.html#void-elements plus the
# obsolete "param"), written out here so that the oracle does not depend on the code under test
VOID_STD = frozenset(["area", "base", "br", "col", "embed", "hr", "img", "input", "link", "meta", "param", "source",
                      "track", "wbr"])
CDATA_PY = ("script", "style")


def esc_attr(v):
    """serialisation of a double-quoted attribute value (written here independently of the code)"""
    return "".join({"&": "&amp;", '"': "&quot;"}.get(c, c) for c in v)


def print_attrs(attrs):
    return "".join(" " + (k if v is None else f'{k}="{esc_attr(v)}"') for k, v in attrs)


def print_html(h):
    t = h[0]
    if t == "e":
        return f"<{h[1]}{print_attrs(h[2])}>" + "".join(print_html(c) for c in h[3]) + f"</{h[1]}>"
    if t == "v":
        return f"<{h[1]}{print_attrs(h[2])}>"
    if t == "s":
        return f"<{h[1]}{print_attrs(h[2])}/>"
    return {"d": "{}", "l": "<!{}>", "c": "<!--{}-->", "p": "<?{}>", "r": "&#{};", "n": "&{};"}[t].format(h[1])


def print_doc(hs):
    return "".join(print_html(h) for h in hs)


def events_of(h):
    t = h[0]
    if t == "e":
        return [("S", h[1], list(h[2]))] + [e for c in h[3] for e in events_of(c)] + [("E", h[1])]
    if t == "v":
        return [("S", h[1], list(h[2]))]
    if t == "s":
        return [("X", h[1], list(h[2]))]
    return [({"d": "D", "l": "L", "c": "C", "p": "P", "r": "R", "n": "N"}[t], h[1])]


def is_name(s):
    return bool(s) and s[0] in "abcdefghijklmnopqrstuvwxyz" and all(c in "abcdefghijklmnopqrstuvwxyz0123456789-" for c in s)


def wf_attrs(attrs):
    ks = [k for k, _ in attrs]
    return len(set(ks)) == len(ks) and all(is_name(k) for k, _ in attrs)


def wf_siblings(hs, void, cdata):
    prev_data = False
    for h in hs:
        if not wf_html(h, void, cdata):
            return False
        if h[0] == "d" and prev_data:
            return False
        prev_data = h[0] == "d"
    return True


HEX = "0123456789abcdefABCDEF"


def wf_html(h, void, cdata):
    """Independent Python reading of 'well-formed' (mirrors coq/Html/HtmlModel.v `wf`)."""
    t = h[0]
    if t == "e":
        if not (is_name(h[1]) and h[1] not in void and wf_attrs(h[2])):
            return False
        if h[1] in cdata and not all(c[0] == "d" for c in h[3]):
            return False
        return wf_siblings(h[3], void, cdata)
    if t == "v":
        return is_name(h[1]) and h[1] in void and wf_attrs(h[2])
    if t == "s":
        return is_name(h[1]) and wf_attrs(h[2])
    s = h[1]
    if t == "d":
        return s != "" and not any(c in s for c in "<&")
    if t == "l":
        return s[:7].lower() == "doctype" and ">" not in s
    if t == "c":
        return ">" not in s
    if t == "p":
        return ">" not in s
    if t == "r":
        return (s != "" and all(c in "0123456789" for c in s)) or \
               (len(s) > 1 and s[0] in "xX" and all(c in HEX for c in s[1:]))
    if t == "n":
        return s != "" and (s[0].isascii() and s[0].isalpha()) and all((c.isascii() and c.isalnum()) or c in "-." for c in s)
    return False


LEAVES = [("d", "t"), ("d", " \n"), ("d", "a > b \"q\" é"), ("l", "DOCTYPE html"), ("c", " c "), ("c", "-"), ("p", "xml v?"),
          ("r", "65"), ("r", "x4F"), ("n", "amp"), ("n", "a-b.c"), ("c", "")]
ATTRS = [[], [("class", "a b")], [("k", None)], [("id", ""), ("title", "x > 'y'\n<z> &amp; \"q\" &lt")],
         [("src", "a.png?x=1&y=2"), ("alt", "é")]]


def node_labels(small):
    """Labels for exhaustive enumeration: leaves + element heads."""
    leaves = LEAVES[:6] if small else LEAVES
    attrs = ATTRS[:3] if small else ATTRS
    labs = [(lf, False) for lf in leaves]
    for a in attrs:
        labs.append((("v", "br", a), False))
        labs.append((("s", "a", a), False))
    for n in (["div", "script"] if small else ["div", "p", "script"]):
        for a in (attrs[:2] if small else attrs[:3]):
            labs.append((("e", n, a), True))
    return labs


def forests(n, labels):
    """All forests with exactly n nodes."""
    if n == 0:
        yield []
        return
    for (lab, can_nest) in labels:
        if can_nest:
            for k in range(0, n):          # k nodes inside the first tree
                for inner in forests(k, labels):
                    for rest in forests(n - 1 - k, labels):
                        yield [("e", lab[1], lab[2], inner)] + rest
        else:
            for rest in forests(n - 1, labels):
                yield [lab] + rest


def gen_wf(rng, depth=0, budget=None):
    """Random wf forest."""
    if budget is None:
        budget = [rng.randint(1, 40)]
    out = []
    prev_data = False
    while budget[0] > 0 and rng.random() < (0.85 if depth == 0 else 0.7):
        budget[0] -= 1
        r = rng.random()
        if r < 0.35 and depth < 6:
            n = rng.choice(["div", "p", "span", "a", "b", "x-y", "h1", "script", "style", "table", "li"])
            if n in CDATA_PY:
                kids = [("d", rand_text(rng))] if rng.random() < 0.6 else []
            else:
                kids = gen_wf(rng, depth + 1, budget)
            out.append(("e", n, rand_attrs(rng), kids))
            prev_data = False
        elif r < 0.45:
            out.append(("v", rng.choice(VOID_PY + ["meta", "wbr"]), rand_attrs(rng)))
            prev_data = False
        elif r < 0.55:
            out.append(("s", rng.choice(["a", "br", "img", "div", "script", "x1"]), rand_attrs(rng)))
            prev_data = False
        elif r < 0.75:
            if prev_data:
                continue
            out.append(("d", rand_text(rng)))
            prev_data = True
        else:
            out.append(rng.choice([("l", "DOCTYPE html"), ("l", "doctype x \"y\""), ("c", rand_text(rng).replace(">", "")),
                                   ("c", ""), ("c", "--"), ("p", "php echo 1 ?"), ("p", ""), ("r", str(rng.randint(0, 99999))),
                                   ("r", "x" + "%X" % rng.randint(0, 0xffff)), ("r", "X1f"), ("n", rng.choice(["amp", "lt", "nbsp", "x.y-z", "Q"]))]))
            prev_data = False
    return out


def rand_text(rng):
    al = ["a", "b", " ", "\n", "\t", ">", "\"", "'", "é", "=", "/", ";", "#", "-", "]", "x", "\r", "\x0c", " ", "1"]
    return "".join(rng.choice(al) for _ in range(rng.randint(1, 8)))


def rand_attrs(rng):
    ks = ["class", "id", "src", "alt", "k", "data-x", "title", "name", "a1"]
    rng.shuffle(ks)
    out = []
    for k in ks[: rng.choice([0, 0, 1, 1, 2, 3])]:
        r = rng.random()
        if r < 0.12:
            v = None
        elif r < 0.2:
            v = ""
        else:
            v = rand_text(rng) + rng.choice(["", "", "&", "&amp;", "&quot;", "&#65;", "& b", "&lt"])
        out.append((k, v))
    return out


def enc_html(h):
    t = h[0]
    if t == "e":
        return ["e", enc_str(h[1])] + enc_attrs(h[2]) + [str(len(h[3]))] + [x for c in h[3] for x in enc_html(c)]
    if t in ("v", "s"):
        return [t, enc_str(h[1])] + enc_attrs(h[2])
    return [t, enc_str(h[1])]


def enc_doc(hs):
    return [str(len(hs))] + [x for h in hs for x in enc_html(h)]


def doc_size(hs):
    return sum(1 + (doc_size(h[3]) if h[0] == "e" else 0) for h in hs)


def wf_stream(ctx, for_search=False):
    """wf documents: exhaustive small forests, then random large ones."""
    nmax = ctx.budget(3, 4, 4)
    for n in range(0, nmax + 1):
        small = n >= 3 if nmax == 3 else n >= 4
        labs = node_labels(small or (n == 3 and nmax == 4 and False))
        if n == 3 and nmax == 4:
            labs = node_labels(False)
        for f in forests(n, labs):
            yield f
    rng = ctx.rng
    for _ in range(ctx.budget(5000, 20000, 20000)):
        yield gen_wf(rng)


# ------------------------------------------------------------------ queries for find

def gen_query(rng, root):
    """(identifier, attrs, classes, include_self, recurse, start index in walk(include_self))."""
    elems = list(root.walk(include_self=True))
    names = sorted({e.name for e in elems}) + ["div", "zz"]
    r = rng.random()
    if r < 0.6:
        ident = ("n", rng.choice(names))
    else:
        ident = ("c", rng.choice(KINDS + ["Element", "TerminalElement"]))
    attrs = None
    if rng.random() < 0.4:
        cands = [(k, v) for e in elems for k, v in e.attrs.items()] + [("class", "x"), ("zz", ""), ("k", None)]
        attrs = dict(rng.sample(cands, min(len(cands), rng.choice([1, 1, 2]))))
    classes = None
    if rng.random() < 0.4:
        cl = [c for e in elems if isinstance(e.attrs.get("class"), str) for c in e.attrs["class"].split()] + ["a", "admonition"]
        classes = rng.sample(cl, min(len(cl), rng.choice([0, 1, 1, 2])))
    return {"ident": list(ident), "attrs": attrs, "classes": classes, "include_self": rng.random() < 0.3,
            "recurse": rng.random() < 0.8, "start": rng.randrange(len(elems))}


def py_class(name):
    from myst_parser.parsers import parse_html as P
    return getattr(P, name)


def run_find(root, q):
    """The implementation's find; returns indices into walk(include_self) of root."""
    elems = list(root.walk(include_self=True))
    start = elems[q["start"]]
    ident = q["ident"][1] if q["ident"][0] == "n" else py_class(q["ident"][1])
    res = list(start.find(ident, attrs=q["attrs"], classes=q["classes"], include_self=q["include_self"], recurse=q["recurse"]))
    idx = {id(e): i for i, e in enumerate(elems)}
    return [idx[id(e)] for e in res]


TERMINALS = ("Data", "Declaration", "Comment", "Pi", "Char", "Entity")


def spec_find(root, q):
    """Independent statement: filter over walk (or over the children when not recursing), document order."""
    elems = list(root.walk(include_self=True))
    start = elems[q["start"]]
    if q["recurse"]:
        dom, stack = [], list(reversed(list(start)))
        while stack:                      # explicit preorder, not using walk()
            e = stack.pop()
            dom.append(e)
            stack.extend(reversed(list(e)))
    else:
        dom = list(start)
    if q["include_self"]:
        dom = [start] + dom

    def matches(e):
        kind, val = q["ident"]
        cname = type(e).__name__
        if kind == "n":
            if e.name != val:
                return False
        elif not (val == "Element" or cname == val or (val == "TerminalElement" and cname in TERMINALS)):
            return False
        if q["classes"] is not None:
            have = (e.attrs.get("class") or "").split()
            if not all(c in have for c in q["classes"]):
                return False
        for k, v in (q["attrs"] or {}).items():
            if e.attrs.get(k, "") != v:
                return False
        return True

    idx = {id(e): i for i, e in enumerate(elems)}
    return [idx[id(e)] for e in dom if matches(e)]


def enc_query(q):
    toks = [q["ident"][0], enc_str(q["ident"][1])]
    toks.append("~" if q["classes"] is None else enc_strs(q["classes"]))
    if q["attrs"] is None:
        toks.append("~")
    else:
        toks += enc_attrs(list(q["attrs"].items()))
    toks += ["1" if q["include_self"] else "0", "1" if q["recurse"] else "0", str(q["start"])]
    return toks


# ------------------------------------------------------------------ correspondence

def corr(ctx):
    if not ctx.have_runner:
        return
    void = VOID_STD
    rng = ctx.rng
    # (i) wf documents: spec side (wf, print, events_of) vs independent printer and the real html.parser
    docs, lines = [], []
    for hs in wf_stream(ctx):
        docs.append(hs)
        lines.append("\t".join(["spec"] + enc_doc(hs)))
    outs = model_run_parallel(PID, lines)
    ev_lines, ev_docs = [], []
    n_oracle = 0
    for hs, o in zip(docs, outs):
        ctx.corr_cases += 1
        text = print_doc(hs)
        wf_py = wf_siblings(hs, void, CDATA_PY)
        fs = o.split("|")
        if o.startswith("!") or len(fs) != 3:
            ctx.disagree("spec", {"kind": "wf", "doc": hs}, "ok", o)
            continue
        wf_m, print_m, events_m = fs[0] == "1", dec_str(fs[1]), fs[2]
        ctx.count("wf:size%d" % min(doc_size(hs), 9))
        if doc_size(hs) >= 3:
            ctx.nontriv(("wf", text))
        if wf_m != wf_py or print_m != text:
            ctx.disagree("wf/print of the Coq spec vs the Python grammar", {"kind": "wf", "doc": hs},
                         [wf_py, text], [wf_m, print_m])
            continue
        if not wf_py:
            ctx.count("wf:rejected")
            continue
        # O_htmlparser_events
        root, events, exc = record_events(text)
        events = [("L", e[1]) if e[0] == "U" else e for e in events]
        n_oracle += 1
        if exc or " ".join(enc_events(events)) != events_m.replace("\t", " "):
            ctx.disagree("O_htmlparser_events: HTMLParser.feed(print h) vs events_of h", {"kind": "wf", "doc": hs},
                         exc or enc_events(events), events_m)
            continue
        ev_docs.append((hs, text, root))
        ev_lines.append("\t".join(["round"] + enc_doc(hs)))
    ctx.oracle_tests["O_htmlparser_events"] = n_oracle
    outs = model_run_parallel(PID, ev_lines)
    for (hs, text, root), o in zip(ev_docs, outs):
        ctx.corr_cases += 1
        got = root.render()
        if o.startswith("!") or dec_str(o) != got:
            ctx.disagree("render(build(events_of h)) model vs implementation", {"kind": "wf", "doc": hs}, got,
                         o if o.startswith("!") else dec_str(o))
    if docs:
        ctx.sample({"wf_document": print_doc(docs[len(docs) // 2])})

    # (ii) markup soup: real event stream -> model builder vs real tree
    cases, lines = [], []
    for i in range(ctx.budget(12000, 60000, 60000)):
        text = gen_soup(rng) if i % 4 else print_doc(gen_wf(rng))
        name = "" if i % 3 else rng.choice(["div", "p", "a"])
        root, events, exc = record_events(text, name)
        events = [("L", e[1]) if e[0] == "U" else e for e in events]
        case = {"kind": "soup", "text": text, "name": name}
        if exc:
            ctx.disagree("tokenize_html raised", case, exc, "no exception in the model of the repaired code")
            continue
        evs = enc_events(events)
        obs = obs_tree(root)
        cases.append((case, "build", obs))
        lines.append("\t".join(["build", enc_str(name)] + evs))
        n_el = len(obs["rows"])
        ctx.count("soup:elements%d" % min(n_el, 9))
        if n_el >= 3:
            ctx.nontriv(("soup", text, name))
        if n_el > 1 and i % 2 == 0:
            q = gen_query(rng, root)
            try:
                r = run_find(root, q)
            except Exception as e:  # noqa: BLE001
                r = "!" + type(e).__name__
            cases.append(({**case, "query": q}, "find", r))
            lines.append("\t".join(["find", enc_str(name)] + enc_query(q) + evs))
        if i % 2 == 1:
            elems = list(root.walk(include_self=True))
            k = rng.randrange(len(elems))
            mode = rng.choice(["copy", "strip00", "strip01", "strip10", "strip11"])
            try:
                if mode == "copy":
                    res = elems[k].deepcopy()
                else:
                    res = elems[k].strip(inplace=mode[5] == "1", recurse=mode[6] == "1")
                r = {"result": obs_tree(res), "orig": obs_tree(root)}
            except Exception as e:  # noqa: BLE001
                r = "!" + type(e).__name__
            cases.append(({**case, "op": mode, "target": k}, "op", r))
            lines.append("\t".join(["op", enc_str(name), mode, str(k)] + evs))
    outs = model_run_parallel(PID, lines)
    for (case, what, impl), o in zip(cases, outs):
        ctx.corr_cases += 1
        ctx.count("corr:" + what)
        if what == "build":
            model = o if o.startswith("!") else dec_obs(o)
        elif what == "find":
            model = o if o.startswith("!") else ([] if o == "." else [int(x) for x in o.split(",")])
        else:
            if o.startswith("!"):
                model = o
            else:
                a, b = o.split("#")
                model = {"result": dec_obs(a), "orig": dec_obs(b)}
        if model != impl:
            if len(ctx.disagreements) < 40:
                ctx.disagree(what, case, impl if isinstance(impl, str) else repr(impl)[:1500],
                             model if isinstance(model, str) else repr(model)[:1500])
    if cases:
        ctx.sample({"soup": cases[0][0]})


# ------------------------------------------------------------------ direct property oracle on the implementation

def check_case(ctx, case):
    k = case["kind"]
    if k == "soup":
        return check_soup(ctx, case)
    if k == "wf":
        return check_wf(ctx, case)
    if k == "history":
        return check_history(ctx, case)
    return True


def check_soup(ctx, case):
    from myst_parser.parsers import parse_html as P
    text, name = case["text"], case.get("name", "")
    created = []
    orig_init = P.Element.__init__

    def init(self, *a, **kw):
        orig_init(self, *a, **kw)
        created.append(self)

    P.Element.__init__ = init
    try:
        try:
            root = P.tokenize_html(text, name)
        finally:
            P.Element.__init__ = orig_init
    except Exception as e:  # noqa: BLE001
        import traceback
        site = traceback.extract_tb(e.__traceback__)[-1].name
        ctx.fail(f"total:exception:{type(e).__name__}:{site}", case,
                 f"tokenize_html({text!r}, name={name!r}) raised {type(e).__name__}: {e}", "no exception", repr(e))
        return False
    ok = True
    # Tree.__init__ makes a Root that feed() -> clear() replaces: count from the last Root created
    last_root = max(i for i, e in enumerate(created) if type(e).__name__ == "Root")
    created = created[last_root:]
    walked = list(root.walk(include_self=True))
    if len({id(e) for e in walked}) != len(walked):
        ctx.fail("consistency:walk-duplicate", case, "an element is reached twice by walk()")
        ok = False
    if {id(e) for e in walked} != {id(e) for e in created}:
        ctx.fail("consistency:walk-incomplete", case, "walk() does not reach exactly the elements created by the parse",
                 len(created), len(walked))
        ok = False
    if root.parent is not None:
        ctx.fail("consistency:root-parent", case, "the root has a parent")
        ok = False
    for e in walked:
        for c in e:
            if c.parent is not e:
                ctx.fail("consistency:parent", case, f"child {c!r} of {e!r} has parent {c.parent!r}")
                ok = False
    if not ok:
        return False
    # purity of deepcopy / strip(inplace=False), what strip removes
    before = obs_tree(root)
    ids_before = [id(e) for e in walked]
    for e in walked[:12]:
        for mode in ("copy", "strip", "strip-recurse"):
            try:
                res = e.deepcopy() if mode == "copy" else e.strip(recurse=mode == "strip-recurse")
            except Exception as ex:  # noqa: BLE001
                ctx.fail(f"purity:exception:{type(ex).__name__}", {**case, "op": mode}, f"{mode} raised {ex!r}")
                return False
            after = obs_tree(root)
            if after != before or [id(x) for x in root.walk(include_self=True)] != ids_before:
                ctx.fail("purity:" + mode, {**case, "op": mode}, f"{mode} of {e!r} altered the original tree",
                         before["render"], after["render"])
                return False
            if any(id(x) in set(ids_before) for x in res.walk(include_self=True)):
                ctx.fail("purity:shared:" + mode, {**case, "op": mode}, "the copy shares an element object with the original")
                return False
            want = expected_copy(e, mode)
            got = shape(res)
            if want != got:
                ctx.fail("strip:result:" + mode, {**case, "op": mode}, f"{mode} result differs from the specification",
                         repr(want)[:600], repr(got)[:600])
                return False
    # find = filter over walk
    rng = __import__("random").Random(hash(text) & 0xffff)
    for _ in range(4):
        q = gen_query(rng, root)
        try:
            got = run_find(root, q)
        except Exception as ex:  # noqa: BLE001
            ctx.fail(f"find:exception:{type(ex).__name__}", {**case, "query": q}, f"find raised {ex!r}")
            return False
        want = spec_find(root, q)
        if got != want:
            ctx.fail("find:filter", {**case, "query": q}, "find differs from filter(matches, walk) in document order", want, got)
            return False
    return True


def shape(e):
    return (type(e).__name__, e.name, list(e.attrs.items()), getattr(e, "data", ""), [shape(c) for c in e])


def expected_copy(e, mode):
    """Specification of deepcopy / strip on the snapshot of the original."""
    def ws_data(c):
        return type(c).__name__ == "Data" and c.data.strip() == ""

    def go(x, depth):
        kids = list(x)
        if mode == "strip" and depth == 0 or mode == "strip-recurse":
            kids = [c for c in kids if not ws_data(c)]
        return (type(x).__name__, x.name, list(x.attrs.items()), getattr(x, "data", ""), [go(c, depth + 1) for c in kids])
    return go(e, 0)


def check_wf(ctx, case):
    from myst_parser.parsers import parse_html as P
    hs = case["doc"]
    hs = [tuple_deep(h) for h in hs]
    if not wf_siblings(hs, VOID_STD, CDATA_PY):
        return True
    text = print_doc(hs)
    try:
        got = P.tokenize_html(text).render()
    except Exception as e:  # noqa: BLE001
        ctx.fail(f"total:exception:{type(e).__name__}:wf", case, f"tokenize_html raised on a wf document: {e!r}")
        return False
    if got != text:
        construct = first_diff_construct(hs, P)
        ctx.fail("roundtrip:" + construct, case, "render(tokenize_html(text)) != text for well-formed text", text, got)
        return False
    return True


def first_diff_construct(hs, P):
    for h in hs:
        t = print_html(h)
        if P.tokenize_html(t).render() != t:
            if h[0] == "e":
                inner = first_diff_construct(h[3], P)
                head = ("e", h[1], h[2], [])
                if P.tokenize_html(print_html(head)).render() != print_html(head):
                    return "element" + ("-bare-attr" if any(v is None for _, v in h[2]) else "")
                return inner
            if h[0] in ("v", "s"):
                return {"v": "void", "s": "selfclosing"}[h[0]] + ("-bare-attr" if any(v is None for _, v in h[2]) else "")
            return {"d": "data", "l": "declaration", "c": "comment", "p": "pi", "r": "charref", "n": "entityref"}[h[0]]
    return "sequence"


def tuple_deep(h):
    if h[0] == "e":
        return ("e", h[1], [tuple(a) for a in h[2]], [tuple_deep(c) for c in h[3]])
    if h[0] in ("v", "s"):
        return (h[0], h[1], [tuple(a) for a in h[2]])
    return tuple(h)


INCOMPLETE = ["text <b", "x &", "<div class=\"a", "<script>var a = 1;", "<!-- open", "<![CDATA[ open", "<a href='", "&#12", "<?pi",
              "</di", "<style>p {", "<"]


def check_history(ctx, case):
    """parses of incomplete inputs must not influence later parses in the same process"""
    from myst_parser.parsers import parse_html as P
    hs = [tuple_deep(h) for h in case["doc"]]
    text = print_doc(hs)
    try:
        alone = obs_tree(P.tokenize_html(text))
        for t in case["before"]:
            P.tokenize_html(t)
        after = obs_tree(P.tokenize_html(text))
    except Exception as e:  # noqa: BLE001
        ctx.fail(f"total:exception:{type(e).__name__}:history", case, f"tokenize_html raised in a sequence of calls: {e!r}")
        return False
    if after != alone:
        ctx.fail("history:result-depends-on-earlier-calls", case,
                 "tokenize_html(text) differs after parsing incomplete inputs in the same process", alone["render"], after["render"])
        return False
    if wf_siblings(hs, VOID_STD, CDATA_PY) and after["render"] != text:
        ctx.fail("roundtrip:after-history", case, "round trip fails after earlier parses", text, after["render"])
        return False
    return True


SEED_CASES = [
    {"kind": "soup", "text": "<p>a</div>b", "name": "div"},
    {"kind": "soup", "text": "<div class>x</div><div class=\"a\">", "name": ""},
    {"kind": "wf", "doc": [("e", "a", [("b", None)], [("d", "x")])]},
    {"kind": "soup", "text": "<a><b></a>c</b>", "name": ""},
    {"kind": "soup", "text": "<![foo[x]]>y", "name": ""},
    {"kind": "soup", "text": "a<![ CDATA[x]]>", "name": ""},
    {"kind": "wf", "doc": [("e", "a", [("title", "say \"hi\" & bye")], [])]},
    {"kind": "history", "before": ["text <b", "<script>x"], "doc": [("e", "p", [], [("d", "t")])]},
]


def search(ctx):
    for c in SEED_CASES + [s for s in ctx.suspects[:200] if s]:
        ctx.search_cases += 1
        check_case(ctx, c)
    rng = ctx.rng
    n_fail = 0
    for i in range(ctx.budget(10000, 40000, 80000)):
        text = gen_soup(rng, 12 if i % 5 else 40)
        name = "" if i % 3 else rng.choice(["div", "p", "a", "br"])
        ctx.search_cases += 1
        if not check_case(ctx, {"kind": "soup", "text": text, "name": name}):
            n_fail += 1
            if n_fail > 25:
                break
    for i in range(ctx.budget(1500, 15000, 15000)):
        ctx.search_cases += 1
        case = {"kind": "history", "before": [rng.choice(INCOMPLETE + [gen_soup(rng, 6)]) for _ in range(rng.randint(1, 3))],
                "doc": gen_wf(rng)}
        if not check_case(ctx, case):
            break
    n_fail = 0
    for hs in wf_stream(ctx, for_search=True):
        ctx.search_cases += 1
        if not check_case(ctx, {"kind": "wf", "doc": hs}):
            n_fail += 1
            if n_fail > 25:
                break


def replay(ctx, data):
    w = data.get("witness")
    if not w:
        print("replay file names no concrete input:", data.get("no_longer_checks"))
        return 1
    ok = check_case(ctx, w)
    print("replay:", "property holds on this input" if ok else ctx.failures[-1])
    return 0 if ok else 1


LEVEL_TEXT = ("Proof (Coq, 19 theorems): for every event list the Tree stack machine of the model never raises and keeps the root at "
              "the bottom of a non-empty stack (C16_build_total); the element store is a tree and walk(root) enumerates every "
              "element exactly once (C16_tree_consistent); for every well-formed document render(build(parse(print h))) = print h "
              "under the html.parser oracle (C16_roundtrip), at any position of any sequence of calls, each of which starts from a "
              "fresh parser state (C16_fresh_state); find = filter over walk in document order (C16_find_is_filter); deepcopy / "
              "strip(inplace=False) leave every pre-existing cell unchanged (C16_copy_strip_pure), deepcopy returns an isomorphic "
              "tree that renders and walks identically (C16_deepcopy_isomorphic), strip() returns the original minus exactly its "
              "whitespace-only Data children (C16_strip_exact, C16_strip_step_exact), strip(recurse=True) returns the original minus "
              "those children at every level (C16_strip_recursive_exact, _render, _src). render templates, attribute escaping, void "
              "set, handler->class table and the one-parser-per-call shape of tokenize_html are regenerated / pinned from "
              "parse_html.py on every run. Source-translation tie: Element.insert/append/walk/deepcopy/reset_children/strip/find, "
              "Tree.last/nest_*/enclose and the HtmlToAst handlers are regenerated statement by statement into coq/Gen/HtmlSrc.v "
              "and proved equal to the hand-written model, so C16_build_total_src, C16_tree_consistent_src, C16_find_is_filter_src "
              "and C16_copy_strip_pure_src hold of the regenerated code; Tree.__init__/clear, Attribute.__getitem__/classes "
              "(C16_tokenize_src) and the ten render methods (C16_render_src: the regenerated render returns what the modelled one "
              "returns) are regenerated too, so the round trip holds of regenerated code only (C16_roundtrip_src). Limits: render is "
              "translated for tag_overrides=None; render_src refines the model (equal result whenever the model returns; an XTag / "
              "VoidTag / terminal with children would make the model recurse where the code does not); Attribute.__str__'s join and "
              "dict construction stay hand-written (correspondence).")
LEVEL_NOTE = ("Trusted: Coq kernel; the statement translator gen/pysrc.py + domain mapping coq/Html/SrcPrims.v; Tree.clear is translated with ids restarting at 0 (the generator checks that clear() overwrites outmost and empties the stack, so nothing allocated before stays reachable; garbage is not modelled); hand transcription of Attribute.__str__ / dict(...) into coq/Html/HtmlModel.v (correspondence, not proof); "
              "html.parser as oracle (O_htmlparser_events exercised exhaustively on small wf documents); 'well-formed' is read as: "
              "lower-case ASCII names, attribute values double-quoted with '&' and '\"' written &amp; / &quot; (or no value), no adjacent text nodes, "
              "script/style containing text only, comments/PI/declarations without '>', declarations starting with doctype, "
              "references terminated by ';'. Python's recursion limit for very deep trees is not modelled.")
