"""C14 - warnings: closed typed catalogue; suppression has no side effects."""
from __future__ import annotations

import itertools
import os
import re
from pathlib import Path

from lib import common
from lib.common import enc_str, enc_ostr, enc_strs, dec_str, model_run_parallel

PID = "C14"

SNIPPETS = {
    "notsup": "[a](path:x.md) [b](project:x.md)\n",
    "dupe": "[a]: b\n[a]: c\n\n[a]\n",
    "header": "# a\n\n### b\n",
    "dirparse": "```{image} a.png\ncontent\n```\n",
    "diropt": "```{note}\n:unknown: x\n:class: [\n\nbody\n```\n",
    "dircomm": "```{note}\n:class: a # comment\n\nbody\n```\n",
    "dirunk": "```{foo}\nx\n```\n",
    "roleunk": "{foo}`x`\n",
    "strike": "~~a~~\n",
    "attr": "![a](b.png){width=abc}\n",
    "subst": "{{ undefined }} {{ a }}\n",
    "footunref": "[^a]: unused\n\n[^b]: unused2\n",
    "footdup": "x[^a]\n\n[^a]: one\n[^a]: two\n",
    "footnum": "[^1]: unused numbered\n",
    # node kinds that only directives create: rST inside eval-rst, and the harness directive verif-nodes
    "rstfoot": "```{eval-rst}\n.. [*] symbol footnote from rST, unreferenced\n\n.. [#] auto footnote from rST\n\n.. [7] numbered from rST\n```\n",
    "dirsymfoot": "```{verif-nodes} symbol-footnote\n```\n",
    "emph": "{emphasize-lines=\"9,x\"}\n```python\na\n```\n",
    "badhref": "[a](inv://[#x)\n\n<wiki://[::1>\n",
    "dirsplit": "```{note} first line\n:class: x\n\nbody\n```\n",
    "tokerr": "```{note}\n:class: \"unclosed\n\nbody\n```\n",
    # a block token without render method: fault injection (unknown_block_fault) appends one on this marker
    "unkblock": "VERIF-UNKNOWN-BLOCK paragraph.\n",
    "lexer": "```nolexer\nx\n```\n",
    "xrefmiss_text": "[t1](#nothing1) [t2](#nothing2)\n",
    "slug": "## Slug me\n",
    "plain": "Some *plain* text with `code`.\n\n- item\n",
    # myst.html: since the repair of '<![' (6c06da7) no text makes tokenize_html raise (300k fuzzed strings);
    # the handler is exercised by fault injection: html_fault() makes the tokenizer raise on this marker
    "htmlparse": "<div class=\"x\" data-verif-fail=\"1\">payload</div>\n\nafter <img src=\"ok.png\" alt=\"fine\">\n",
    "render": "Escaped \\* star and &amp; entity.\n",       # needs flag "render" (disable_syntax: text_join)
}
# snippet -> flag it needs
NEEDS_FLAG = {"render": "render"}
DOCUTILS_ONLY = {"iref": "[](inv:k#nomatch) [](inv:k#*)\n", "invload": "[](inv:zz#x)\n"}
SPHINX_ONLY = {"xdoc": "[](nonexist.md) [t](other/none.md)\n", "xrefsphinx": "[](#nothing) [t](#nothing2)\n",
               "anyref": "[](sometarget)\n",
               "projlink": "[a](project:nonexist.txt)\n", "localid": "[x](index.md#nothere)\n", "invany": "[](a)\n",
               "xrefamb": "(dup)=\n## Dup\n\n```{py:function} dup\n```\n\n[](dup)\n"}
TOPMATTER = {
    "topm1": "---\nmyst: 1\n---\n",
    "topm2": "---\nmyst:\n  nope: 1\n  heading_anchors: x\nhtml_meta:\n  a: b\n---\n",
    "topm3": "---\na: [\n---\n",
    "topm4": "---\n- a\n---\n",
    "topm5": "---\nsubstitutions:\n  zz: top-level\n---\n",
}
EXT = ["strikethrough", "attrs_inline", "attrs_block", "substitution", "html_image", "html_admonition", "deflist",
       "fieldlist", "colon_fence", "dollarmath"]
SPHINX_CONF = ("myst_enable_extensions = %r\nmyst_substitutions = {'a': '{{ a }}'}\nmyst_heading_anchors = 2\n"
               "myst_heading_slug_func = 'json.loads'\nkeep_warnings = True\nmathjax3_config = {'options': {'processHtmlClass': 'other'}}\n" % (EXT,))

LEGACY_EXT = ("from sphinx.domains import Domain\n\n\nclass LegacyDomain(Domain):\n    name = 'legacy'\n    label = 'Legacy'\n\n\n"
              "def setup(app):\n    app.add_domain(LegacyDomain)\n    return {'parallel_read_safe': True}\n")
SPHINX_CONF += ("myst_url_schemes = {'http': None, 'https': None, 'mailto': None, 'ftp': None, 'wiki': 'https://w.org/{{path}}'}\n"
                "extensions.append('sphinx.ext.intersphinx')\nintersphinx_mapping = {'k': ('https://e.org', 'objects.inv')}\n"
                "import os, sys\nsys.path.insert(0, os.path.dirname(os.path.abspath(__file__)))\n"
                "extensions.append('legacy_ext')\n")


FAULT_MARKER = "data-verif-fail"


class harness_directives:
    """Registers, for the duration of a run, a minimal directive `verif-nodes` that puts node kinds into the document
    which Markdown syntax never creates (they enter real documents through rST / third-party directives):
    `symbol-footnote` - an auto-symbol footnote that nothing references."""

    def __enter__(self):
        from docutils import nodes
        from docutils.parsers.rst import Directive, directives

        class VerifNodes(Directive):
            required_arguments = 1
            has_content = True

            def run(self):
                kind = self.arguments[0]
                doc = self.state.document
                if kind == "symbol-footnote":
                    fn = nodes.footnote(auto="*")
                    fn += nodes.paragraph("", "symbol footnote created by a directive")
                    fn.line = self.lineno
                    fn.source = doc["source"]
                    doc.note_symbol_footnote(fn)
                    return [fn]
                return [doc.reporter.error("verif-nodes: unknown kind " + kind, line=self.lineno)]
        self.directives = directives
        self.had = directives._directives.get("verif-nodes")
        directives.register_directive("verif-nodes", VerifNodes)
        return self

    def __exit__(self, *a):
        if self.had is None:
            self.directives._directives.pop("verif-nodes", None)
        else:
            self.directives._directives["verif-nodes"] = self.had


class html_fault:
    """Inside the harness process only: tokenize_html (as seen by html_to_nodes) raises on HTML that
    carries FAULT_MARKER, so that the 'HTML could not be parsed' handler runs."""

    def __enter__(self):
        import myst_parser.mdit_to_docutils.html_to_nodes as H
        self.H, self.orig = H, H.tokenize_html
        orig = self.orig

        def tokenize_html(text, *a, **k):
            if FAULT_MARKER in text:
                raise AssertionError("injected tokenizer failure")
            return orig(text, *a, **k)
        H.tokenize_html = tokenize_html
        return self

    def __exit__(self, *a):
        self.H.tokenize_html = self.orig


# ---- which call sites of the regenerated table does a run execute?
REACHED = set()          # (file relative to myst_parser/, first line of the call) - filled while site_trace() is active
EMITTING = ("KCreate", "KRenderer", "KResolver", "KCallback", "KRecord", "KSphinxLog")
_SITES = {}


def site_table():
    """file -> [(first line, last line)] of the emitting call sites of the regenerated table"""
    if not _SITES:
        from gen import c14_warnings as G
        _t, info = G.generate(common.REPO)
        for st in info["sites"]:
            if st["kind"] in EMITTING and st["file"] != "_docs.py":
                _SITES.setdefault(st["file"], []).append((st["line"], st["end_line"], st["kind"], st["func"]))
    return _SITES


def _note_stack(depth=8):
    import sys
    tbl = site_table()
    root = str(common.REPO / "myst_parser") + os.sep
    f = sys._getframe(2)
    for _ in range(depth):
        if f is None:
            break
        fn = f.f_code.co_filename
        if fn.startswith(root):
            rel = fn[len(root):].replace(os.sep, "/")
            for a, b, _k, _fn in tbl.get(rel, ()):
                if a <= f.f_lineno <= b:
                    REACHED.add((rel, a))
        f = f.f_back


class site_trace:
    """Record, inside this process, which table sites are executed: create_warning (every module-level binding of
    it), MystReferenceResolver.log_warning, the Sphinx logger's warning method and the ParseWarnings constructor
    are wrapped; each call notes the table sites found on its call stack."""

    def __enter__(self):
        import sys
        import myst_parser.warnings_ as W
        self.undo = []
        orig = W.create_warning

        def create_warning(*a, **k):
            _note_stack()
            return orig(*a, **k)
        for name, mod in list(sys.modules.items()):
            if name.startswith("myst_parser") and mod is not None and getattr(mod, "create_warning", None) is orig:
                setattr(mod, "create_warning", create_warning)
                self.undo.append((mod, "create_warning", orig))
        try:
            from sphinx.util.logging import SphinxLoggerAdapter
            o2 = SphinxLoggerAdapter.warning

            def warning(self_, *a, **k):
                _note_stack()
                return o2(self_, *a, **k)
            SphinxLoggerAdapter.warning = warning
            self.undo.append((SphinxLoggerAdapter, "warning", o2))
        except Exception:
            pass
        import myst_parser.parsers.directives as D
        o3 = D.ParseWarnings.__init__

        def __init__(self_, *a, **k):
            _note_stack()
            return o3(self_, *a, **k)
        D.ParseWarnings.__init__ = __init__
        self.undo.append((D.ParseWarnings, "__init__", o3))
        return self

    def __exit__(self, *a):
        for obj, name, orig in self.undo:
            setattr(obj, name, orig)


def flag_settings(flags):
    """docutils settings for the document flags (deprecated extension / a rule switched off so that a
    token without render method appears)."""
    st = {}
    if "deprecated" in flags:
        st["myst_enable_extensions"] = EXT + ["attrs_image"]
    if "render" in flags:
        st["myst_disable_syntax"] = ["text_join"]
    return st


def _sphinx_inv():
    import zlib
    return (b"# Sphinx inventory version 2\n# Project: p\n# Version: 1\n# The remainder of this file is compressed using zlib.\n"
            + zlib.compress(b"a py:function 1 a.html#$ -\na py:class 1 ab.html#$ -\n"))


SPHINX_INV = _sphinx_inv()


class unknown_block_fault:
    """Inside the harness process only: the parser that MyST builds gets one more core rule, which appends a block
    token of an unknown type when the source carries the marker - the only way to reach the 'No render method'
    warning of DocutilsRenderer._render_tokens (every block token Markdown-It produces has a render method)."""
    MARK = "VERIF-UNKNOWN-BLOCK"

    def __enter__(self):
        import myst_parser.parsers.docutils_ as PD
        import myst_parser.parsers.sphinx_ as PS
        from markdown_it.token import Token
        self.mods = [(m, m.create_md_parser) for m in (PD, PS)]
        mark = self.MARK

        def wrap(orig):
            def create_md_parser(config, renderer):
                md = orig(config, renderer)

                def rule(state):
                    if mark in state.src:
                        n = state.src[: state.src.index(mark)].count("\n")
                        state.tokens.append(Token("verif_unknown_block", "", 0, map=[n, n + 1]))
                md.core.ruler.push("verif_unknown_block", rule)
                return md
            return create_md_parser
        for m, o in self.mods:
            m.create_md_parser = wrap(o)
        return self

    def __exit__(self, *a):
        for m, o in self.mods:
            m.create_md_parser = o


def flag_conf(flags):
    c = ""
    if "deprecated" in flags:
        c += "myst_enable_extensions = myst_enable_extensions + ['attrs_image']\n"
    if "render" in flags:
        c += "myst_disable_syntax = ['text_join']\n"
    return c


_SYSMSG_HTML = re.compile(r'<(aside|div) class="system-message"[^>]*>.*?</\1>', re.S)
_SYSMSGS_SECTION = re.compile(r'<(section|div) class="system-messages"[^>]*>.*?</\1>', re.S)


def strip_sysmsg_html(html):
    """The written HTML without the rendered system messages, white space normalised (an inline
    system message leaves a line break behind)."""
    html = _SYSMSGS_SECTION.sub("", html)
    html = _SYSMSG_HTML.sub("", html)
    html = re.sub(r"\s+", " ", html)
    html = re.sub(r"\s*(<[^>]*>)\s*", r"\1", html)
    return html.replace("><", ">\n<")


ANSI = re.compile(r"\x1b\[[0-9;]*m")
TAG = re.compile(r" \[([A-Za-z_]+\.[A-Za-z_*]+)\]\s*$")


def tag_of(line):
    m = TAG.search(line)
    return m.group(1) if m else None


def spec_matches(tag, S):
    """Independent statement of the documented rule: an entry equal to type, type.subtype or type.*"""
    if tag is None:
        return False
    ty, sub = tag.split(".", 1)
    return any(w == ty or w == ty + "." + sub or w == ty + ".*" for w in S)


def gen(ctx):
    from gen import c14_warnings as G
    from gen import c14_src
    text, info = G.generate(common.REPO)
    common.write_if_changed(common.COQ / "Gen" / "Warnings.v", text)
    # round 3: _is_suppressed_warning and create_warning translated statement by statement
    src_text = c14_src.generate(common.REPO)
    common.write_if_changed(common.COQ / "Gen" / "WarnSrc.v", src_text)
    ctx.gen_info["Gen/WarnSrc.v"] = __import__("hashlib").sha256(src_text.encode()).hexdigest()[:16]
    import hashlib
    sites = info["sites"]
    emitted = {s["sub"][1] for s in sites if s["sub"][0] in ("Member", "MemberValue")} | \
              ({info["record_default"]} if any(s["sub"][0] == "RecordDefault" for s in sites) else set())
    ctx.gen_info.update({
        "sources": len(info["hashes"]), "source_hash": hashlib.sha256(repr(sorted(info["hashes"].items())).encode()).hexdigest()[:16],
        "Gen/Warnings.v": hashlib.sha256(text.encode()).hexdigest()[:16],
        "catalogue_members": len(info["catalogue"]), "call_sites": len(sites),
        "sites_by_kind": {k: sum(1 for s in sites if s["kind"] == k) for k in sorted({s["kind"] for s in sites})},
        "dead_catalogue_entries": [n for n, _ in info["catalogue"] if n not in emitted],
        "untagged_docutils_level_sites": [f"{s['file']}:{s['line']} {s['func']}" for s in sites
                                          if s["kind"] == "KReporterWarning" and s["file"] != "warnings_.py"],
        "exempt_sites": [f"{s['file']}:{s['line']}" for s in sites if s["file"] == "_docs.py"],
    })


# ------------------------------------------------------------------ observing the implementation

def docutils_settings(S, extra=None):
    st = {"myst_enable_extensions": EXT, "myst_substitutions": {"a": "{{ a }}"}, "myst_suppress_warnings": list(S),
          "myst_heading_anchors": 2, "myst_heading_slug_func": "json.loads",
          "myst_url_schemes": {"http": None, "https": None, "mailto": None, "ftp": None, "wiki": "https://w.org/{{path}}"}}
    st.update(extra or {})
    return st


def split_tree(doc, src_repl=None):
    """(system messages as (level, line, text), pformat of the tree without them and without the
    'Docutils System Messages' section that only exists to hold loose ones)."""
    from docutils import nodes
    sm = []
    for n in list(doc.findall(nodes.system_message)):
        t = n.astext()
        if src_repl:
            t = t.replace(src_repl, "<src>")
        sm.append([n["level"], n.get("line"), t])
        n.parent.remove(n)
    for s in list(doc.findall(nodes.section)):
        if "system-messages" in s["classes"] and s.parent is not None:
            s.parent.remove(s)
    out = doc.pformat()
    if src_repl:
        out = out.replace(src_repl, "<src>")
    return sm, out


def observe_docutils(text, S, extra=None, inv_dir=None, with_html=True):
    """(log lines, system messages, pformat without them, written HTML of the tree without them)"""
    from docutils.core import publish_from_doctree
    from lib.impl import publish
    extra = dict(extra or {})
    if inv_dir:
        extra["myst_inventories"] = {"k": ["https://e.org", make_inv(inv_dir)], "zz": ["https://z.org", os.path.join(inv_dir, "none.inv")]}
    with html_fault(), unknown_block_fault(), site_trace(), harness_directives():
        doc, ws = publish(text, docutils_settings(S, extra))
    if inv_dir:
        ws = ws.replace(inv_dir, "<tmp>")
    log = [l for l in ws.splitlines() if re.search(r"\((WARNING|ERROR|SEVERE)/\d\)", l)]
    sm, rest = split_tree(doc, inv_dir)
    if not with_html:
        return log, sm, rest, ""
    try:
        html = publish_from_doctree(doc, writer_name="html5",
                                    settings_overrides={"output_encoding": "unicode", "report_level": 5, "halt_level": 5,
                                                        "warning_stream": False, "embed_stylesheet": False, "stylesheet_path": None})
        html = strip_sysmsg_html(html[html.find("<body"):] if "<body" in html else html)
        if inv_dir:
            html = html.replace(inv_dir, "<tmp>")
    except Exception as e:
        html = "!" + type(e).__name__ + ": " + str(e)[:200]
    return log, sm, rest, html


def observe_sphinx(text, S, flags=()):
    """Same for a Sphinx html build (keep_warnings = True keeps the system_message nodes in the tree)."""
    from lib.impl import SphinxProject
    conf = SPHINX_CONF + flag_conf(flags) + "suppress_warnings = %r\n" % (list(S),)
    with html_fault(), unknown_block_fault(), site_trace(), harness_directives():
        r = SphinxProject({"index.md": text, "legacy_ext.py": LEGACY_EXT, "objects.inv": SPHINX_INV}, conf=conf).build()
    log = [ANSI.sub("", l) for l in r["warnings"].splitlines() if l.strip()]
    d = r["doctrees"]["index"]
    if isinstance(d, Exception):
        raise d
    sm, rest = split_tree(d, r["src"])
    html = r["html"].get("index.html", "!no index.html")
    html = strip_sysmsg_html(html[html.find("<body"):] if "<body" in html else html).replace(r["src"], "<src>")
    return log, sm, rest, html


def _observe_sphinx_job(args):
    """(observation, table sites reached) - runs in a worker process"""
    REACHED.clear()
    try:
        return observe_sphinx(*args), sorted(REACHED)
    except Exception as e:  # pragma: no cover
        return ("!" + type(e).__name__ + ": " + str(e)[:200], [], "", ""), sorted(REACHED)


def make_inv(d):
    import zlib
    body = "a py:function 1 a.html#$ -\nab py:function 1 ab.html#$ -\n"
    p = os.path.join(d, "objects.inv")
    with open(p, "wb") as f:
        f.write(b"# Sphinx inventory version 2\n# Project: p\n# Version: 1\n# The remainder of this file is compressed using zlib.\n"
                + zlib.compress(body.encode()))
    return p


def flags_of(ks):
    return sorted({NEEDS_FLAG[k] for k in ks if k in NEEDS_FLAG} | ({"deprecated"} if "deprecated" in ks else set()))


def gen_doc(rng, fe):
    pool = dict(SNIPPETS)
    pool.update(DOCUTILS_ONLY if fe == "docutils" else SPHINX_ONLY)
    ks = rng.sample(sorted(pool), rng.randint(1, 4))
    parts = ["Intro paragraph.\n"] + [pool[k] for k in ks] + ["Final paragraph.\n"]
    text = "\n".join(parts)
    if rng.random() < 0.4:
        tk = rng.choice(sorted(TOPMATTER))
        ks.append(tk)
        text = TOPMATTER[tk] + "\n" + text
    if rng.random() < 0.2:
        ks.append("deprecated")      # enable the deprecated attrs_image extension (myst.deprecated)
    return ks, text


def coverage_docs(fe):
    """One document per snippet (so that every warning kind is triggered in every run)."""
    pool = dict(SNIPPETS)
    pool.update(DOCUTILS_ONLY if fe == "docutils" else SPHINX_ONLY)
    for k in sorted(pool):
        yield [k], "Intro paragraph.\n\n" + pool[k] + "\nFinal paragraph.\n"
    for k in sorted(TOPMATTER):
        yield [k], TOPMATTER[k] + "\nIntro paragraph.\n\nFinal paragraph.\n"
    yield ["plain", "deprecated"], "Intro paragraph.\n\n" + SNIPPETS["plain"] + "\nFinal paragraph.\n"


def subsets_for(tags, rng, limit):
    tags = sorted(tags)
    subs = [list(c) for r in range(1, len(tags) + 1) for c in itertools.combinations(tags, r)]
    if len(subs) > limit:
        subs = rng.sample(subs, limit)
    types = sorted({t.split(".")[0] for t in tags})
    extra = [[t] for t in types] + [[t + ".*"] for t in types] + [["nomatch.x", "myst.nomatch"]]
    if tags:
        extra.append([tags[0].split(".")[0] + ".*", tags[-1]])
        extra.append(["myst.", tags[0] + "x", tags[0].replace(".", "..")])
    return subs + extra


# ------------------------------------------------------------------ correspondence

def corr_predicates(ctx):
    from myst_parser.warnings_ import _is_suppressed_warning
    from sphinx.util.logging import is_suppressed_warning
    types = [None, "", "a", "myst", "a.b", "."]
    subs = ["", "b", "x", "*", "b.c"]
    entries = ["a", "a.b", "a.*", "a.", ".b", "", "myst", "myst.x", "a.b.c", "*", "a.b.*", ".", "a.b.b", "a.x", "ab"]
    lists = [[]] + [[e] for e in entries] + [[e, f] for e in entries for f in entries if e != f]
    rng = ctx.rng
    for _ in range(ctx.budget(300, 3000, 3000)):
        lists.append([rng.choice(entries) for _ in range(rng.randint(3, 5))])
    cases, lines = [], []
    for ty in types:
        for sub in subs:
            for l in lists:
                cases.append((ty, sub, l))
                lines.append("sup\t%s\t%s\t%s" % (enc_ostr(ty), enc_str(sub), enc_strs(l) if l else "."))
    outs = model_run_parallel(PID, lines)
    for (ty, sub, l), o in zip(cases, outs):
        try:
            r = ("1" if _is_suppressed_warning(ty, sub, l) else "0") + ("1" if is_suppressed_warning(ty, sub, l) else "0")
        except Exception as e:
            r = "!" + type(e).__name__
        ctx.corr_cases += 1
        ctx.count("pred:" + r)
        if r[:1] != r[1:2]:
            ctx.nontriv(("mirror-differs", ty, sub, tuple(l)))
        if r != o:
            if len(ctx.disagreements) < 30:
                ctx.disagree("is_suppressed predicates (myst,sphinx)", {"kind": "pred", "type": ty, "subtype": sub, "suppress": l}, r, o)
    ctx.sample({"pred": cases[len(cases) // 3]})


def enc_items(items):
    fs = []
    for it in items:
        if it[0] == "W":
            fs += ["W", enc_ostr(it[1]), enc_str(it[2]), enc_str(it[3]), "1" if it[4] else "0"]
        elif it[0] == "O":
            fs += ["O", enc_str(it[1])]
        else:
            fs += ["X", enc_ostr(it[1]), enc_str(it[2]), enc_str(it[3]), enc_ostr(it[4]), enc_str(it[5])]
    return fs


def dec_result(line):
    log_s, tree_s = line.split(" # ")
    log = [] if log_s == "." else [tuple(dec_str(x) for x in e.split("|")) for e in log_s.split(" ")]
    tree = []
    for e in ([] if tree_s == "." else tree_s.split(" ")):
        f = e.split("|")
        if f[0] == "S":
            tree.append(("S", dec_str(f[1]), dec_str(f[2]), dec_str(f[3])))
        elif f[0] == "O":
            tree.append(("O", dec_str(f[1])))
        else:
            # R|text|[type|sub|msg] or ~|fallback
            text = None if f[1] == "~" else dec_str(f[1])
            if f[2] == "~":
                msg, fb = None, f[3]
            else:
                msg, fb = (dec_str(f[2][1:]), dec_str(f[3]), dec_str(f[4][:-1])), f[5]
            tree.append(("R", text, msg, None if fb == "~" else dec_str(fb)))
    return log, tree


def real_create_warning_run(fe, S, items, app=None):
    """Call the real create_warning for every W item on a fresh document, append a paragraph for every O."""
    import io
    from docutils import nodes
    from docutils.frontend import get_default_settings
    from docutils.utils import new_document
    from myst_parser.parsers.docutils_ import Parser
    from myst_parser.warnings_ import MystWarnings, create_warning
    st = get_default_settings(Parser)
    ws = io.StringIO()
    st.warning_stream = ws
    st.report_level = 1
    st.halt_level = 5
    if fe == "S":
        st.env = app.env
        app.config.suppress_warnings = list(S)
        app._warning.seek(0)
        app._warning.truncate()
    else:
        st.myst_suppress_warnings = list(S)
    doc = new_document("<src>/index.md", st)
    byval = {m.value: m for m in MystWarnings}
    for it in items:
        if it[0] == "O":
            doc += nodes.paragraph("", it[1])
            continue
        _, wtype, sub, msg, placed = it
        subtype = byval[sub] if (wtype is None and sub in byval) else sub
        ret = create_warning(doc, msg, subtype, wtype=wtype, line=1, append_to=doc if placed else None)
        assert (ret is None) or isinstance(ret, nodes.system_message)
    raw = (ANSI.sub("", app._warning.getvalue()) if fe == "S" else ws.getvalue()).splitlines()
    log = []
    for l in raw:
        t = tag_of(l)
        if t is None:
            log.append(("?", "?", l))
            continue
        body = l[: TAG.search(l).start()]
        msg = body.split("WARNING: ", 1)[1] if fe == "S" else body.split(") ", 1)[1]
        log.append((t.split(".", 1)[0], t.split(".", 1)[1], msg))
    tree = []
    for ch in doc.children:
        if isinstance(ch, nodes.system_message):
            txt = "".join(c.astext() for c in ch.children)
            t = tag_of(txt)
            tree.append(("S", t.split(".", 1)[0], t.split(".", 1)[1], txt[: TAG.search(txt).start()]))
        else:
            tree.append(("O", ch.astext()))
    return log, tree


def corr_create_warning(ctx):
    from lib.impl import SphinxProject
    from myst_parser.warnings_ import MystWarnings
    rng = ctx.rng
    vals = [m.value for m in MystWarnings]
    app = SphinxProject({"index.md": "x\n"}).build()["app"]
    cases, lines = [], []
    for i in range(ctx.budget(400, 4000, 4000)):
        items = []
        for _ in range(rng.randint(1, 6)):
            r = rng.random()
            if r < 0.3:
                items.append(("O", rng.choice(["p", "q", "text"])))
            elif r < 0.8:
                items.append(("W", None, rng.choice(vals[:6] + ["custom"]), rng.choice(["m1", "m2"]), rng.random() < 0.7))
            else:
                items.append(("W", rng.choice(["ref", "other", "myst"]), rng.choice(["footnote", "x", vals[0]]), "m3", rng.random() < 0.7))
        tags = sorted({(it[1] or "myst") + "." + it[2] for it in items if it[0] == "W"})
        pool = tags + [t.split(".")[0] for t in tags] + [t.split(".")[0] + ".*" for t in tags] + ["myst.nomatch", "ref"]
        S = rng.sample(pool, rng.randint(0, min(3, len(pool))))
        fe = "DS"[i % 2]
        cases.append((fe, S, items))
        lines.append("\t".join(["run", fe, enc_strs(S) if S else "."] + enc_items(items)))
    outs = model_run_parallel(PID, lines)
    for (fe, S, items), o in zip(cases, outs):
        try:
            r = real_create_warning_run(fe, S, items, app)
        except Exception as e:
            r = "!" + type(e).__name__ + str(e)[:100]
        m = dec_result(o) if not o.startswith("!") else o
        ctx.corr_cases += 1
        ctx.count("create_warning:" + ("docutils" if fe == "D" else "sphinx"))
        if isinstance(r, tuple) and 0 < len(r[0]) < sum(1 for it in items if it[0] == "W"):
            ctx.nontriv(("cw", fe, tuple(S), repr(items)))
        if r != m:
            if len(ctx.disagreements) < 30:
                ctx.disagree("create_warning sequence", {"kind": "cw", "fe": fe, "suppress": S, "items": [list(i) for i in items]},
                             repr(r)[:600], repr(m)[:600])
    if cases:
        ctx.sample({"create_warning_case": {"fe": cases[0][0], "suppress": cases[0][1], "items": [list(i) for i in cases[0][2]]}})


def observe_refs(text, S):
    """docutils pipeline: structure of every <reference id_link> of the document."""
    from docutils import nodes
    from lib.impl import publish
    doc, ws = publish(text, docutils_settings(S))
    out = []
    for r in doc.findall(nodes.reference):
        if not r.get("id_link"):
            continue
        text_c, msg, fb = None, None, None
        for ch in r.children:
            if isinstance(ch, nodes.system_message):
                t = tag_of(ch.astext())
                msg = (t.split(".", 1)[0], t.split(".", 1)[1])
            elif isinstance(ch, nodes.inline) and "std-ref" in ch["classes"]:
                fb = ch.astext()
            else:
                text_c = (text_c or "") + ch.astext()
        out.append(("R", text_c, msg, fb))
    return out


def corr_xref(ctx):
    rng = ctx.rng
    cases, lines = [], []
    for _ in range(ctx.budget(60, 600, 600)):
        n = rng.randint(1, 3)
        links = [(rng.choice([None, "txt", "t2"]), "miss%d" % k) for k in range(n)]
        S = rng.choice([[], ["myst.xref_missing"], ["myst"], ["myst.*"], ["myst.header"], ["ref"]])
        cases.append((links, S))
        items = [("X", None, "xref_missing", "m", t, tgt) for t, tgt in links]
        lines.append("\t".join(["run", "D", enc_strs(S) if S else "."] + enc_items(items)))
    outs = model_run_parallel(PID, lines)
    for (links, S), o in zip(cases, outs):
        text = "Intro.\n\n" + " ".join("[%s](#%s)" % (t or "", tgt) for t, tgt in links) + "\n"
        try:
            r = observe_refs(text, S)
        except Exception as e:
            r = "!" + type(e).__name__
        m = dec_result(o)[1] if not o.startswith("!") else o
        m = [("R", x[1], (x[2][0], x[2][1]) if x[2] else None, x[3]) for x in m] if isinstance(m, list) else m
        ctx.corr_cases += 1
        ctx.count("xref-missing")
        if any(t is None for t, _ in links) and S:
            ctx.nontriv(("xref", repr(links), tuple(S)))
        if r != m:
            ctx.disagree("ResolveAnchorIds missing target", {"kind": "xref", "links": links, "suppress": S}, repr(r)[:500], repr(m)[:500])


def items_from_baseline(log0, sm0):
    """Turn the warnings observed with an empty suppress list into model items (tagged ones only)."""
    items = []
    placed = [tag_of(m[2]) for m in sm0]
    for l in log0:
        t = tag_of(l)
        if t is None:
            items.append(("O", l))
            continue
        p = t in placed
        if p:
            placed.remove(t)
        items.append(("W", t.split(".", 1)[0], t.split(".", 1)[1], "m", p))
    return items


def corr_documents(ctx):
    from lib.impl import scratch_dir
    rng = ctx.rng
    with scratch_dir() as d:
        cases, lines = [], []
        for _ in range(ctx.budget(25, 250, 250)):
            ks, text = gen_doc(rng, "docutils")
            st = flag_settings(flags_of(ks))
            try:
                log0, sm0, rest0, _h = observe_docutils(text, [], st, inv_dir=d, with_html=False)
            except Exception as e:
                ctx.disagree("docutils document raised", {"kind": "doc", "fe": "docutils", "text": text, "suppress": [], "inv": True}, repr(e)[:300], "no exception")
                continue
            items = items_from_baseline(log0, sm0)
            tags = {tag_of(l) for l in log0 if tag_of(l)}
            for S in subsets_for(tags, rng, ctx.budget(6, 20, 20)):
                cases.append((text, S, st))
                lines.append("\t".join(["run", "D", enc_strs(S) if S else "."] + enc_items(items)))
        outs = model_run_parallel(PID, lines)
        for (text, S, st), o in zip(cases, outs):
            log, sm, rest, _h = observe_docutils(text, S, st, inv_dir=d, with_html=False)
            mlog, mtree = dec_result(o)
            got = (sorted(t for t in (tag_of(l) for l in log) if t), sorted(t for t in (tag_of(m[2]) for m in sm) if t))
            want = (sorted(a + "." + b for a, b, _ in mlog), sorted(x[1] + "." + x[2] for x in mtree if x[0] == "S"))
            ctx.corr_cases += 1
            ctx.count("doc:docutils")
            if got != want:
                if len(ctx.disagreements) < 30:
                    ctx.disagree("document-level suppression (tags remaining in log, tree)",
                                 {"kind": "doc", "fe": "docutils", "text": text, "suppress": S, "inv": True, "settings": st}, got, want)


def corr(ctx):
    if not ctx.have_runner:
        return
    corr_predicates(ctx)
    corr_create_warning(ctx)
    corr_xref(ctx)
    corr_documents(ctx)


# ------------------------------------------------------------------ direct oracle

KNOWN_WITNESSES = [
    {"kind": "doc", "fe": "docutils", "text": "Intro.\n\n[](#nothing)\n", "suppress": ["myst.xref_missing"]},
    {"kind": "doc", "fe": "docutils", "text": "# a\n\nText.\n\n[x]: /b\n[x]: /c\n", "suppress": ["myst.duplicate_def"],
     "settings": {"myst_heading_slug_func": None}},
]


def classify(rest0, rest, log_extra, sm_extra):
    """Signature of a metamorphic failure: what changed besides the removed warnings."""
    import difflib
    d = [l for l in difflib.unified_diff(rest0.splitlines(), rest.splitlines(), lineterm="", n=0)
         if l[:1] in "+-" and not l.startswith(("+++", "---"))]
    added = [l[1:].strip() for l in d if l.startswith("+")]
    removed = [l[1:].strip() for l in d if l.startswith("-")]
    if d and not removed and not log_extra and not sm_extra and added and all(
            a == '<inline classes="std std-ref">' or a.startswith("#") for a in added):
        return "suppress-side-effect:xref_missing:fallback-link-text"
    return None


def check_doc(ctx, case, catalogue=None):
    from lib.impl import scratch_dir
    text, S, fe = case["text"], case["suppress"], case["fe"]
    ok = True
    try:
        if fe == "docutils":
            with scratch_dir() as d:
                inv_dir = d if case.get("inv") else None
                base = case.get("_base") or observe_docutils(text, [], case.get("settings"), inv_dir=inv_dir)
                got = observe_docutils(text, S, case.get("settings"), inv_dir=inv_dir)
        else:
            base = case.get("_base") or observe_sphinx(text, [], case.get("flags", ()))
            got = case.get("_got") or observe_sphinx(text, S, case.get("flags", ()))
    except Exception as e:
        ctx.fail(f"exception:{type(e).__name__}:{fe}", _pub(case), f"building the document raised {e!r}")
        return False
    if isinstance(base[0], str) or isinstance(got[0], str):
        ctx.fail(f"exception:{fe}", _pub(case), "building the document raised", None, str(base[0])[:200] + str(got[0])[:200])
        return False
    log0, sm0, rest0, html0 = base
    log, sm, rest, html = got
    # closed catalogue: every myst.* tag is a MystWarnings value
    if catalogue is None:
        from myst_parser.warnings_ import MystWarnings
        catalogue = {"myst." + m.value for m in MystWarnings}
    for l in log0 + [m[2] for m in sm0]:
        t = tag_of(l)
        if t and t.startswith("myst.") and t not in catalogue:
            ctx.fail(f"tag-outside-catalogue:{t}", _pub(case), f"warning carries the tag [{t}] which is not a MystWarnings value", None, l)
            ok = False
        if t:
            ctx.count("tag:" + t + ":" + fe)
    elog = [l for l in log0 if not spec_matches(tag_of(l), S)]
    esm = [m for m in sm0 if not spec_matches(tag_of(m[2]), S)]
    if (log, sm, rest) == (elog, esm, rest0) and html != html0:
        # same doctree, different written output
        ok = False
        import difflib
        diff = "\n".join(list(difflib.unified_diff(html0.splitlines(), html.splitlines(), "unsuppressed", "suppressed", lineterm="", n=1))[:30])
        removed = sorted({tag_of(l) for l in log0 if spec_matches(tag_of(l), S)})
        ctx.fail(f"suppress-changes-html:{fe}:" + ",".join(removed), _pub(case),
                 f"suppress_warnings={S} changes the written HTML beyond the system messages ({fe} front end)", None, diff[:1500])
    if (log, sm, rest) != (elog, esm, rest0):
        ok = False
        log_extra = [l for l in log if l not in elog] + [l for l in elog if l not in log]
        sm_extra = [m for m in sm if m not in esm] + [m for m in esm if m not in sm]
        sig = classify(rest0, rest, log_extra, sm_extra)
        if sig is None and fe == "docutils" and any(
                (spec_matches(tag_of(m[2]), S)) for m in sm0) and _toplevel_sysmsg_suppressed(text, S, case):
            sig = "suppress-side-effect:docutils:toplevel-system-message"
        if sig is None:
            removed = sorted({tag_of(l) for l in log0 if spec_matches(tag_of(l), S)})
            part = "log" if log != elog else "system_message" if sm != esm else "tree"
            sig = f"suppress-changes-{part}:{fe}:" + ",".join(removed)
        import difflib
        diff = "\n".join(list(difflib.unified_diff(rest0.splitlines(), rest.splitlines(), "unsuppressed", "suppressed", lineterm="", n=1))[:30])
        ctx.fail(sig, _pub(case), f"suppress_warnings={S} changes more than the matching warnings ({fe} front end)",
                 {"log": elog[:10], "system_messages": esm[:10]},
                 {"log": log[:10], "system_messages": sm[:10], "tree_diff": diff[:1500]})
    removed_n = len(log0) - len(elog)
    if 0 < removed_n < len(log0):
        ctx.nontriv((fe, text, tuple(S)))
    return ok


def _toplevel_sysmsg_suppressed(text, S, case):
    st = dict(case.get("settings") or {})
    """Known finding: a suppressed warning was a direct child of the document after MyST's parse (where
    docutils' own reader transforms see it) AND the difference vanishes when docutils' DocTitle/DocInfo
    promotion is switched off."""
    from lib.impl import parse_only
    from docutils import nodes
    try:
        doc, _ = parse_only(text, docutils_settings([], st))
        if not any(isinstance(ch, nodes.system_message) and spec_matches(tag_of(ch.astext()), S) for ch in doc.children):
            return False
        off = dict(st, doctitle_xform=False, docinfo_xform=False)
        log0, sm0, rest0, _h0 = observe_docutils(text, [], off)
        log, sm, rest, _h = observe_docutils(text, S, off)
    except Exception:
        return False
    elog = [l for l in log0 if not spec_matches(tag_of(l), S)]
    esm = [m for m in sm0 if not spec_matches(tag_of(m[2]), S)]
    return (log, sm, rest) == (elog, esm, rest0)


def _pub(case):
    return {k: v for k, v in case.items() if not k.startswith("_")}


def check_case(ctx, case):
    k = case["kind"]
    if k == "doc":
        return check_doc(ctx, case)
    if k == "pred":
        from myst_parser.warnings_ import _is_suppressed_warning
        ty, sub, l = case["type"], case["subtype"], case["suppress"]
        want = spec_matches((ty + "." + sub) if ty is not None else None, l) if (ty is None or "." not in ty) else None
        got = _is_suppressed_warning(ty, sub, l)
        if want is not None and got != want:
            ctx.fail("predicate:_is_suppressed_warning", case, "MyST's suppression predicate differs from the documented rule", want, got)
            return False
        return True
    if k == "cw":
        # direct oracle for a create_warning sequence: tags remaining = those not matching S
        fe, S, items = case["fe"], case["suppress"], [tuple(i) for i in case["items"]]
        from lib.impl import SphinxProject
        app = SphinxProject({"index.md": "x\n"}).build()["app"] if fe == "S" else None
        log, tree = real_create_warning_run(fe, S, items, app)
        want = [((it[1] or "myst"), it[2]) for it in items if it[0] == "W" and not spec_matches((it[1] or "myst") + "." + it[2], S)]
        want_tree = [((it[1] or "myst"), it[2]) for it in items
                     if it[0] == "W" and it[4] and not spec_matches((it[1] or "myst") + "." + it[2], S)]
        if [(a, b) for a, b, _ in log] != want:
            ctx.fail(f"create-warning-sequence:{fe}:log", case, "log after suppression differs from the documented rule", want, log)
            return False
        got_tree = [(x[1], x[2]) for x in tree if x[0] == "S"]
        if got_tree != want_tree:
            ctx.fail(f"create-warning-sequence:{fe}:tree", case, "system_message nodes after suppression differ from the documented rule",
                     want_tree, got_tree)
            return False
        return True
    if k == "xref":
        links, S = case["links"], case["suppress"]
        text = "Intro.\n\n" + " ".join("[%s](#%s)" % (t or "", tgt) for t, tgt in links) + "\n"
        return check_doc(ctx, {"kind": "doc", "fe": "docutils", "text": text, "suppress": S})
    raise ValueError(k)


def search(ctx):
    from myst_parser.warnings_ import MystWarnings
    catalogue = {"myst." + m.value for m in MystWarnings}
    rng = ctx.rng
    # open findings are re-confirmed on every run
    for w in KNOWN_WITNESSES:
        ctx.search_cases += 1
        check_doc(ctx, dict(w), catalogue)
    for c in ctx.suspects[:100]:
        if c:
            ctx.search_cases += 1
            check_case(ctx, c)
    # docutils front end: one document per snippet first (coverage), then random combinations
    n_docs = ctx.budget(60, 450, 200)
    from lib.impl import scratch_dir
    docs = [(ks, text, True) for ks, text in coverage_docs("docutils")] + \
           [gen_doc(rng, "docutils") + (False,) for _ in range(n_docs)]
    for i, (ks, text, cov) in enumerate(docs):
        inv = any(k in DOCUTILS_ONLY for k in ks)
        st = flag_settings(flags_of(ks)) or None
        try:
            with scratch_dir() as d:
                base = observe_docutils(text, [], st, inv_dir=d if inv else None)
        except Exception as e:
            ctx.fail(f"exception:{type(e).__name__}:docutils", {"kind": "doc", "fe": "docutils", "text": text, "suppress": [], "inv": inv},
                     f"document raised {e!r}")
            continue
        tags = {tag_of(l) for l in base[0] if tag_of(l)}
        for S in subsets_for(tags, rng, ctx.budget(8, 40, 24)):
            ctx.search_cases += 1
            ctx.count("search:docutils")
            case = {"kind": "doc", "fe": "docutils", "text": text, "suppress": S, "inv": inv, "_base": base}
            if st:
                case["settings"] = st
            if i == 0 and len(S) == 1:
                ctx.sample(_pub(case))
            check_doc(ctx, case, catalogue)
    # Sphinx front end (process pool: one build per (document, S))
    jobs = [(text, flags_of(ks), True) for ks, text in coverage_docs("sphinx")]
    for i in range(ctx.budget(6, 70, 30)):
        ks, text = gen_doc(rng, "sphinx")
        jobs.append((text, flags_of(ks), False))
    from concurrent.futures import ProcessPoolExecutor
    import multiprocessing as mp
    with ProcessPoolExecutor(max_workers=min(16, os.cpu_count() or 4), mp_context=mp.get_context("fork")) as ex:
        res = list(ex.map(_observe_sphinx_job, [(t, [], fl) for t, fl, _ in jobs]))
        bases = [r[0] for r in res]
        for r in res:
            REACHED.update(tuple(x) for x in r[1])
        todo = []
        for (text, fl, cov), base in zip(jobs, bases):
            if isinstance(base[0], str):
                ctx.fail("exception:sphinx", {"kind": "doc", "fe": "sphinx", "text": text, "suppress": [], "flags": fl}, "Sphinx build raised", None, base[0])
                continue
            tags = {tag_of(l) for l in base[0] if tag_of(l)}
            for S in subsets_for(tags, rng, 3 if cov else ctx.budget(4, 10, 8)):
                todo.append((text, S, base, fl))
        res = list(ex.map(_observe_sphinx_job, [(t, S, fl) for t, S, _, fl in todo]))
        gots = [r[0] for r in res]
        for r in res:
            REACHED.update(tuple(x) for x in r[1])
    for (text, S, base, fl), got in zip(todo, gots):
        ctx.search_cases += 1
        ctx.count("search:sphinx")
        check_doc(ctx, {"kind": "doc", "fe": "sphinx", "text": text, "suppress": S, "flags": fl, "_base": base, "_got": got}, catalogue)
    seen = {k.split(":")[1] for k in ctx.counts if k.startswith("tag:")}
    dead = {"myst." + m.value for m in MystWarnings if m.name in (ctx.gen_info.get("dead_catalogue_entries") or [])}
    missing = sorted(catalogue - seen - dead)
    ctx.notes.append("catalogue tags triggered: %d of %d; dead (no emission site): %s; never triggered: %s"
                     % (len(catalogue & seen), len(catalogue), ", ".join(sorted(dead)) or "-", ", ".join(missing) or "-"))
    # ParseWarnings records that only parse_directive_text(..., validate_options=False) creates (no caller in the
    # package passes it; third-party callers do): reached through the API, their type must be a catalogue member
    from docutils.parsers.rst.directives.admonitions import Note
    from myst_parser.parsers.directives import parse_directive_text
    with site_trace():
        for content in ("---\nclass: [\n---\nbody", "---\n- a\n---\nbody"):
            ctx.search_cases += 1
            res = parse_directive_text(Note, "", content, validate_options=False)
            for pw in res.warnings:
                if "myst." + getattr(pw.type, "value", str(pw.type)) not in catalogue:
                    ctx.fail(f"tag-outside-catalogue:{pw.type}", {"kind": "api", "content": content},
                             "parse_directive_text(validate_options=False) produced a warning record whose type is not a MystWarnings member")
    tbl = site_table()
    all_sites = sorted((f, a) for f, l in tbl.items() for a, _b, _k, _fn in l)
    not_reached = [s_ for s_ in all_sites if s_ not in REACHED]
    ctx.gen_info["search_site_coverage"] = {"sites_total": len(all_sites), "sites_reached": len(all_sites) - len(not_reached),
                                            "not_reached": [f"{f}:{a}" for f, a in not_reached]}
    ctx.notes.append("emitting call sites executed by the search: %d of %d" % (len(all_sites) - len(not_reached), len(all_sites)))
    unexpected = [f"{f}:{a}" for f, a in not_reached if (f, a) not in _unreachable_sites(tbl)]
    if unexpected:
        ctx.tie_break("search-coverage", "emitting call sites of the regenerated table that no generated document executed: "
                      + ", ".join(unexpected))
    if missing:
        # the metamorphic oracle says nothing about a warning kind that no generated document triggers
        ctx.tie_break("search-coverage", "catalogue tags with an emission site that no generated document triggered: " + ", ".join(missing))


# sites that the harness cannot execute, each with the reason (reported in the evidence, not a tie-break):
# identified by (file, enclosing function, kind) so that line shifts do not matter
KNOWN_UNREACHED = {
}


def _unreachable_sites(tbl):
    out = set()
    for f, l in tbl.items():
        for a, _b, k, fn in l:
            if (f, fn, k) in KNOWN_UNREACHED:
                out.add((f, a))
    return out


def replay(ctx, data):
    w = data.get("witness")
    if not w or "kind" not in w:
        print("replay file names no concrete input:", data.get("no_longer_checks"))
        return 1
    ok = check_case(ctx, w)
    print("replay:", "property holds on this input" if ok else ctx.failures[-1])
    return 0 if ok else 1


# ------------------------------------------------------------------ final texts (MANIFEST level_claimed / level_note)
RULE = ("gen (fail-closed, every run): Gen/Warnings.v (MystWarnings members + every warning-related call site of myst_parser/**/*.py: "
        "kind, type / subtype expression, use of the returned node), Gen/WarnSrc.v (_is_suppressed_warning and create_warning "
        "translated statement by statement); correspondence: MyST's and Sphinx's suppression predicates on an exhaustive set of small "
        "(type, subtype, suppress-list) triples, sequences of real create_warning calls on a docutils document and on a document "
        "bound to a live Sphinx environment, missing '#target' links through the docutils pipeline, and document-level predictions "
        "(warnings observed under [] fed to the model, compared with the run under S); search: metamorphic oracle on both front "
        "ends - log lines, system_message nodes, pformat() without them and the written HTML without them under S = those under [] "
        "minus exactly the entries whose [type.subtype] tag matches S (type, type.subtype, type.*); every myst.* tag seen is a "
        "MystWarnings value; a coverage pass (one document per snippet) + random combinations; every emitting call site of the "
        "regenerated table must be executed (57 of 57) and every catalogue member with a site triggered (23 of 24, DIRECTIVE_BODY is "
        "dead) else a search-coverage tie-break; non-trivial = at least one warning removed and one remaining")
TRUSTED = [
    "Coq 8.16.1 kernel; statements of coq/Props/C14.v; the allow lists of coq/Cfg/Warn.v: documented_nonmyst (ref.footnote), "
    "known_dead (DIRECTIVE_BODY), exempt_files (_docs.py), docutils_level_sites (two untagged reporter.warning calls that replicate "
    "docutils' own messages), known_side_effect_sites (ResolveAnchorIds.apply)",
    "gen/c14_warnings.py (site table), gen/c14_src.py + gen/c13_pywalk.py and the domain mapping coq/Cfg/WarnSrcPrelude.v: "
    "`x is None`, `'.' in s`, s.split('.', 1), == between str and Optional[str], membership in a 3-tuple, "
    "`subtype if isinstance(subtype, str) else subtype.value`, hasattr(document.settings, 'env') as a flag, logger.warning as 'a line "
    "unless Sphinx's filter drops it', reporter.warning as 'a line and the node'; source/line/kwargs bookkeeping has no effect",
    "modelled externals: Sphinx 8.2.3 is_suppressed_warning + WarningSuppressor, docutils Reporter.warning (tied by correspondence)",
    "harness-only instrumentation inside the check's process: fault injection for the HTML-parse handler and for an unknown block "
    "token, a temporary directive creating an unreferenced auto-symbol footnote, call-stack tracing of the table sites",
]
ORACLES = {
    "O_sphinx_filter": "sphinx.util.logging.WarningSuppressor drops a record iff is_suppressed_warning(type, subtype, config.suppress_warnings): "
                       "create_warning sequences on a live Sphinx app and every Sphinx build of the search",
    "O_reporter": "docutils Reporter.warning (halt_level default) writes one line and returns the system_message node: create_warning sequences",
    "O_docutils_transforms": "NOT assumed: docutils' reader transforms after MyST (DocTitle/DocInfo/Transitions) see top-level "
                             "system_message nodes - open finding, reproduced on every run",
}
ASSUMPTIONS = ["docutils halt_level at its default (above WARNING): with a lower level reporter.warning raises and suppression changes "
               "control flow - excluded by premise",
               "Sphinx 8.2.3 as installed (its is_suppressed_warning is transcribed); report_level <= WARNING",
               "warning types are dot-free (true of every call site: C14_sites_typed)"]
LEVEL_TEXT = (
    "Proof (Coq, 18 theorems, all closed, coqchk). FULL over the call-site table REGENERATED from the package source on every run "
    "(bound = the sites present, 79 today): every warning call passes a MystWarnings member, the documented ref.footnote literal pair or a "
    "forwarded MystWarnings parameter, no call logs untyped, explicit suppression tests name catalogue tags (C14_sites_typed, "
    "C14_untagged_sites_bounded, C14_site_tags_in_catalogue), every member except the reported dead entry DIRECTIVE_BODY has an "
    "emission site (C14_catalogue_emitted). FULL dynamic: C14_suppress_exact_coupled - for all sequences of warning calls and other "
    "output, all suppress lists, both front ends: output under S = output under [] with exactly the matching log lines and "
    "system_message nodes removed, plus the one coupling of the code (fallback link text); C14_empty_suppresses_nothing, "
    "C14_frontends_agree, C14_tag_matches_meaning. SOURCE-TRANSLATION TIE: C14_source_refines_model (_is_suppressed_warning and "
    "create_warning REGENERATED statement by statement equal the model), C14_mirror_agrees_with_sphinx_src, "
    "C14_suppressed_src_meaning, C14_suppress_exact_src. Tie: regenerated table and code + differential correspondence + metamorphic "
    "search on both front ends that executes every emitting call site.")
LEVEL_NOTE = (
    "PARTIAL with refuted witnesses: C14_suppress_exact_partial (plain strip; guard: a link to a missing '#target' has explicit text) "
    "/ C14_suppress_exact_refuted and C14_result_use_benign_partial / _refuted - OPEN FINDING "
    "suppress-side-effect:xref_missing:fallback-link-text (docutils: [](#missing) shows '#missing' only when myst.xref_missing is "
    "suppressed; the reordering repair breaks a pinned fixture; also listed by C09). C14_mirror_agrees_with_sphinx_partial (dot-free "
    "types) / C14_mirror_dotted_type_refuted - unreachable, no site passes a dotted type. OPEN FINDING "
    "suppress-side-effect:docutils:toplevel-system-message (docutils' own DocTitle/DocInfo promotion and footnote transition treat a "
    "top-level system_message as content, so suppressing it changes the structure; outside the Coq model; Sphinx not affected). "
    "Premise: halt_level default. Fix commits: 5f7eafa (MathJax override warning typed as MystWarnings.MATHJAX), 20bfbed (Sphinx "
    "warning location 'x.md:N' instead of 'x.md.rst:N'). Observations: DIRECTIVE_BODY has no emission site; two untagged "
    "docutils-level reporter.warning calls (Pygments lexer error, 'Raw content disabled.'); myst.html is reachable only by fault "
    "injection since 6c06da7. Limits: docutils/Sphinx transforms are outside the model; allow lists are by file/function name.")
