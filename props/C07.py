"""C07 - the directive-option tokenizer agrees with YAML on its subset and fails only its own way."""
import itertools
import signal
import traceback

from lib import common
from lib.common import enc_str, enc_ostr, enc_strs, dec_str, model_run, model_run_parallel

PID = "C07"
RULE = ("correspondence: extracted Coq model vs options_to_items on (a) ALL strings of length <= 5 (quick) / <= 6 "
        "(thorough) over the 14 symbols a : # ' \" \\ | > - space LF TAB 1 CR, (b) printed ASTs of the supported subset "
        "(also checks model(print b) = meaning b and PyYAML(print b) = meaning b) and decorated prints (six line-break "
        "kinds, BOM, blank lines with spaces, indented comments, escaped line breaks), fixed specials (every block "
        "header form, every escape, \\x \\u \\U boundaries, embedded NUL), (c) character-level mutations of those; "
        "relation: Ok pairs + State.has_comments / TokenizeError + (index, line, column), also with line/column offsets "
        "(clone) / other exception class. search: options_to_items vs PyYAML's event stream on in-subset texts, and exception "
        "class + position-in-text + line/column = independent recomputation + offsets shift + termination on every generated string; "
        "non-trivial = text with a ':' that is not rejected at its first character, or any printed AST")
TRUSTED = ["gen/c07_src.py (fail-closed walker) translates ALL of the code of options.py that takes part in the result, statement "
           "by statement, on every run: class StreamBuffer, TokenizeError.clone, options_to_items, _to_tokens (incl. its handler), the "
           "generator _tokenize and the thirteen scanner functions. What the translation itself fixes (trusted mapping): the "
           "StreamBuffer object is represented as (index, line, column, buffer[index:]) (sb_* accessors of coq/Opt/OptSrcLib.v); "
           "`while` -> fuel loop (fuel_of stream at loop entry), `while length: ...; length -= 1` and `for` -> structural recursion; "
           "`ch in CONST` -> mem_N with the literal inlined; raise TokenizeError(msg, stream.get_position() | token.start, ...) -> "
           "Raise (TokenizeError index) (message, context and context mark dropped); tokens = kind + value + start index "
           "(KeyToken/ValueToken checked against the scanners' return statements); generators -> writer monads; marks, "
           "State.has_comments and the line/column of errors are erased from the result (they are covered by "
           "C07_mark_positions(_src), C07_clone_positions(_src), C07_has_comments_erasure)",
           "coq/Opt/YamlSpec.v (print/meaning/wf of the subset) reads YAML 1.1 correctly: validated against PyYAML on every run",
           "PyYAML 6.0.3 scanner/parser as the conforming YAML loader",
           "CPython str/int/chr semantics as modelled (int(hex,16), chr range, slicing, IndexError)"]
ORACLES = {"O_pyyaml": "PyYAML's event stream (yaml.parse, BaseLoader) is the reference reading of a text: the spec "
                       "meaning_block is compared with it on every generated AST (corr), the implementation on every "
                       "in-subset text (search)"}
ASSUMPTIONS = ["'conforming YAML loader' = PyYAML 6.0.3 with every scalar read as a string",
               "an embedded NUL is read as end of input (the code's sentinel): C07_nul_truncates; such texts fall under the totality half of the property"]

ALPHA14 = "a:#'\"\\|>- \n\t1\r"
TIMEOUT_S = 1.0   # CPU seconds of the calling process (ITIMER_VIRTUAL): robust against machine load
MAX_HANGS = 3     # per shard / per phase: stop feeding inputs once the implementation has hung this often


def gen(ctx):
    from gen import c07_consts
    info = c07_consts.run(common.REPO, common.COQ / "Gen" / "OptConsts.v", common.write_if_changed)
    ctx.gen_info["OptConsts"] = info
    # the scanner functions themselves, translated statement by statement (fail-closed walker)
    from gen import c07_src
    ctx.gen_info["OptSrc"] = c07_src.run(common.REPO, common.COQ / "Gen" / "OptSrc.v", common.write_if_changed)
    ctx.gen_info["sources"] = common.src_hashes(["myst_parser/parsers/options.py"])


# ------------------------------------------------------------------ observing the implementation

class Hang(Exception):
    pass


def _on_alarm(signum, frame):
    raise Hang()


def _site(exc):
    """Innermost options.py function on the traceback (call site class of an exception)."""
    site = "?"
    for fs in traceback.extract_tb(exc.__traceback__):
        if fs.filename.endswith("options.py"):
            site = fs.name
    return site


def impl_run(text, line_offset=0, column_offset=0):
    """('ok', pairs) | ('tok', index) | ('exc', class name, site)"""
    from myst_parser.parsers.options import TokenizeError, options_to_items
    old = signal.signal(signal.SIGVTALRM, _on_alarm)
    signal.setitimer(signal.ITIMER_VIRTUAL, TIMEOUT_S)
    try:
        try:
            items, _state = options_to_items(text, line_offset, column_offset)
            r = ("ok", [(k, v) for k, v in items], bool(_state.has_comments))
        except TokenizeError as e:
            r = ("tok", e.problem_mark.index, e.problem_mark.line, e.problem_mark.column)
        except Hang as e:
            r = ("exc", "Hang", _site(e))
        except Exception as e:  # noqa: BLE001 - the property is about *which* class escapes
            r = ("exc", type(e).__name__, _site(e))
    except Hang:
        r = ("exc", "Hang", "?")
    finally:
        signal.setitimer(signal.ITIMER_VIRTUAL, 0)
        signal.signal(signal.SIGVTALRM, old)
    return r


def show_pairs(pairs):
    return ";".join(f"{enc_str(k)}:{enc_str(v)}" for k, v in pairs)


def no_flag(o):
    """model / implementation observation without the has_comments flag"""
    return o[:-3] if o.startswith("O ") and o[-3:] in (" c0", " c1") else o


def obs_str(r):
    if r[0] == "ok":
        return "O " + show_pairs(r[1]) + (" c1" if r[2] else " c0")
    if r[0] == "tok":
        return f"!TokenizeError {r[1]} {r[2]} {r[3]}"
    return "!" + r[1]


# ------------------------------------------------------------------ PyYAML as the reference loader

class NotSubset(Exception):
    pass


def yaml_pairs(text):
    """(key, value) strings of a block mapping of untagged, unanchored scalars; NotSubset otherwise."""
    import yaml
    try:
        evs = list(yaml.parse(text, Loader=yaml.BaseLoader))
    except yaml.YAMLError as e:
        raise NotSubset("yaml error: " + type(e).__name__ + ": " + str(e).replace("\n", " ")[:120])
    names = [type(e).__name__ for e in evs]
    if names == ["StreamStartEvent", "StreamEndEvent"]:
        return [], []
    if (len(evs) < 6 or names[:3] != ["StreamStartEvent", "DocumentStartEvent", "MappingStartEvent"]
            or names[-3:] != ["MappingEndEvent", "DocumentEndEvent", "StreamEndEvent"]):
        raise NotSubset("not a single block mapping: " + ",".join(names[:6]))
    if evs[1].explicit or evs[-2].explicit or evs[2].flow_style or evs[2].anchor or evs[2].tag:
        raise NotSubset("explicit document markers / flow mapping / anchored or tagged mapping")
    sc = evs[3:-3]
    if len(sc) % 2:
        raise NotSubset("odd number of nodes")
    vals, styles = [], []
    for e in sc:
        if type(e).__name__ != "ScalarEvent" or e.anchor or e.tag:
            raise NotSubset("non-scalar / anchored / tagged node")
        vals.append(e.value)
        styles.append(e.style)
    return [(vals[i], vals[i + 1]) for i in range(0, len(vals), 2)], styles


STYLE_NAME = {None: "plain", "'": "single-quoted", '"': "double-quoted", "|": "literal", ">": "folded"}


# ------------------------------------------------------------------ the AST of coq/Opt/YamlSpec.v in Python

def okc(c):
    o = ord(c)
    return 33 <= o <= 126 or (160 <= o <= 55295 and o not in (8232, 8233))


def wsc(c):
    return c in " \t"


def txtc(c):
    return okc(c) or wsc(c)


INDICATORS = "-?:,[]{}#&*!|>'\"%@`"
YAML_ESC = "0abt\tnvfre \"/\\N_LP"
HEXD = "0123456789ABCDEFabcdef"


def wf_word(w):
    return len(w) > 0 and all(okc(c) for c in w) and w[0] != "#" and w[-1] != ":"


def wf_pline(l):
    return wf_word(l[0]) and all(n >= 1 and wf_word(w) for n, w in l[1])


def wf_pline_start(l):
    return wf_pline(l) and l[0][0] not in INDICATORS


def wf_dq_item(d):
    if d[0] == "c":
        return txtc(d[1]) and d[1] not in '"\\'
    if d[0] == "e":
        return d[1] in YAML_ESC
    if d[0] == "h":
        k, ds = d[1], d[2]
        return ((k, len(ds)) in (("x", 2), ("u", 4), ("U", 8)) and all(c in HEXD for c in ds)
                and int(ds, 16) <= 0x10FFFF)
    if d[0] == "l":   # escaped line break: blank lines (white space), indentation white space
        return all(all(wsc(c) for c in w) for w in d[1]) and all(wsc(c) for c in d[2])
    return False


def comment_ok(n, cm):
    return cm is None or (n >= 1 and all(txtc(c) for c in cm))


def wf_qmore(wf_t, ends_ws, starts_ws, first, prev, more):
    for (tws, ks, ind, t) in more:
        if ends_ws(prev) or not (first or len(prev) > 0):
            return False
        if not all(all(wsc(c) for c in w) for w in ks):
            return False
        if not (all(wsc(c) for c in tws) and ind[:1] == " " and all(wsc(c) for c in ind)):
            return False
        if not wf_t(t) or starts_ws(t):
            return False
        first, prev = False, t
    return True


def sq_ok(t):
    return all(txtc(c) for c in t)


def dq_is_ws(d):
    return d[0] == "c" and wsc(d[1])


def dq_ok(t):
    """wf_dq_line: items well-formed, an escaped line break is not followed by white space"""
    return (all(wf_dq_item(d) for d in t)
            and not any(t[i][0] == "l" and dq_is_ws(t[i + 1]) for i in range(len(t) - 1)))


def wf_flow(f):
    if f[0] == "fp":
        return wf_pline_start(f[1]) and all(ind >= 1 and wf_pline(l) for (_t, _k, ind, l) in f[2])
    if f[0] == "fs":
        return sq_ok(f[1]) and wf_qmore(sq_ok, lambda t: t[-1:] != "" and wsc(t[-1]), lambda t: t[:1] != "" and wsc(t[0]),
                                        True, f[1], f[2])
    return dq_ok(f[1]) and wf_qmore(dq_ok, lambda t: bool(t) and (dq_is_ws(t[-1]) or t[-1][0] == "l"),
                                    lambda t: bool(t) and dq_is_ws(t[0]), True, f[1], f[2])


def wf_btext(t):
    return len(t) > 0 and all(txtc(c) for c in t)


def wf_value(v):
    if v[0] == "vn":
        return comment_ok(v[1], v[2])
    if v[0] == "vf":
        return v[1] >= 1 and wf_flow(v[2]) and comment_ok(v[3], v[4])
    (_, vsp, _folded, _chomp, explicit, _cf, hsp, hcm, lead, indent, first, more) = v
    return (vsp >= 1 and comment_ok(hsp, hcm) and indent >= 1
            and (indent <= 9 if explicit else first[:1] != " ")
            and wf_btext(first) and all(all(n <= indent for n in ks) and wf_btext(t) for ks, t in more)
            and all(n <= indent for n in lead))


def wf_key(k):
    if k[0] == "kp":
        return wf_pline_start(k[1]) and k[1][0] != "..."
    if k[0] == "ks":
        return sq_ok(k[1])
    return dq_ok(k[1]) and not any(d[0] == "l" for d in k[1])


def wf_item(it):
    if it[0] == "C":
        return all(txtc(c) for c in it[2])
    (_, k, _ksp, v, trail) = it
    return wf_key(k) and wf_value(v) and (v[0] != "vb" or all(n <= v[9] for n in trail))


def eats_indent(it):
    return it[0] == "K" and ((it[3][0] == "vf" and it[3][2][0] == "fp" and it[3][4] is None) or it[3][0] == "vb")


def last_ok(it):
    return it[0] == "K" and it[3][0] in ("vn", "vf") and len(it[4]) == 0


def block_fin(b):
    return b[2] if len(b) > 2 else True


def icomment_ok(it, n):
    """an indented comment line directly after a block scalar is indented less than the scalar"""
    return not (it[0] == "K" and it[3][0] == "vb") or n < it[3][9]


def wf_block(b):
    items = b[1]
    return (all(wf_item(it) for it in items)
            and all(icomment_ok(items[i], items[i + 1][1])
                    for i in range(len(items) - 1) if items[i + 1][0] == "C" and items[i + 1][1] > 0)
            and (block_fin(b) or (len(items) > 0 and last_ok(items[-1]))))


# ---- printing (mirror of print_block; `deco` adds what the Coq AST does not have) ----

class Deco:
    """Default = exactly print_block. Other settings are used for the PyYAML comparison only."""

    def __init__(self, rng=None, nl="\n", blank_sp=0, comment_indent=0, bom=False, final_nl=True):
        self.rng, self.nl, self.blank_sp, self.comment_indent = rng, nl, blank_sp, comment_indent
        self.bom, self.final_nl = bom, final_nl

    def br(self):
        if isinstance(self.nl, str):
            return self.nl
        return self.rng.choice(self.nl)

    def blank(self, n, spaces_ok=True):
        """blank lines: a list gives the spaces of each line (AST), an int only their number"""
        if isinstance(n, (list, tuple)):
            return "".join((k if isinstance(k, str) else " " * k) + self.br() for k in n)
        out = ""
        for _ in range(n):
            k = self.rng.randint(0, self.blank_sp) if (self.blank_sp and spaces_ok) else 0
            out += " " * k + self.br()
        return out


def p_pline(l):
    return l[0] + "".join(" " * n + w for n, w in l[1])


def p_sq(t):
    return t.replace("'", "''")


def p_dq(t, d):
    out = ""
    for it in t:
        if it[0] == "c":
            out += it[1]
        elif it[0] == "e":
            out += "\\" + it[1]
        elif it[0] == "h":
            out += "\\" + it[1] + it[2]
        else:  # ("l", k, ind): escaped line break, blank lines, indentation
            out += "\\" + d.br() + d.blank(it[1]) + it[2]
    return out


def p_comment(cm):
    return "" if cm is None else "#" + cm


def p_flow(f, d):
    if f[0] == "fp":
        return p_pline(f[1]) + "".join(" " * tsp + d.br() + d.blank(k) + " " * ind + p_pline(l) for (tsp, k, ind, l) in f[2])
    if f[0] == "fs":
        return "'" + p_sq(f[1]) + "".join(tws + d.br() + d.blank(k) + ind + p_sq(t) for (tws, k, ind, t) in f[2]) + "'"
    return '"' + p_dq(f[1], d) + "".join(tws + d.br() + d.blank(k) + ind + p_dq(t, d) for (tws, k, ind, t) in f[2]) + '"'


def p_value(v, d):
    if v[0] == "vn":
        return " " * v[1] + p_comment(v[2]) + d.br()
    if v[0] == "vf":
        return " " * v[1] + p_flow(v[2], d) + " " * v[3] + p_comment(v[4]) + d.br()
    (_, vsp, folded, chomp, explicit, cf, hsp, hcm, lead, indent, first, more) = v
    ind = str(indent) if explicit else ""
    ch = ["", "-", "+"][chomp]
    hdr = (">" if folded else "|") + (ch + ind if cf else ind + ch) + " " * hsp + p_comment(hcm) + d.br()
    return (" " * vsp + hdr + d.blank(lead, False) + " " * indent + first + d.br()
            + "".join(d.blank(k, False) + " " * indent + t + d.br() for k, t in more))


def p_key(k, d):
    if k[0] == "kp":
        return p_pline(k[1])
    if k[0] == "ks":
        return "'" + p_sq(k[1]) + "'"
    return '"' + p_dq(k[1], d) + '"'


def py_print(b, d=None):
    d = d or Deco()
    out = "\ufeff" if d.bom else ""
    out += d.blank(b[0])
    prev_plain = False
    for it in b[1]:
        if it[0] == "C":
            ci = d.rng.randint(0, d.comment_indent) if d.comment_indent else it[1]
            out += " " * ci + "#" + it[2] + d.br() + d.blank(it[3])
        else:
            (_, k, ksp, v, trail) = it
            out += p_key(k, d) + " " * ksp + ":" + p_value(v, d) + d.blank(trail, v[0] != "vb")
    if not d.final_nl or not block_fin(b):
        for br in ("\r\n", "\n", "\r", "\x85", "\u2028", "\u2029"):
            if out.endswith(br):
                out = out[: -len(br)]
                break
    return out


# ---- encoding for the model runner ----

def e_nats(ns):
    return ",".join(str(n) for n in ns) if ns else "-"


def e_pline(l):
    out = [enc_str(l[0]), str(len(l[1]))]
    for n, w in l[1]:
        out += [str(n), enc_str(w)]
    return out


def e_dq(t):
    out = [str(len(t))]
    for it in t:
        if it[0] == "c":
            out += ["c", str(ord(it[1]))]
        elif it[0] == "e":
            out += ["e", str(ord(it[1]))]
        elif it[0] == "h":
            out += ["h", str(ord(it[1])), enc_str(it[2])]
        else:
            out += ["l", enc_strs(it[1]), enc_str(it[2])]
    return out


def e_flow(f):
    if f[0] == "fp":
        out = ["fp"] + e_pline(f[1]) + [str(len(f[2]))]
        for (tsp, k, ind, l) in f[2]:
            out += [str(tsp), e_nats(k), str(ind)] + e_pline(l)
        return out
    if f[0] == "fs":
        out = ["fs", enc_str(f[1]), str(len(f[2]))]
        for (tws, k, ind, t) in f[2]:
            out += [enc_str(tws), enc_strs(k), enc_str(ind), enc_str(t)]
        return out
    out = ["fd"] + e_dq(f[1]) + [str(len(f[2]))]
    for (tws, k, ind, t) in f[2]:
        out += [enc_str(tws), enc_strs(k), enc_str(ind)] + e_dq(t)
    return out


def e_value(v):
    if v[0] == "vn":
        return ["vn", str(v[1]), enc_ostr(v[2])]
    if v[0] == "vf":
        return ["vf", str(v[1])] + e_flow(v[2]) + [str(v[3]), enc_ostr(v[4])]
    (_, vsp, folded, chomp, explicit, cf, hsp, hcm, lead, indent, first, more) = v
    out = ["vb", str(vsp), "1" if folded else "0", str(chomp), "1" if explicit else "0", "1" if cf else "0",
           str(hsp), enc_ostr(hcm), e_nats(lead), str(indent), enc_str(first), str(len(more))]
    for k, t in more:
        out += [e_nats(k), enc_str(t)]
    return out


def e_key(k):
    if k[0] == "kp":
        return ["kp"] + e_pline(k[1])
    if k[0] == "ks":
        return ["ks", enc_str(k[1])]
    return ["kd"] + e_dq(k[1])


def enc_block(b):
    out = [e_nats(b[0]), "1" if block_fin(b) else "0", str(len(b[1]))]
    for it in b[1]:
        if it[0] == "C":
            out += ["C", str(it[1]), enc_str(it[2]), e_nats(it[3])]
        else:
            out += ["K"] + e_key(it[1]) + [str(it[2])] + e_value(it[3]) + [e_nats(it[4])]
    return out


# ---- random ASTs ----

WORD_POOL = list("abcxyzABZ019_.,;()[]{}=+-*/\\&%$!?<>|^~@`#:'\"") + ["\u00e9", "\u00a0", "\u2027", "\ud7ff", "\u3042"]
TXT_POOL = WORD_POOL + [" ", " ", " ", "\t"]


def g_small(rng, hi=3):
    return rng.choice([0, 0, 0, 1, 1, 2, hi])


def g_word(rng, start=False):
    for _ in range(50):
        w = "".join(rng.choice(WORD_POOL if rng.random() < 0.5 else "abcde:#-") for _ in range(rng.choice([1, 1, 2, 3, 5])))
        if wf_word(w) and not (start and w[0] in INDICATORS) and w != "...":
            return w
    return "w"


def g_pline(rng, start=False):
    return (g_word(rng, start), [(rng.choice([1, 1, 1, 2, 4]), g_word(rng)) for _ in range(g_small(rng))])


def g_comment(rng):
    return "".join(rng.choice(TXT_POOL) for _ in range(rng.randint(0, 5)))


def g_ocomment(rng):
    return g_comment(rng) if rng.random() < 0.25 else None


def g_sqtext(rng, n=None):
    n = rng.randint(0, 5) if n is None else n
    return "".join(rng.choice(TXT_POOL + ["'"] * 4) for _ in range(n))


def g_dqitem(rng):
    r = rng.random()
    if r < 0.6:
        c = rng.choice(TXT_POOL)
        return ("c", c) if c not in '"\\' else ("e", c)
    if r < 0.85:
        return ("e", rng.choice(YAML_ESC))
    k, n = rng.choice([("x", 2), ("u", 4), ("U", 8)])
    if k == "U":
        v = rng.choice([0, 0x41, 0x10FFFF, 0x10000, 0xD800, 0xFFFF, rng.randint(0, 0x10FFFF)])
    else:
        v = rng.choice([0, 0x41, 16 ** n - 1, rng.randint(0, 16 ** n - 1)])
    ds = ("%0" + str(n) + rng.choice("xX")) % v
    return ("h", k, ds)


def g_dqtext(rng, n=None, brk=True):
    n = rng.randint(0, 5) if n is None else n
    t = [g_dqitem(rng) for _ in range(n)]
    if brk and rng.random() < 0.3:      # an escaped line break, not followed by white space
        i = rng.randint(0, len(t))
        while i < len(t) and dq_is_ws(t[i]):
            i += 1
        t.insert(i, ("l", g_wblanks(rng), g_ws(rng)))
    return t


def g_ws(rng, lo=0):
    return "".join(rng.choice(" \t") for _ in range(rng.randint(lo, 2)))


def g_wblanks(rng):
    """blank lines inside quoted scalars: white space strings"""
    return [g_ws(rng) if rng.random() < 0.4 else "" for _ in range(g_small(rng, 2))]


def g_qmore(rng, gtext, strip_l, strip_r, l0, fallback):
    """continuation lines of a quoted scalar, fixing up l0/t so that wf holds:
    lines before a break do not end in white space, middle lines are non-empty"""
    n = rng.choice([0, 0, 0, 1, 2, 3])
    if n == 0:
        return l0, []
    l0 = strip_r(l0)
    more = []
    for i in range(n):
        t = strip_l(gtext(rng))
        if i < n - 1:
            t = strip_r(t)
            if len(t) == 0:
                t = fallback
        more.append((g_ws(rng), g_wblanks(rng), " " + g_ws(rng), t))
    return l0, more


def _sl(t):
    return t.lstrip(" \t")


def _sr(t):
    return t.rstrip(" \t")


def _dl(t):
    while t and t[0][0] == "c" and wsc(t[0][1]):
        t = t[1:]
    return t


def _dr(t):
    while t and (dq_is_ws(t[-1]) or t[-1][0] == "l"):
        t = t[:-1]
    return t


def g_blanks(rng, hi=2, mx=3):
    """blank lines as a list of space counts (each at most mx)"""
    return [rng.choice([0, 0, 0, 1, 2, 3][: mx + 3] if mx >= 3 else list(range(mx + 1)) + [0, 0])
            for _ in range(g_small(rng, hi))]


def g_flow(rng):
    r = rng.random()
    if r < 0.4:
        l0 = g_pline(rng, True)
        more = [(g_small(rng, 2), g_blanks(rng), rng.choice([1, 1, 2, 4]), g_pline(rng)) for _ in range(rng.choice([0, 0, 0, 1, 2]))]
        return ("fp", l0, more)
    if r < 0.7:
        l0, more = g_qmore(rng, g_sqtext, _sl, _sr, g_sqtext(rng), "x")
        return ("fs", l0, more)
    l0, more = g_qmore(rng, g_dqtext, _dl, _dr, g_dqtext(rng), [("c", "x")])
    return ("fd", l0, more)


def g_btext(rng, first_auto=False):
    for _ in range(50):
        t = "".join(rng.choice(TXT_POOL) for _ in range(rng.randint(1, 5)))
        if not (first_auto and t[0] == " "):
            return t
    return "t"


def g_value(rng):
    r = rng.random()
    if r < 0.12:
        cm = g_ocomment(rng)
        return ("vn", rng.choice([1, 2]) if cm is not None else g_small(rng), cm)
    if r < 0.62:
        cm = g_ocomment(rng)
        return ("vf", rng.choice([1, 1, 1, 2, 3]), g_flow(rng), rng.choice([1, 2]) if cm is not None else g_small(rng), cm)
    explicit = rng.random() < 0.4
    indent = rng.choice([1, 1, 2, 3, 4, 9]) if explicit else rng.choice([1, 2, 2, 3, 4, 6])
    hcm = g_ocomment(rng)
    more = [(g_blanks(rng, 2, indent), g_btext(rng)) for _ in range(rng.choice([0, 0, 1, 2, 3, 4]))]
    return ("vb", rng.choice([1, 1, 2]), rng.random() < 0.5, rng.choice([0, 1, 2]), explicit, rng.random() < 0.5,
            rng.choice([1, 2]) if hcm is not None else g_small(rng), hcm, g_blanks(rng, 2, indent), indent,
            g_btext(rng, not explicit), more)


def g_key(rng):
    r = rng.random()
    if r < 0.7:
        return ("kp", g_pline(rng, True))
    if r < 0.85:
        return ("ks", g_sqtext(rng))
    return ("kd", g_dqtext(rng, brk=False))


def g_item(rng):
    if rng.random() < 0.2:
        return ("C", rng.choice([0, 0, 1, 2, 4]), g_comment(rng), g_blanks(rng))
    v = g_value(rng)
    return ("K", g_key(rng), g_small(rng, 2), v, g_blanks(rng, 2, v[9] if v[0] == "vb" else 3))


def g_block(rng):
    items = [g_item(rng) for _ in range(rng.choice([0, 1, 1, 2, 2, 3, 4]))]
    # a comment line directly after a block scalar is indented less than the scalar (else it is content)
    for i in range(len(items) - 1):
        if items[i + 1][0] == "C" and not icomment_ok(items[i], items[i + 1][1]):
            items[i + 1] = ("C", rng.randrange(items[i][3][9])) + items[i + 1][2:]
    fin = True
    if items and last_ok(items[-1][:4] + ([],)) and rng.random() < 0.3:
        items[-1] = items[-1][:4] + ([],)
        fin = False
    return (g_blanks(rng), items, fin)


def g_block_pyonly(rng, b):
    """add escaped line breaks inside double-quoted values (not in the Coq AST)"""
    items = []
    for it in b[1]:
        if it[0] == "K" and it[3][0] == "vf" and it[3][2][0] == "fd" and rng.random() < 0.7:
            f = it[3][2]
            l0 = list(f[1])
            l0.insert(rng.randint(0, len(l0)), ("l", g_wblanks(rng), " " * rng.randint(1, 3)))
            it = (it[0], it[1], it[2], (it[3][0], it[3][1], ("fd", l0, f[2]), it[3][3], it[3][4]), it[4])
        items.append(it)
    return (b[0], items) + tuple(b[2:])


NL_KINDS = ["\n", "\r\n", "\r", "\x85", "\u2028", "\u2029"]


def g_deco(rng):
    r = rng.random()
    nl = rng.choice(NL_KINDS) if r < 0.6 else (NL_KINDS if r < 0.8 else "\n")
    return Deco(rng, nl=nl, blank_sp=rng.choice([0, 0, 3]), comment_indent=rng.choice([0, 0, 3]),
                bom=rng.random() < 0.15, final_nl=rng.random() < 0.7)


# ------------------------------------------------------------------ fixed special texts

def specials():
    out = []
    # every block-scalar header form, with different bodies
    bodies = ["  x\n  y\n", " x\n\n y\n\n\n", "   x\n    y\n  z\n", "\n\n  x\n", "x\n", "", "  x", "\tx\n", "  x\n \n  y\n",
              "  x\n   y\n  z\n\n", "   \n  x\n"]
    for style in "|>":
        for ch in ("", "+", "-"):
            for ind in [""] + [str(i) for i in range(10)]:
                for hdr in {style + ch + ind, style + ind + ch}:
                    for tail in ("", " ", " # c", "# c", " x", "\t"):
                        for body in bodies[:4] if tail else bodies:
                            out.append("a: " + hdr + tail + "\n" + body + "b: c\n")
                            out.append("a: " + hdr + tail + "\n" + body)
        out += ["a: " + style + "++\n x\n", "a: " + style + "12\n x\n", "a: " + style + "-+\n x\n", "a: " + style,
                "a: " + style + "\n", "a: " + style + "2", "k: " + style + "\n  a\n\n  b\n   c\n\n   d\n  e\n \n  f\n\n"]
    # every escape character (ASCII + a few others), in keys and values
    for c in [chr(i) for i in range(0, 128)] + ["\x85", "\xa0", "\u2028", "\u2029", "\ufeff", "\u00e9"]:
        out.append('a: "x\\' + c + 'y"\n')
        out.append('"\\' + c + '": v\n')
        out.append("a: 'x\\" + c + "y'\n")
    # hex escapes: lengths, non-hex digits, boundaries of chr()
    for k, n in (("x", 2), ("u", 4), ("U", 8)):
        for ds in ["", "0", "0" * (n - 1), "0" * n, "f" * n, "F" * n, "0" * (n - 1) + "g", "g" + "0" * (n - 1), "4" * (n + 1),
                   "0" * (n - 1) + '"', "0" * (n - 2) + "\n0", " " + "0" * (n - 1), "+" + "1" * (n - 1), "_" * n,
                   "\uff11" * n, "0x" + "1" * (n - 2) if n > 2 else "0x"]:
            out.append('a: "\\' + k + ds + '"\n')
            out.append('a: "\\' + k + ds)
    for ds in ["0010FFFF", "00110000", "0010ffff", "7FFFFFFF", "80000000", "FFFFFFFF", "0000D800", "0000DFFF", "0000FFFF",
               "00010000", "00000000", "000000e9", "ffffffff", "00110001", "10000000"]:
        out.append('a: "\\U' + ds + '"\n')
        out.append('"\\U' + ds + '": x\n')
        out.append('a: "pre \\U' + ds + ' post"\nb: c\n')
    out += ['a: "\\uD800\\uDC00"\n', 'a: "\\ud83d\\ude00"\n', 'a: "\\xff\\x00"\n']
    # line-break kinds everywhere
    for nl in NL_KINDS + ["\n\r", "\r\r\n", "\x85\n"]:
        out += ["a: b" + nl + "c: d" + nl, "a: b" + nl + " c" + nl + nl + " d" + nl, "a: 'b" + nl + " c'" + nl,
                'a: "b' + nl + nl + ' c\\' + nl + ' d"' + nl, "a: |" + nl + " x" + nl + nl + " y" + nl,
                "a: >" + nl + " x" + nl + " y" + nl + nl + "  z" + nl, "# c" + nl + "a: b #d" + nl, "a:" + nl + " b" + nl,
                "a: |+" + nl + " x" + nl + nl, "a" + nl + ": b", "a: b" + nl + nl + nl + "c: d", nl, nl + nl + "a: b"]
    # BOM at different places
    out += ["\ufeff", "\ufeffa: b", "\ufeff\ufeffa: b", "a: \ufeffb", "a:\ufeff b", "\n\ufeffa: b", "a\ufeff: b", "\ufeff# c\na: b",
            "\ufeff a: b", "a: |\n \ufeffx\n", "a: |\n\ufeff x\n", "a: b\n\ufeff", "\ufeff\n\ufeff\na: b", "a: '\ufeff'", " \ufeff", "\ufeff:"]
    # embedded NUL
    for base in ["a: b\nc: d\n", "a: 'b c'\n", 'a: "b\\n c"\n', "a: |\n  x\n  y\n", "a: >-\n  x\n\n  y\n", "a: b\n c\n"]:
        for i in range(len(base) + 1):
            out.append(base[:i] + "\0" + base[i:])
    out += ["\0", "\0\0", "a\0", "a:\0", "a: \0", "a: '\0", 'a: "\\\0"', "a: |\0", "a: |\n\0", "a: |\n \0x"]
    # assorted structure
    out += ["", " ", "\n", "#", "a", "a:", ":", ": ", ":a", "a: b: c", "a : b", "a  :  b  ", "a:b", "a:b: c", "a: b #c", "a: b#c",
            "a: #c", "a:#c", "a #c: d", "#c\n#d\na: b", "a: b\n# c\n  # d\nb: c", "a:\n  b", "a:\n\n  b\n  c\nd: e", " a: b",
            "a: b\n c: d", "a: b\n  c\n   d\ne: f", "a: b\n\n\n  c", "'a': 'b'", "'a'", "'a' : b", "'a", '"a', "'a'b: c", "'a''b': c",
            "a: 'b''c'", "a: ''", "a: ''''", "a: '''", 'a: ""', "a: 'b' c", "a: 'b'\n c", "a: 'b\n\n c\n  d '", "a: ' b '", "a: '\tb\t'",
            "a: '  \n  b'", "a: 'b  \n\n'", 'a: "\\\n"', 'a: "b \\\n  c"', 'a: "\\', 'a: "\\"', "a: |\nb: c", "a: |\n\nb: c", "a: >\n x\n\n\n y\n",
            "a: >\n x\n  y\n z\n", "a: >\n  x\n y\n", "a: |1\n  x\n", "a: |2\n x\n", "a: |\n x\ny", "a: |\n x\n# c\nb: d", "a: | b", "a: |#",
            "a: |\n  x\n \n\n", "a: |+\n\n\n", "a: |-\n\n\n", "a: |\n\n\n", "a: >\n \n  x\n", "a: |\n   \n  x\n", "a: -", "a: - b", "a: [b]",
            "a: {b: c}", "a: &x b", "a: *x", "a: !t b", "? a\n: b", "- a", "---\na: b", "a: b\n...\n", "a: b\n---\n", "%a: b", "a:\tb", "a: b\tc",
            "a\t: b", "\ta: b", "a: b\n\tc", "a:\n\tb", "a: \tb", "a: 'b'\t#c", "k1: v1\nk2: v2\nk1: v3\n", "a: " + "b" * 300, "a" * 300 + ": b",
            "a: " + " ".join(["w"] * 100), "\n" * 50 + "a: b" + "\n" * 50, "a: |\n" + " x\n" * 60, "a: '" + "''" * 50 + "'"]
    return list(dict.fromkeys(out))


MUT_POOL = list("a:#'\"\\|>-+ \n\t1\r0") + ["\x85", "\u2028", "\ufeff", "\0", "x", "U", "u"]


def mutate(rng, t):
    for _ in range(rng.choice([1, 1, 2, 3])):
        r = rng.random()
        i = rng.randint(0, len(t))
        if r < 0.35 and t:
            i = min(i, len(t) - 1)
            t = t[:i] + t[i + 1:]
        elif r < 0.7:
            t = t[:i] + rng.choice(MUT_POOL) + t[i:]
        elif t:
            i = min(i, len(t) - 1)
            t = t[:i] + rng.choice(MUT_POOL) + t[i + 1:]
    return t


# ------------------------------------------------------------------ exhaustive strings, sharded

def shard_words(alpha, maxlen, shard):
    """shard = '' for all words shorter than 2, else a 2-symbol prefix"""
    if shard == "":
        return [""] + list(alpha) if maxlen >= 1 else [""]
    out = []
    for k in range(0, maxlen - 1):
        for tpl in itertools.product(alpha, repeat=k):
            out.append(shard + "".join(tpl))
    return out


def shards(alpha, maxlen):
    if maxlen < 2:
        return [""]
    return [""] + [a + b for a in alpha for b in alpha]


def _corr_shard(args):
    maxlen, shard = args
    words = shard_words(ALPHA14, maxlen, shard)
    outs = model_run(PID, ["tok\t" + enc_str(w) for w in words])
    counts = {"ok": 0, "ok-nonempty": 0, "tokenize-error": 0, "other-exception": 0}
    dis, nontriv, hangs = [], 0, 0
    for w, o in zip(words, outs):
        if hangs >= MAX_HANGS:
            break
        r = impl_run(w)
        s = obs_str(r)
        if s == "!Hang":
            hangs += 1
        if r[0] == "ok":
            counts["ok"] += 1
            if r[1]:
                counts["ok-nonempty"] += 1
                nontriv += 1
        elif r[0] == "tok":
            counts["tokenize-error"] += 1
            if r[1] > 0 and ":" in w:
                nontriv += 1
        else:
            counts["other-exception"] += 1
        if s != o and len(dis) < 5:
            dis.append((w, s, o))
    return len(words), counts, dis, nontriv


def _search_shard(args):
    maxlen, shard = args
    words = shard_words(ALPHA14, maxlen, shard)
    bad, hangs = [], 0
    for w in words:
        if hangs >= MAX_HANGS:
            break
        r = impl_run(w)
        if r[0] == "exc" and r[1] == "Hang":
            hangs += 1
        v = violates_totality(w, r)
        if v and len(bad) < 5:
            bad.append((w,) + v)
    return len(words), bad


def pool_map(fn, jobs):
    import multiprocessing as mp
    ctxm = mp.get_context("fork")
    with ctxm.Pool(min(16, max(1, len(jobs)))) as pool:
        return pool.map(fn, jobs, chunksize=1)


# ------------------------------------------------------------------ correspondence

def text_stream(ctx):
    """(text, label) of the non-exhaustive correspondence inputs (b) and (c)."""
    rng = ctx.rng
    for t in specials():
        yield t, "special"
    blocks = []
    for _ in range(ctx.budget(3000, 30000, 30000)):
        b = g_block(rng)
        blocks.append(b)
        yield py_print(b), "printed-ast"
    for i in range(ctx.budget(3000, 30000, 30000)):
        b = blocks[i % len(blocks)]
        if rng.random() < 0.5:
            b = g_block_pyonly(rng, b)
        yield py_print(b, g_deco(rng)), "decorated"
    base = specials()
    for i in range(ctx.budget(6000, 80000, 80000)):
        src = py_print(blocks[rng.randrange(len(blocks))]) if rng.random() < 0.6 else rng.choice(base)
        yield mutate(rng, src), "mutated"
    for _ in range(ctx.budget(2000, 30000, 30000)):
        yield "".join(rng.choice(MUT_POOL) for _ in range(rng.randint(0, 14))), "random"


def corr(ctx):
    if not ctx.have_runner:
        return
    # (a) exhaustive
    maxlen = ctx.budget(5, 6, 6)
    res = pool_map(_corr_shard, [(maxlen, s) for s in shards(ALPHA14, maxlen)])
    for n, counts, dis, nontriv in res:
        ctx.corr_cases += n
        for k, v in counts.items():
            ctx.count("exhaustive:" + k, v)
        ctx.count("nontrivial-exhaustive", nontriv)
        for (w, s, o) in dis:
            if len(ctx.disagreements) < 40:
                ctx.disagree("options_to_items vs model (exhaustive)", {"kind": "text", "text": w, "subset": False}, s, o)
    ctx.notes.append(f"exhaustive: all strings of length <= {maxlen} over {ALPHA14!r}")
    # (b) ASTs through print_block / meaning_block / wf_block
    rng = ctx.rng
    blocks = [g_block(rng) for _ in range(ctx.budget(4000, 40000, 40000))]
    outs = model_run_parallel(PID, ["spec\t" + "\t".join(enc_block(b)) for b in blocks])
    n_wf = 0
    hangs = 0
    for b, o in zip(blocks, outs):
        if hangs >= MAX_HANGS:
            break
        ctx.corr_cases += 1
        if o.startswith("!"):
            ctx.disagree("spec runner failed", {"kind": "ast", "ast": b}, "", o)
            continue
        wf, text_f, pairs, mres = o.split("|")
        text = dec_str(text_f)
        case = {"kind": "text", "text": text, "subset": wf == "1"}
        if (wf == "1") != wf_block(b):
            ctx.disagree("wf_block (Coq) vs its Python mirror", case, wf_block(b), wf)
        if text != py_print(b):
            ctx.disagree("print_block (Coq) vs its Python mirror", case, py_print(b), text)
        r = obs_str(impl_run(text))
        hangs += r == "!Hang"
        if r != mres:
            ctx.disagree("options_to_items vs model (printed AST)", case, r, mres)
        if wf == "1":
            n_wf += 1
            ctx.nontriv(text)
            if no_flag(mres) != "O " + pairs:
                ctx.disagree("model: options_to_items (print_block b) <> Ok (meaning_block b) on a wf block", case, "O " + pairs, mres)
            try:
                yp, styles = yaml_pairs(text)
                for st in styles:
                    ctx.count("ast-scalar:" + STYLE_NAME.get(st, str(st)))
                if show_pairs(yp) != pairs:
                    ctx.disagree("spec: meaning_block b <> PyYAML (print_block b)", case, "O " + show_pairs(yp), "O " + pairs)
            except NotSubset as e:
                ctx.disagree("spec: PyYAML rejects print_block b of a wf block", case, str(e), "O " + pairs)
        if ctx.corr_cases % 997 == 0:
            ctx.sample({"printed_ast": text, "meaning": pairs})
    ctx.count("ast:wf", n_wf)
    ctx.count("ast:not-wf", len(blocks) - n_wf)
    if hangs < MAX_HANGS and n_wf < len(blocks) * 0.9:
        ctx.disagree("AST generator produces too few wf blocks", {"kind": "none"}, n_wf, len(blocks))
    # (b)+(c) texts
    cases = list(dict.fromkeys(text_stream(ctx)))
    outs = model_run_parallel(PID, ["tok\t" + enc_str(t) for t, _ in cases])
    hangs = 0
    for (t, label), o in zip(cases, outs):
        if hangs >= 4 * MAX_HANGS:
            break
        ctx.corr_cases += 1
        r = impl_run(t)
        s = obs_str(r)
        hangs += s == "!Hang"
        ctx.count(label + ":" + ("ok" if r[0] == "ok" else "tokenize-error" if r[0] == "tok" else "other-exception"))
        if r[0] == "ok" and r[1]:
            ctx.nontriv(t)
        if s != o:
            ctx.disagree(f"options_to_items vs model ({label})", {"kind": "text", "text": t, "subset": False}, s, o)
    # TokenizeError.clone: the same texts with line / column offsets
    errs = [t for (t, _), o in zip(cases, outs) if o.startswith("!TokenizeError")][: ctx.budget(4000, 40000, 40000)]
    outs2 = model_run_parallel(PID, ["tokm\t7\t5\t" + enc_str(t) for t in errs])
    for t, o in zip(errs, outs2):
        ctx.corr_cases += 1
        s = obs_str(impl_run(t, 7, 5))
        if s == "!Hang":
            break
        ctx.count("clone:" + ("same" if s == o else "different"))
        if s != o:
            ctx.disagree("options_to_items with offsets vs model (clone)", {"kind": "text", "text": t, "subset": False}, s, o)
    if cases:
        ctx.sample({"text": cases[len(cases) // 2][0]})


# ------------------------------------------------------------------ direct property oracle

def py_linecol(text, p):
    """(line, column) of index p: line breaks are LF, NEL, LS, PS and a CR not followed by LF;
    the byte order mark does not count as a column."""
    buf = text + "\0"
    line = col = 0
    for i in range(p):
        ch = buf[i]
        if ch in "\n\x85\u2028\u2029" or (ch == "\r" and buf[i + 1] != "\n"):
            line, col = line + 1, 0
        elif ch != "\ufeff":
            col += 1
    return line, col


def violates_totality(text, r):
    """None or (signature, what)"""
    if r[0] == "exc":
        if r[1] == "Hang":
            return (f"nontermination:{r[2]}", f"options_to_items did not return within {TIMEOUT_S}s")
        return (f"exception:{r[1]}:{r[2]}", f"options_to_items raised {r[1]} (not TokenizeError) in {r[2]}")
    if r[0] == "tok":
        if not (isinstance(r[1], int) and 0 <= r[1] <= len(text)):
            return ("position:outside-text", f"TokenizeError position index {r[1]} outside the text of length {len(text)}")
        if (r[2], r[3]) != py_linecol(text, r[1]):
            return ("position:line-column", f"TokenizeError mark (line {r[2]}, column {r[3]}) is not the line/column "
                                            f"{py_linecol(text, r[1])} of index {r[1]}")
    return None


def too_many_hangs(ctx):
    return sum(1 for f in ctx.failures if f["signature"].startswith("nontermination")) >= 2 * MAX_HANGS


def check_text(ctx, text, subset, offsets=True):
    if too_many_hangs(ctx):
        return True
    r = impl_run(text)
    v = violates_totality(text, r)
    case = {"kind": "text", "text": text, "subset": subset}
    if v:
        ctx.fail(v[0], case, v[1] + f" on {text!r}", expected="pairs or TokenizeError with 0 <= index <= len(text)", observed=obs_str(r))
        return False
    if offsets:
        r2 = impl_run(text, 3, 2)
        if (r2[0], r2[1]) != (r[0], r[1]) or (r[0] == "tok" and (r2[2], r2[3]) != (r[2] + 3, r[3] + 2)):
            ctx.fail("offsets:clone", case, f"line/column offsets (3, 2) do not shift the error mark by exactly (3, 2) on {text!r}",
                     expected=obs_str(r), observed=obs_str(r2))
            return False
    if subset:
        try:
            yp, styles = yaml_pairs(text)
        except NotSubset as e:
            ctx.count("oracle-reject")
            ctx.oracle_rejects = getattr(ctx, "oracle_rejects", []) + [(text, str(e))]
            return True
        if r[0] != "ok" or r[1] != yp:
            fam = "structure"
            if r[0] == "ok" and len(r[1]) == len(yp):
                for i, (a, b) in enumerate(zip(r[1], yp)):
                    if a[0] != b[0]:
                        fam = "key-" + STYLE_NAME.get(styles[2 * i], "?")
                        break
                    if a[1] != b[1]:
                        fam = "value-" + STYLE_NAME.get(styles[2 * i + 1], "?")
                        break
            elif r[0] == "tok":
                fam = "rejected"
            ctx.fail("yaml-agree:" + fam, case, f"options_to_items differs from the YAML loader on in-subset text {text!r}",
                     expected="O " + show_pairs(yp), observed=obs_str(r))
            return False
    return True


def search(ctx):
    for c in ctx.suspects[:300]:
        if c and c.get("kind") == "text":
            ctx.search_cases += 1
            check_text(ctx, c["text"], c.get("subset", False))
    # exception class / position / termination on all short strings
    maxlen = ctx.budget(5, 6, 6)
    if not ctx.deep or ctx.tier == "thorough":
        for n, bad in pool_map(_search_shard, [(maxlen, s) for s in shards(ALPHA14, maxlen)]):
            ctx.search_cases += n
            for (w, sig, what) in bad:
                if len(ctx.failures) < 40:
                    ctx.fail(sig, {"kind": "text", "text": w, "subset": False}, what + f" on {w!r}")
    for t in specials():
        ctx.search_cases += 1
        check_text(ctx, t, False)
    rng = ctx.rng
    n_sub = ctx.budget(6000, 60000, 120000)
    blocks = []
    for i in range(n_sub):
        b = g_block(rng)
        if not wf_block(b):
            continue
        blocks.append(b)
        ctx.search_cases += 1
        if i % 2 == 0:
            t = py_print(b)
        else:
            t = py_print(g_block_pyonly(rng, b) if rng.random() < 0.5 else b, g_deco(rng))
        ctx.count("search:in-subset")
        if i == 3:
            ctx.sample({"in_subset_text": t})
        check_text(ctx, t, True)
        if len(ctx.failures) > 60:
            break
    base = specials()
    for i in range(ctx.budget(6000, 80000, 160000)):
        src = py_print(blocks[rng.randrange(len(blocks))]) if (blocks and rng.random() < 0.6) else rng.choice(base)
        ctx.search_cases += 1
        check_text(ctx, mutate(rng, src), False, offsets=(i % 8 == 0))
        if len(ctx.failures) > 60:
            break
    rej = getattr(ctx, "oracle_rejects", [])
    if rej:
        ctx.tie_break("search", f"PyYAML does not read {len(rej)} generated in-subset text(s) as a block mapping of plain scalars, "
                                f"e.g. {rej[0][0]!r}: {rej[0][1]}")
        ctx.oracle_rejects = []


def replay(ctx, data):
    w = data.get("witness")
    if not w or w.get("kind") != "text":
        print("replay file names no concrete input:", data.get("no_longer_checks"))
        return 1
    ok = check_text(ctx, w["text"], w.get("subset", False))
    print("replay:", "property holds on this input" if ok and not ctx.failures else ctx.failures[-1])
    return 0 if ok and not ctx.failures else 1


LEVEL_TEXT = ("Proof (Coq, 30 theorems, all closed under the global context): for EVERY string (no premise) the model of "
              "options_to_items terminates within its fuel, never indexes outside the buffer and returns pairs or raises TokenizeError "
              "with an index inside the text - never IndexError/ValueError/OverflowError (C07_terminates, C07_in_bounds, "
              "C07_only_tokenize_error; for the code as repaired by the fix: commit, C07_unguarded_chr_refuted keeps the old behaviour "
              "visible); whatever follows an embedded NUL is never read (C07_nul_truncates); StreamBuffer keeps (index, line, column) = "
              "the line/column of the index under the recognised line breaks, and TokenizeError.clone shifts line and column by the "
              "offsets only (C07_mark_positions, C07_clone_positions); State.has_comments never influences pairs or errors "
              "(C07_has_comments_erasure); and for EVERY well-formed block of the supported YAML subset (AST with print/meaning/wf in "
              "coq/Opt/YamlSpec.v: plain, single-quoted, double-quoted incl. all escapes, \\x \\u \\U and escaped line breaks, multi-line "
              "folding, literal and folded block scalars with every header form, comment lines with indentation - also directly after a "
              "multi-line plain value or a block scalar -, blank lines with spaces, optional final line break) tokenize(print b) = "
              "Ok(meaning b) (C07_yaml_agree, composed from per-family theorems; C07_final_newline_optional), also when every LF is "
              "printed as CR LF, as CR or as NEL (C07_yaml_agree_crlf/_cr/_nel; in general a successful result does not depend on "
              "which ONE of LF / CR LF / CR / NEL a text without CR uses: C07_line_breaks_transparent; mixing kinds in one text is "
              "not transparent, C07_mixed_breaks_refuted: CR + LF is one break). "
              "The code itself is the subject: options_to_items_full is the Gallina term that gen/c07_src.py translates from "
              "options.py on every run - options_to_items, _to_tokens, _tokenize, the thirteen _scan_* functions and the class "
              "StreamBuffer they call - and every translated function is proved equal to its hand-written counterpart, so "
              "options_to_items_full = options_to_items for every text (C07_src_refines) and the theorems hold for the translated "
              "code (C07_terminates_src, C07_in_bounds_src, C07_only_tokenize_error_src, C07_yaml_agree_src, C07_nul_truncates_src, "
              "C07_streambuffer_src, C07_mark_positions_src, C07_clone_positions_src): an edit of any of these functions breaks the "
              "translation or a refinement proof. In addition the hand model is tied to the running code by differential "
              "correspondence (pairs + has_comments / TokenizeError with index, line, column, also with offsets / exception class): "
              "all strings up to length 5/6 over 14 YAML-significant symbols, printed ASTs, decorated prints, specials and mutations; "
              "the spec's meaning is validated against PyYAML's event stream on every AST.")
LEVEL_NOTE = ("Trusted: Coq kernel; the statement-level mapping of gen/c07_src.py (listed in TRUSTED: object representation of "
              "StreamBuffer, fuel for while loops, erased marks / messages / State flag, tokens reduced to kind + value + start index); "
              "the flag sites of coq/Opt/OptComments.v and the messages / context marks, which are not translated (flag and marks are "
              "checked by correspondence); the reading of YAML 1.1 in coq/Opt/YamlSpec.v (checked against PyYAML 6.0.3 as the conforming "
              "loader, every scalar a string). Not covered by the agreement theorems, only by the search against PyYAML: the line-break "
              "characters LS and PS (YAML 1.1 and the tokenizer keep them as characters and do not fold them, so the meaning function "
              "differs - a different spec, not a different print), different line-break kinds mixed in one text (not transparent in "
              "general, C07_mixed_breaks_refuted), texts that contain CR and are not the CR LF / CR print of an LF text, BOM, characters "
              "above U+D7FF and plain scalars starting with an indicator. Tabs as separation white space are rejected by PyYAML and by "
              "the tokenizer alike (nothing to widen). Error messages and context marks are not modelled.")
